"""C11 network simulator: the real control loop, closed over bytes.

  hosts --frames--> SoftwareSwitch (real)  --OFConnection/IOWorker (real)--+
                                                                            | bytes
  l2_learning (real) <-- events -- of_01.Connection (real) <-- FakeSock ----+

* N real `SoftwareSwitch` instances, each behind a real `OFConnection` on an
  `IOWorker` whose socket is a stub; N real `of_01.Connection` objects on
  scripted sockets on the controller side; the real `l2_learning` component
  (started with its own `launch()`) listens on a fresh `OpenFlowNexus`.
* A synchronous pump moves the bytes each side wrote to the other side's
  reader (`OFConnection.read` via `IOWorker._push_receive_data`,
  `Connection.read`), optionally re-segmented, until nothing is in flight.
* Frames are bytes built with `struct` only (no POX packet code), handed to
  `SoftwareSwitch.rx_packet`; frames leaving a switch are taken from the
  `DpPacketOut` event; on an inter-switch link they are re-injected into the
  neighbour.  One *hop* = one frame arriving at one switch, processed until
  the control channel is quiet again.
* Everything observed for verdicts is public: bytes on the OpenFlow channel
  (decoded by harness/rawbytes.py), `DpPacketOut` events, the flow table
  through `SoftwareSwitch.table.entries`.  Buffer occupancy is read from
  `_packet_buffer` (there is no public accessor); `macToPort` is only used for
  diagnostics.
* Virtual time: `time` inside flow_table / switch / of_01 / l2_learning is
  harness.poxenv.clock.
"""
import socket as _socket
import errno
import struct

from engine.core import Machinery
from harness import poxenv
from harness import rawbytes as rb

core = poxenv.boot()

import pox.openflow as ofmod                      # noqa: E402
import pox.openflow.of_01 as of_01                # noqa: E402

ofmod.launch()
of_01.DeferredSender.start = lambda self: None
if of_01.deferredSender is None:
  of_01.deferredSender = of_01.DeferredSender()

from pox.lib.ioworker import IOWorker             # noqa: E402
from pox.datapaths import switch as swmod         # noqa: E402
from pox.openflow import flow_table as ftmod      # noqa: E402
from pox.lib.packet.ethernet import ethernet      # noqa: E402
import pox.forwarding.l2_learning as l2mod        # noqa: E402

poxenv.install_clock(of_01, swmod, ftmod, l2mod)


class Diverged(Exception):
  """The control loop did not become quiet within the step budget."""


class ChannelLost(Exception):
  """The controller gave up an OpenFlow connection (code under test)."""


class HandshakeFailed(Exception):
  """A switch and the controller did not get to ConnectionUp (code under test)."""


# --------------------------------------------------------------------------
# frames (struct only)

def ipv4_udp(src_ip, dst_ip, sport, dport, payload_len, tos=0, ident=1):
  pl = bytes((i * 5 + 1) & 0xff for i in range(payload_len))
  udp_len = 8 + len(pl)
  pseudo = rb.ip(src_ip) + rb.ip(dst_ip) + struct.pack("!BBH", 0, 17, udp_len)
  udp = struct.pack("!HHHH", sport, dport, udp_len, 0) + pl
  c = rb.csum(pseudo + udp) or 0xffff
  udp = struct.pack("!HHHH", sport, dport, udp_len, c) + pl
  hdr = struct.pack("!BBHHHBBH4s4s", 0x45, tos, 20 + udp_len, ident, 0, 64, 17,
                    0, rb.ip(src_ip), rb.ip(dst_ip))
  hc = rb.csum(hdr)
  hdr = hdr[:10] + struct.pack("!H", hc) + hdr[12:]
  return hdr + udp


def ipv4_icmp_echo(src_ip, dst_ip, ident=7, seq=1, payload_len=32):
  pl = bytes((i * 3 + 2) & 0xff for i in range(payload_len))
  ic = struct.pack("!BBHHH", 8, 0, 0, ident, seq) + pl
  ic = ic[:2] + struct.pack("!H", rb.csum(ic)) + ic[4:]
  hdr = struct.pack("!BBHHHBBH4s4s", 0x45, 0, 20 + len(ic), 2, 0, 64, 1, 0,
                    rb.ip(src_ip), rb.ip(dst_ip))
  hdr = hdr[:10] + struct.pack("!H", rb.csum(hdr)) + hdr[12:]
  return hdr + ic


def arp_request(src_mac, src_ip, dst_ip):
  return struct.pack("!HHBBH6s4s6s4s", 1, 0x0800, 6, 4, 1, rb.mac(src_mac),
                     rb.ip(src_ip), b"\0" * 6, rb.ip(dst_ip))


def lldp_payload(chassis=b"\x07dp1", port=b"\x021", ttl=120):
  def tlv(t, v):
    return struct.pack("!H", (t << 9) | len(v)) + v
  return tlv(1, chassis) + tlv(2, port) + tlv(3, struct.pack("!H", ttl)) + tlv(0, b"")


def frame(dst_mac, src_mac, ethertype, payload, minlen=60):
  return rb.pad_to(rb.eth(dst_mac, src_mac, ethertype, payload), minlen)


def vlan_frame(dst_mac, src_mac, vid, pcp, ethertype, payload, minlen=64):
  tci = ((pcp & 7) << 13) | (vid & 0xfff)
  return rb.pad_to(rb.mac(dst_mac) + rb.mac(src_mac) +
                   struct.pack("!HHH", 0x8100, tci, ethertype) + payload, minlen)


# --------------------------------------------------------------------------
# sockets

class CtlSock(object):
  """Scripted non-blocking TCP socket as seen by of_01.Connection."""
  _fd = 5000

  def __init__(self, k):
    self.k = k
    self.inq = []
    self.out = b""
    self.closed = False
    self.shut = False
    CtlSock._fd += 1
    self._fileno = CtlSock._fd

  def fileno(self):
    return self._fileno

  def setblocking(self, v):
    pass

  def getpeername(self):
    return ("10.9.0.%d" % (self.k + 1), 41000 + self.k)

  def send(self, data):
    if self.closed or self.shut:
      raise _socket.error(errno.EPIPE, "Broken pipe")
    self.out += data
    return len(data)

  def recv(self, n, flags=0):
    if self.inq:
      d = self.inq.pop(0)
      if len(d) > n:
        self.inq.insert(0, d[n:])
        d = d[:n]
      return d
    if self.shut or self.closed:
      return b""
    raise _socket.error(errno.EAGAIN, "Resource temporarily unavailable")

  def shutdown(self, how):
    self.shut = True

  def close(self):
    self.closed = True


class SwSock(object):
  def __init__(self, k):
    self.k = k

  def getpeername(self):
    return ("127.0.0.1", 6633)


SEG_PATTERNS = {
    0: None,                         # whole writes
    1: [1],                          # one byte at a time
    2: [7, 1, 64, 3, 9, 200],        # uneven chunks, cuts inside headers
    3: [8, 72, 16],                  # cuts on typical message boundaries
}


def _chunks(data, pattern, state):
  if not pattern:
    return [data]
  out = []
  off = 0
  while off < len(data):
    n = pattern[state[0] % len(pattern)]
    state[0] += 1
    out.append(data[off:off + n])
    off += n
  return out


# --------------------------------------------------------------------------

class Node(object):
  """One switch with both ends of its OpenFlow channel."""
  pass


class NetSim(object):
  MAX_ROUNDS = 60          # pump rounds per hop (a normal hop needs <= 4)
  MAX_HOPS = 40            # arrivals processed per injected frame

  def __init__(self, nsw=1, nports=3, links=None, max_buffers=2, seg=0,
               dpids=None, transparent=False, miss_send_len=128, hold_down=0):
    self.nsw = nsw
    self.nports = nports
    self.links = dict(links or {})              # (s,p) -> (s2,p2), 1-based
    for (a, b) in list(self.links.items()):
      self.links[b] = a
    self.clock = poxenv.clock
    self.seg = SEG_PATTERNS[seg % len(SEG_PATTERNS)]
    self._segstate = [0]
    self.dpids = dpids or list(range(1, nsw + 1))
    self._fresh_controller(transparent, hold_down)
    self.nodes = {}
    self.emits = []                              # (s, port, bytes) since last take
    for s in range(1, nsw + 1):
      n = Node()
      n.s = s
      n.dpid = self.dpids[s - 1]
      n.sw = swmod.SoftwareSwitch(n.dpid, ports=nports, max_buffers=max_buffers,
                                  miss_send_len=miss_send_len)
      n.worker = IOWorker()
      n.worker.socket = SwSock(s)
      n.ofc = swmod.OFConnection(n.worker)
      n.sw.set_connection(n.ofc)
      n.sw.addListenerByName("DpPacketOut", self._on_out(s))
      n.sock = CtlSock(s)
      n.con = None
      n.c2s = []            # decoded controller->switch messages (tap)
      n.s2c = []            # decoded switch->controller messages (tap)
      n.c2s_raw = b""
      n.s2c_raw = b""
      self.nodes[s] = n
    self._connect()

  # -- controller side
  def _fresh_controller(self, transparent, hold_down=0):
    old = core.components.get("openflow")
    if old is not None:
      try:
        core.removeListener(old._handle_DownEvent)
      except Exception:
        pass
    self.nexus = ofmod.OpenFlowNexus()
    core.components["openflow"] = self.nexus
    core.components["OpenFlowConnectionArbiter"] = ofmod.OpenFlowConnectionArbiter()
    of_01.Connection.ID = 0
    of_01.Connection._aborted_connections = 0
    of_01.deferredSender.sending = False
    of_01.deferredSender._dataForConnection.clear()
    try:
      core.scheduler._ready.clear()
    except Exception:
      pass
    core.components.pop("l2_learning", None)
    # the component's own entry point (registers on core.openflow = our nexus)
    # (launch options as given: a bool / int, or the strings of a command line; hold_down is always passed -
    #  it is kept in a module global that outlives the component)
    l2mod.launch(transparent=transparent, hold_down=hold_down)
    self.l2 = core.components["l2_learning"]
    self.brains = {}
    self.nexus.addListenerByName("ConnectionUp", self._on_up, priority=-1000)

  def _on_up(self, event):
    # find the LearningSwitch the component attached to this connection
    # (diagnostics only): it registered its _handle_PacketIn on the connection
    self.brains[event.dpid] = None
    try:
      for lst in event.connection._eventMixin_handlers.values():
        for entry in lst:
          f = entry[1]
          obj = getattr(f, "__self__", None)
          if isinstance(obj, l2mod.LearningSwitch):
            self.brains[event.dpid] = obj
    except Exception:
      pass

  def _on_out(self, s):
    def h(e):
      self.emits.append((s, e.port.port_no, e.packet.pack()))
    return h

  def _connect(self):
    for s, n in self.nodes.items():
      n.con = of_01.Connection(n.sock)
    try:
      self._pump()
    except (ChannelLost, Diverged, rb.ParseError) as e:
      raise HandshakeFailed(str(e))
    for s, n in self.nodes.items():
      if self.nexus.getConnection(n.dpid) is not n.con or n.con.connect_time is None:
        raise HandshakeFailed("switch %d did not complete the handshake" % s)
      n.c2s, n.s2c = [], []
    if self.emits:
      raise HandshakeFailed("frames emitted during the handshake")

  # -- the pump
  def _pump(self):
    """Move bytes in both directions until nothing is in flight."""
    rounds = 0
    while True:
      moved = False
      for s, n in self.nodes.items():
        if n.sock.out:
          data, n.sock.out = n.sock.out, b""
          n.c2s_raw += data
          for ch in _chunks(data, self.seg, self._segstate):
            n.worker._push_receive_data(ch)
          moved = True
        if n.worker.send_buf:
          data, n.worker.send_buf = n.worker.send_buf, b""
          n.s2c_raw += data
          n.sock.inq.extend(_chunks(data, self.seg, self._segstate))
          while n.sock.inq:
            if n.con.read() is False:
              raise ChannelLost("controller dropped the connection of switch %d" % s)
          moved = True
      if not moved:
        break
      rounds += 1
      if rounds > self.MAX_ROUNDS:
        raise Diverged("control channel still busy after %d rounds" % rounds)
    for n in self.nodes.values():
      if n.c2s_raw:
        n.c2s.extend(rb.parse_stream(n.c2s_raw))
        n.c2s_raw = b""
      if n.s2c_raw:
        n.s2c.extend(rb.parse_stream(n.s2c_raw))
        n.s2c_raw = b""

  # -- dataplane
  def occupancy(self, s):
    return sum(1 for b in self.nodes[s].sw._packet_buffer if b is not None)

  def table(self, s):
    return list(self.nodes[s].sw.table.entries)

  def table_wire(self, s):
    """The switch's flow table as a management station sees it: an OFPST_FLOW
    request pushed into the switch's OpenFlow connection, the reply taken from
    its send buffer (not forwarded to the controller) and decoded by
    harness/rawbytes.py.  Returns the list of flow dicts."""
    n = self.nodes[s]
    if n.worker.send_buf or n.sock.out:
      raise Machinery("table_wire: channel of switch %d not quiet" % s)
    req = rb.stats_request(rb.ST_FLOW, rb.flow_stats_request_body(), xid=0x7e57)
    n.worker._push_receive_data(req)
    data, n.worker.send_buf = n.worker.send_buf, b""
    msgs = rb.parse_stream(data)
    if len(msgs) != 1 or msgs[0]["type"] != rb.STATS_REPLY or msgs[0].get("stype") != rb.ST_FLOW \
        or msgs[0]["xid"] != 0x7e57:
      raise Machinery("table_wire: unexpected answer to the flow statistics request: %r"
                      % [(m["name"], m.get("stype")) for m in msgs])
    return msgs[0]["flows"]

  def mac_to_port(self, s):
    b = self.brains.get(self.nodes[s].dpid)
    if b is None:
      return None
    return {str(k): v for k, v in b.macToPort.items()}

  def tick(self, d):
    self.clock.advance(d)

  def sweep(self):
    for n in self.nodes.values():
      n.sw.table.remove_expired_entries()
    self._pump()

  def inject(self, s, p, fr, content=None):
    """Frame `fr` arrives at port p of switch s.  Returns the list of hops,
    in processing order; each hop = dict(s, i, pktin, msgs, out, foreign).
    `content` = number of leading bytes that are the frame's content when the
    rest is Ethernet padding behind a self-delimiting payload (an LLDPDU ends
    at its End TLV): an emitted copy counts as unmodified when it is `fr`, or
    `fr` cut somewhere in that padding."""
    hops = []
    todo = [(s, p)]
    while todo:
      if len(hops) >= self.MAX_HOPS:
        raise Diverged("frame still travelling after %d hops" % len(hops))
      cs, cp = todo.pop(0)
      n = self.nodes[cs]
      self.emits = []
      for m in self.nodes.values():
        m.c2s, m.s2c = [], []
      n.sw.rx_packet(ethernet(raw=fr), cp)    # (every hop receives the original bytes)
      self._pump()
      out, foreign, modified = [], [], 0
      for (es, ep, eb) in self.emits:
        if es != cs:
          foreign.append([es, ep])
          continue
        out.append(ep)
        if eb != fr and not (content is not None and len(eb) >= content and fr.startswith(eb)):
          modified += 1
        if (es, ep) in self.links:
          todo.append(self.links[(es, ep)])
      others = sum(len(m.c2s) + len(m.s2c) for k, m in self.nodes.items() if k != cs)
      hops.append(dict(s=cs, i=cp, s2c=n.s2c, c2s=n.c2s, out=out,
                       foreign=foreign, modified=modified, others=others,
                       buf=self.occupancy(cs)))
      self.emits = []
    return hops
