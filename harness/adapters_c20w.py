"""C20 adapter (switch side): Worker.tla actions -> real RecocoIOWorker on a scripted socket."""
import errno
import socket

from harness import poxenv

core = poxenv.boot()
from pox.lib.ioworker import RecocoIOWorker, RecocoIOLoop   # noqa: E402


# concretisation of the spec's outcome "fatal": any errno a socket reports for a connection that is gone for
# good - the property speaks of "a fatal socket error", not of one error family (EPIPE / ECONNRESET happen to
# be ConnectionError subclasses in Python 3, ETIMEDOUT / EHOSTUNREACH / ENOTCONN ... are not)
FATAL_ERRNOS = [errno.ECONNRESET, errno.ETIMEDOUT, errno.EPIPE, errno.EHOSTUNREACH, errno.ENOTCONN,
                errno.ECONNABORTED, errno.ENETUNREACH]


def fatal_error(salt):
  import os
  e = FATAL_ERRNOS[salt % len(FATAL_ERRNOS)]
  return socket.error(e, os.strerror(e))


class FakeSock(object):
  def __init__(self):
    self.accepted = bytearray()
    self.script = []
    self.dead = False
    self.shutwr = 0

  def fileno(self):
    return 77

  def send(self, data, flags=0):
    if self.dead:
      raise socket.error(errno.EPIPE, "Broken pipe")
    o = self.script.pop(0) if self.script else {"k": "full", "n": len(data)}
    if o["k"] == "full":
      self.accepted += data
      return len(data)
    if o["k"] == "part":
      n = min(o["n"], len(data))
      self.accepted += data[:n]
      return n
    if o["k"] == "eagain":
      raise socket.error(errno.EAGAIN, "Resource temporarily unavailable")
    self.dead = True
    raise fatal_error(len(self.script) + len(self.accepted) + 0)

  def shutdown(self, how):
    if how in (socket.SHUT_WR, socket.SHUT_RDWR):
      self.shutwr += 1
      self.dead = True        # a socket whose sending direction is shut down refuses data (EPIPE)

  def close(self):
    self.dead = True

  def recv(self, n, flags=0):
    raise socket.error(errno.EAGAIN, "again")

  def getpeername(self):
    return ("10.0.0.9", 1)


class Adapter(object):
  def __init__(self, connecting=False):
    self.loop = RecocoIOLoop()
    self.sock = FakeSock()
    self.w = RecocoIOWorker(self.sock)
    self.loop.register_worker(self.w)
    self.closes = 0
    self.w.close_handler = self._closed
    if connecting:
      # a worker whose connection is still being set up; its connect handler greets the peer (80 = Greet in Worker.tla)
      self.w._connecting = True
      self.w.connect_handler = lambda w: w.send(b"\x50")
    self._drain()

  def _closed(self, w):
    self.closes += 1
    if self.closes < 5:
      w.send_fast(b"\x5a")      # a close handler that still tries to say something (90 = Late in Worker.tla)

  def _drain(self):
    while self.loop._pending_commands:
      self.loop._pending_commands.popleft()()
    try:
      self.loop.pinger.pongAll() if False else None
    except Exception:
      pass

  def close(self):
    p = self.loop.pinger
    import os
    for fd in (p._w, p._r):
      try:
        os.close(fd)
      except Exception:
        pass
    p._w = p._r = -1

  def step(self, a, args):
    if a == "Send":
      n = args["n"]
      self.w.send(bytes(10 * n + i for i in range(1, 4)))
    elif a == "SendFast":
      n = args["n"]
      self.sock.script = [args["o"]]
      self.w.send_fast(bytes(10 * n + i for i in range(1, 4)))
      self.sock.script = []
    elif a == "DoSend":
      self.sock.script = [args["o"]]
      self.w._do_send(self.loop)
      self.sock.script = []
    elif a == "CloseAgain":
      self.w.close()
    elif a == "Shutdown":
      self.w.shutdown()
    else:
      raise ValueError(a)
    self._drain()
    buf = self.w.send_buf
    return {"accepted": list(self.sock.accepted),
            "buf": list(buf) if isinstance(buf, (bytes, bytearray)) else ["NOT-BYTES", repr(buf)[:40]],
            "closed": bool(self.w.closed), "closes": self.closes, "shutwr": self.sock.shutwr,
            "connecting": bool(self.w._connecting)}

  def signature(self, st, obs):
    sig = {"action": st["a"], "side": "worker"}
    if isinstance(obs, dict) and "EXC" in obs:
      sig["observed"] = "exception:" + obs["EXC"]
    else:
      sig["fields"] = sorted(k for k in st["exp"] if obs.get(k) != st["exp"][k])
    if "o" in (st.get("args") or {}):
      sig["outcome"] = st["args"]["o"]["k"]
    return sig
