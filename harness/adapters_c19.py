"""C19 adapter: run an environment history of Topo.tla on the real code.

A scenario is
  {"n": switches, "np": ports per switch, "wires": [[s1,p1,s2,p2], ...],
   "phys": [wires up at the start], "steps": [{"a": ..., ...}], "seed": int,
   "cfg": {"to": link timeout, "flow", "drop", "eat", "nofl", "hold"}}
in the vocabulary of specs/topo/Topo.tla (switches 1..n, ports 1..np; cfg =
the option record of Topo.tla, absent = the default configuration).  The
configuration is concretised to the keyword arguments the POX command line
would hand to openflow.discovery.launch / openflow.spanning_tree.launch
(`launch_options`: strings or numbers, flag or explicit value - seeded).  The
runner concretises switch numbers to 64-bit datapath ids and port numbers to
16-bit OpenFlow port numbers (boundary values, seeded, injective and NOT
order preserving: the spec uses them under equality only), performs each
environment action on harness.c19_netsim.Net (real Discovery, LLDPSender,
spanning_tree, of_01.Connection, SoftwareSwitch, recoco timers under a
virtual clock) and records, after each action and quiescence, what Topo.tla
calls the controller's response:
  adj  Discovery.adjacency, evs  the LinkEvents raised (in order),
  nf   the ports whose NO_FLOOD bit is set ON THE SWITCHES.
Flood steps inject a broadcast frame and count arrivals per switch.
Nothing is judged here: TLC validates the recorded trace (TraceTopo.tla).
"""
import random

DPID_POOL = [1, 2, 3, 0x7f, 0x80, 0xff, 0x100, 0xffff, 0x10000, 0x7fffffff, 0x80000000,
             0xffffffff, 0x100000000, 0x0000ffffffffffff, 0x0001000000000000,
             0x7fffffffffffffff, 0x8000000000000000, 0xfffffffffffffffe, 0xffffffffffffffff,
             0x0123456789abcdef, 0xa, 0x10, 0xabcdef, 0xdeadbeefcafe]
PORT_POOL = [1, 2, 3, 4, 9, 10, 99, 100, 255, 256, 0x7fff, 0x8000, 0xfeff, 0xfe00, 1000, 12345]

FIELDS = dict(a="", s=0, p=0, d=0, lk=[0, 0, 0, 0], n=0, np=0, wires=[], phys=[],
              to=0, flow=True, drop=True, eat=False, nofl=False, hold=False,
              adj=[], evs=[], nf=[], rx=[], storm=False, wf=True)

DEFAULT_CFG = dict(to=10, flow=True, drop=True, eat=False, nofl=False, hold=False)
SLACK = 1


def cfg_of(sc):
  c = dict(DEFAULT_CFG)
  c.update(sc.get("cfg") or {})
  return c


def hold_cap(cfg):
  """Topo.tla: HoldCap = Hold + Slack = (ceil(to / 2) + 1) + Slack"""
  return (cfg["to"] + 1) // 2 + 1 + SLACK


def launch_options(cfg, seed):
  """cfg -> (kwargs of discovery.launch, kwargs of spanning_tree.launch, harness installs the LLDP entry).
  The POX command line passes `--name=value` as the string value and `--name` as True; both forms are used."""
  rnd = random.Random(seed * 31337 + 5)
  form = rnd.randrange(3)
  d = {}
  if cfg["to"] != DEFAULT_CFG["to"] or form == 1:
    d["link_timeout"] = str(cfg["to"]) if form != 2 else cfg["to"]
  if not cfg["flow"]:
    d["no_flow"] = True if form == 0 else rnd.choice(["True", "yes", "1"])
  elif form == 1:
    d["no_flow"] = rnd.choice(["False", "no", "0"])
  if not cfg["drop"]:
    d["explicit_drop"] = rnd.choice(["False", "no", "0"])
  elif form == 1:
    d["explicit_drop"] = rnd.choice(["True", "yes"])
  if cfg["eat"]:
    d["eat_early_packets"] = True if form == 0 else rnd.choice(["True", "on"])
  elif form == 1:
    d["eat_early_packets"] = "False"
  st = {}
  if cfg["nofl"]:
    st["no_flood"] = True
  if cfg["hold"]:
    st["hold_down"] = True
  return d, st, not cfg["flow"]


def rec(**kw):
  r = {k: (list(v) if isinstance(v, list) else v) for k, v in FIELDS.items()}
  r.update(kw)
  return r


def concretise(n, np, seed):
  rnd = random.Random(seed * 7919 + 13)
  pool = list(DPID_POOL)
  while len(pool) < n + 4:
    pool.append(rnd.getrandbits(64) or 5)
  dp = rnd.sample(pool, n)
  if seed % 4 == 0:
    dp = list(range(1, n + 1))            # the plain numbering, too
    if seed % 8 == 0:
      dp.reverse()
  ports = {}
  for i in range(n):
    pp = list(PORT_POOL)
    while len(pp) < np:
      x = rnd.randint(1, 0xfeff)
      if x not in pp:
        pp.append(x)
    ports[dp[i]] = rnd.sample(pp, np) if seed % 4 else list(range(1, np + 1))
  return dp, ports


def header(sc):
  c = cfg_of(sc)
  return rec(a="Init", n=sc["n"], np=sc["np"], wires=[list(l) for l in sc["wires"]],
             phys=[list(l) for l in sc["phys"]], **c)


class Runner(object):
  def __init__(self, sc):
    from harness import c19_netsim as ns
    self.ns = ns
    self.sc = sc
    n, np = sc["n"], sc["np"]
    self.n, self.np = n, np
    self.dp, self.ports = concretise(n, np, sc.get("seed", 0))
    self.sw_of = {d: i + 1 for i, d in enumerate(self.dp)}
    self.port_of = {d: {rp: j + 1 for j, rp in enumerate(self.ports[d])} for d in self.dp}
    self.cfg = cfg_of(sc)
    if self.cfg["to"] < 1 or 2 * n * np > 15 * self.cfg["to"]:
      raise ns.SimError("scenario outside the environment assumptions of Topo.tla (CfgFits): %r" % (self.cfg,))
    self.opts = launch_options(self.cfg, sc.get("seed", 0))
    self.net = ns.Net(self.dp, self.ports, disc_opts=self.opts[0], st_opts=self.opts[1], lldp_entry=self.opts[2])
    for l in sc["phys"]:
      self.net.link_up(self.cl(l))
    self.up = set()
    self.now = 0                          # whole seconds since the start
    self.since = {}                       # switch -> time of its last connect
    self.flight = set()                   # spec wires with a delayed probe on its way (Topo.tla flight)

  # spec link -> concrete link and back
  def cl(self, l):
    d1, d2 = self.dp[l[0] - 1], self.dp[l[2] - 1]
    return (d1, self.ports[d1][l[1] - 1], d2, self.ports[d2][l[3] - 1])

  def al(self, d1, p1, d2, p2):
    s1, s2 = self.sw_of.get(d1, 0), self.sw_of.get(d2, 0)
    q1 = self.port_of.get(d1, {}).get(p1, 0)
    q2 = self.port_of.get(d2, {}).get(p2, 0)
    return [s1, q1, s2, q2]

  def observe(self):
    net = self.net
    adj = sorted(self.al(*l) for l in net.adjacency())
    evs = [[1 if e[0] == "add" else 0] + self.al(*e[1:]) for e in net.take_events()]
    nf = sorted([self.sw_of[d], self.port_of[d][p]]
                for d, nd in net.nodes.items() for p in nd.port_nos if nd.noflood(p))
    return dict(adj=adj, evs=evs, nf=nf)

  def observe_adj(self):
    return sorted(self.al(*l) for l in self.net.adjacency())

  def converged(self):
    if len(self.up) != self.n:
      return False
    if (self.cfg["nofl"] or self.cfg["hold"]) and \
       any(self.now - self.since[s] < hold_cap(self.cfg) for s in self.up):
      return False                 # Topo.tla: Settled (no switch is young)
    live = sorted(list(self.al(*l)) for l in self.net.phys)
    return live == sorted(self.al(*l) for l in self.net.adjacency())

  def step(self, st):
    a = st["a"]
    net = self.net
    if a == "SwitchUp":
      net.switch_up(self.dp[st["s"] - 1])
      self.up.add(st["s"])
      self.since[st["s"]] = self.now
      return rec(a=a, s=st["s"], **self.observe())
    if a == "SwitchDown":
      net.switch_down(self.dp[st["s"] - 1])
      self.up.discard(st["s"])
      return rec(a=a, s=st["s"], **self.observe())
    if a == "Advance":
      net.advance(st["d"])
      self.now += st["d"]
      return rec(a=a, d=st["d"], **self.observe())
    if a == "Cut":
      net.link_down(self.cl(st["lk"]))
      net._settle()
      return rec(a=a, lk=list(st["lk"]), **self.observe())
    if a == "Restore":
      net.link_up(self.cl(st["lk"]))
      net._settle()
      return rec(a=a, lk=list(st["lk"]), **self.observe())
    if a == "Delay":
      # Topo.tla Delay(w): enabled for a known live wire (and only a probe that did travel can be delayed)
      l = list(st["lk"])
      if not (l in self.observe_adj() and self.cl(l) in net.phys and l[0] in self.up and l[2] in self.up
              and tuple(l) not in self.flight and net.delay(self.cl(l))):
        return None
      self.flight.add(tuple(l))
      net._settle()
      return rec(a=a, lk=l, **self.observe())
    if a == "Late":
      # Topo.tla Late(w, R): the delayed probe is handed to the controller by the receiving switch
      l = list(st["lk"])
      if tuple(l) not in self.flight or l[2] not in self.up:
        return None
      self.flight.discard(tuple(l))
      net.late(self.cl(l))
      return rec(a=a, lk=l, **self.observe())
    if a == "Flood":
      if not self.converged():
        return None                # the spec's Flood is enabled in converged states only
      d = self.dp[st["s"] - 1]
      rx, storm = net.flood_from(d, self.ports[d][st["p"] - 1])
      o = self.observe()
      return rec(a=a, s=st["s"], p=st["p"], rx=[rx.get(x, 0) for x in self.dp], storm=bool(storm), **o)
    raise ValueError(a)

  def run(self):
    sc = self.sc
    tr = [header(sc)]
    for st in sc["steps"]:
      try:
        r = self.step(st)
      except (self.ns.Horizon, self.ns.SimError):
        raise
      except Exception as e:                       # escaped from the code under test
        r = rec(a=st["a"], s=st.get("s", 0), p=st.get("p", 0), d=st.get("d", 0),
                lk=list(st.get("lk", [0, 0, 0, 0])), wf=False)
        r["exc"] = "%s: %s" % (type(e).__name__, str(e)[:200])
        tr.append(r)
        break
      if r is not None:
        tr.append(r)
    self.net.close()
    return tr


def run_scenario(sc):
  """driver entry point (engine.core.run_driver): scenario -> recorded trace"""
  from harness import c19_netsim as ns
  try:
    r = Runner(sc)
  except ns.LaunchError as e:
    # a launcher of the code under test refused the (legal) options: no step can be observed
    st = sc["steps"][0] if sc["steps"] else dict(a="Advance", d=1)
    bad = rec(a=st["a"], s=st.get("s", 0), p=st.get("p", 0), d=st.get("d", 0),
              lk=list(st.get("lk", [0, 0, 0, 0])), wf=False)
    bad["exc"] = "launch: %s" % e
    return [header(sc), bad]
  tr = r.run()
  tr[0]["opts"] = [r.opts[0], r.opts[1]]
  return tr


# --------------------------------------------------------------------------
# Probe.tla replay: controller side only, every byte fed in built by rawbytes

def _num(bs):
  v = 0
  for b in bs:
    v = v * 256 + b
  return v


def _bytes_of(v, n):
  return [(v >> (8 * (n - 1 - i))) & 0xff for i in range(n)]


class ProbeAdapter(object):
  """One fresh controller (nexus + Discovery) per behaviour; switches are
  scripted byte streams: the handshake is answered with rawbytes messages,
  the LLDP frame the sender emits for (d, p) is cut out of its PACKET_OUT
  and handed back as a PACKET_IN on port q of switch r."""

  def __init__(self):
    from harness import c19_netsim as ns
    from harness import rawbytes as rb
    self.ns, self.rb = ns, rb
    self.net = ns.Net([], {})           # resets nexus / discovery / timers
    self.cons = {}                      # dpid -> (sock, con)
    self.probes = {}                    # (dpid, port) -> LLDP frame bytes

  def _read(self, sock, con, data):
    sock.inq.append(data)
    while sock.inq:
      if con.read() is False:
        raise self.ns.SimError("controller dropped the scripted connection")

  def _drain(self, dpid):
    """decode what the controller wrote; keep discovery probes"""
    sock, con = self.cons[dpid]
    data, sock.out = sock.out, b""
    msgs = self.rb.parse_stream(data)
    for m in msgs:
      if m["name"] == "PACKET_OUT" and m["data"][12:14] == b"\x88\xcc":
        acts = m["actions"]
        if len(acts) == 1 and acts[0]["type"] == 0:
          port = int(acts[0]["body"][:4], 16)
          self.probes[(dpid, port)] = m["data"]
    return msgs

  def connect(self, dpid, ports):
    rb, ns = self.rb, self.ns
    sock = ns.CtlSock("x%x" % dpid)
    con = ns.of_01.Connection(sock)
    self.cons[dpid] = (sock, con)
    self._read(sock, con, rb.hello())
    self._drain(dpid)
    pl = [rb.phy_port(p, "02:00:00:%02x:%02x:%02x" % (len(self.cons), p >> 8, p & 0xff), "p%d" % p)
          for p in ports]
    self._read(sock, con, rb.features_reply(dpid, ports=pl, n_buffers=0))
    xid = None
    for m in self._drain(dpid):
      if m["name"] == "BARRIER_REQUEST":
        xid = m["xid"]
    if xid is None:
      raise ns.SimError("no barrier request during the handshake")
    self._read(sock, con, rb.barrier_reply(xid))
    if self.net.nexus.getConnection(dpid) is not con:
      raise ns.SimError("scripted handshake did not complete")
    self._drain(dpid)

  def step(self, a, args):
    if a != "Probe":
      raise ValueError(a)
    d, r = _num(args["d"]), _num(args["r"])
    p, q = _num(args["p"]), _num(args["q"])
    if d not in self.cons:
      self.connect(d, [p] if d != r else sorted({p, q}))
    if r not in self.cons:
      self.connect(r, [q])
    fr = self.probes.get((d, p))
    if fr is not None:
      sock, con = self.cons[r]
      self._read(sock, con, self.rb.packet_in(self.rb.NO_BUFFER, len(fr), q, 0, fr))
      self._drain(r)
    adj = sorted([_bytes_of(l.dpid1, 8), _bytes_of(l.port1, 2), _bytes_of(l.dpid2, 8), _bytes_of(l.port2, 2)]
                 for l in self.net.disc.adjacency)
    return {"adj": adj}

  def signature(self, st, obs):
    g = st["args"]
    p = _num(g["p"])
    sig = {"action": "Probe", "via": "replay",
           "port_class": "virtual" if p > 0xff00 else ("max" if p == 0xff00 else ("zero" if p == 0 else "physical")),
           "self": g["d"] == g["r"],
           "dpid_top_bit": g["d"][0] >= 128,
           "expected_links": len(st["exp"]["adj"])}
    if isinstance(obs, dict) and "EXC" in obs:
      sig["observed"] = "exception:" + obs["EXC"]
    else:
      sig["observed_links"] = len(obs.get("adj", [])) if isinstance(obs, dict) else -1
    return sig

  def close(self):
    for sock, con in self.cons.values():
      try:
        sock.eof = True
        con.close()
      except Exception:
        pass
