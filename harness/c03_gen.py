"""C03: seeded random flow matches and frames for the code -> spec direction.

Only INPUTS are produced here.  `hint` repeats the field extraction so that a
random match can be derived from a frame (otherwise random matches would
hardly ever hit); it is never used for a verdict - TLC computes the permitted
answers from specs/match/OFMatch.tla.
"""
FLAGS = ["in_port", "dl_vlan", "dl_src", "dl_dst", "dl_type", "nw_proto", "tp_src", "tp_dst",
         "dl_vlan_pcp", "nw_tos"]
IPS = [[202, 85, 170, 91], [10, 129, 0, 254], [0, 0, 0, 0], [255, 255, 255, 255], [127, 0, 0, 1],
       [128, 0, 0, 0], [10, 129, 0, 255]]
DEEP_UDP = {53, 67, 68, 520, 5353, 4789}      # ports behind which POX parses further protocols (C15)


def _port(r):
  p = r.choice([0, 1, 80, 1000, 2000, 65535, r.randrange(65536)])
  while p in DEEP_UDP:
    p += 1
  return p


def _ip(r):
  return list(r.choice(IPS)) if r.random() < 0.6 else [r.randrange(256) for _ in range(4)]


def frame(r):
  x = dict(port=r.choice([1, 2]), src=r.choice([1, 2, 3]), dst=r.choice([1, 2, 3]),
           tag=0, vid=0, pcp=0, cfi=0, l2="eth2", etype=0x0800, l3="none", tos=0, proto=0,
           sip=[0, 0, 0, 0], dip=[0, 0, 0, 0], frag="no", opts=0, op=0, l4="none", a=0, b=0)
  if r.random() < 0.35:
    x.update(tag=1, vid=r.choice([0, 1, 100, 4095, r.randrange(4096)]), pcp=r.randrange(8))
  k = r.random()
  if k < 0.45:
    body = "ip"
  elif k < 0.62:
    body = "arp"
  else:
    body = "none"
  k = r.random()
  if k < 0.7:
    x["l2"] = "eth2"
  elif k < 0.78:
    x["l2"] = "llc"
  elif k < 0.93:
    x["l2"] = "snap0"
  else:
    x["l2"] = "snapx"
  if x["l2"] == "llc":
    x["etype"] = 0
    body = "none"
  elif body == "ip":
    x["etype"] = 0x0800
  elif body == "arp":
    x["etype"] = r.choice([0x0806, 0x0806, 0x0806, 0x8035])
  else:
    x["etype"] = r.choice([0x88b5, 0x86dd, 0x0600, 0xffff, 0x88cd] +
                          ([0x8100] if x["tag"] and x["l2"] == "eth2" else []))
  x["l3"] = body
  if body == "ip":
    x["tos"] = r.choice([0, 44, 45, 47, 0xfc, 0xff, r.randrange(256)])
    x["proto"] = r.choice([6, 6, 17, 17, 1, 47, 2, 132, 0, 255])
    x["sip"], x["dip"] = _ip(r), _ip(r)
    x["frag"] = r.choice(["no"] * 6 + ["first", "later", "last"])
    x["opts"] = r.choice([0, 0, 0, 1, 10])
    if x["proto"] in (6, 17):
      x.update(l4="tp", a=_port(r), b=_port(r))
    elif x["proto"] == 1:
      x.update(l4="icmp", a=r.choice([0, 3, 8, 11, 255]), b=r.choice([0, 1, 255]))
    elif x["proto"] == 132:
      x.update(l4="tp", a=_port(r), b=_port(r))
  elif body == "arp":
    x["op"] = r.choice([1, 2, 3, 4, 255, 256, 258, 65535])
    x["sip"], x["dip"] = _ip(r), _ip(r)
  return x


def hint(x):
  """the 12 values a match for this frame would carry (input generation only)"""
  typ = x["etype"] if x["l2"] in ("eth2", "snap0") else 0x05ff
  ip, arp = typ == 0x0800, typ == 0x0806
  tp = ip and x["frag"] == "no" and x["proto"] in (1, 6, 17)
  return dict(in_port=x["port"], dl_src=x["src"], dl_dst=x["dst"],
              dl_vlan=x["vid"] if x["tag"] else 0xffff, dl_vlan_pcp=x["pcp"] if x["tag"] else 0,
              dl_type=typ, nw_tos=(x["tos"] & 0xfc) if ip else 0,
              nw_proto=x["proto"] if ip else (x["op"] & 0xff if arp else 0),
              nw_src=list(x["sip"]) if ip or arp else [0, 0, 0, 0],
              nw_dst=list(x["dip"]) if ip or arp else [0, 0, 0, 0],
              tp_src=x["a"] if tp else 0, tp_dst=x["b"] if tp else 0)


def flip(a, j):
  a = list(a)
  a[(j - 1) // 8] ^= 1 << (7 - ((j - 1) % 8))
  return a


def perturb(r, v, f):
  if f in ("dl_src", "dl_dst"):
    v[f] = r.choice([s for s in (1, 2, 3) if s != v[f]])
  elif f == "in_port":
    v[f] = r.choice([1, 2, 3, 0xfff8])
  elif f == "dl_vlan":
    v[f] = r.choice([0, 1, 100, 4095, 0xffff])
  elif f == "dl_vlan_pcp":
    v[f] = r.randrange(8)
  elif f == "dl_type":
    v[f] = r.choice([0x0800, 0x0806, 0x05ff, 0x88b5, 0x86dd, 0])
  elif f == "nw_tos":
    v[f] = r.choice([0, 44, 0xfc, 4 * r.randrange(64)])
  elif f == "nw_proto":
    v[f] = r.choice([0, 1, 2, 6, 17, 47, 255])
  elif f in ("nw_src", "nw_dst"):
    v[f] = flip(v[f], r.choice([1, 2, 8, 9, 16, 17, 24, 25, 31, 32, r.randrange(1, 33)]))
  else:
    v[f] = r.choice([0, 1, 80, 1000, 2000, 65535, (v[f] + 1) % 65536])


def match_for(r, x):
  v = hint(x)
  k = r.random()
  if k < 0.15:
    wc = []
  elif k < 0.3:
    wc = [f for f in FLAGS if r.random() < 0.85]
  else:
    wc = [f for f in FLAGS if r.random() < 0.5]
  bits = [0, 0, 0, 1, 8, 16, 24, 31, 32, 33, 63]
  sb = r.choice(bits + [r.randrange(64)])
  db = r.choice(bits + [r.randrange(64)])
  if r.random() < 0.5:
    for f in r.sample(sorted(v), r.choice([1, 1, 2, 3])):
      perturb(r, v, f)
  return dict(wc=wc, sbits=sb, dbits=db, v=v)


def wellformed(x):
  """mirror of WellFormed in OFMatch.tla: the frames the model talks about"""
  typ = x["etype"] if x["l2"] in ("eth2", "snap0") else 0x05ff
  if typ == 0x0800 and x["l3"] != "ip":
    return False
  if typ == 0x0806 and x["l3"] != "arp":
    return False
  if x["l3"] == "ip" and x["proto"] in (6, 17) and x["l4"] != "tp":
    return False
  if x["l3"] == "ip" and x["proto"] == 1 and x["l4"] != "icmp":
    return False
  if x["l2"] == "eth2" and x["etype"] < 1536:
    return False
  if x["etype"] == 0x8100 and not (x["tag"] == 1 and x["l2"] == "eth2"):
    return False
  return True


def variant(r, x):
  """a well-formed frame that differs from x in one or two header fields"""
  while True:
    y = _variant(r, x)
    if wellformed(y):
      return y


def _variant(r, x):
  y = dict(x, sip=list(x["sip"]), dip=list(x["dip"]))
  for _ in range(r.choice([1, 1, 2])):
    k = r.choice(["port", "src", "dst", "tag", "vid", "pcp", "tos", "ecn", "proto", "sip", "dip", "a", "b",
                  "frag", "op", "opts"])
    if k == "port":
      y["port"] = 3 - y["port"]
    elif k in ("src", "dst"):
      y[k] = r.choice([s for s in (1, 2, 3) if s != y[k]])
    elif k == "tag":
      if y["tag"]:
        y.update(tag=0, vid=0, pcp=0)
      else:
        y.update(tag=1, vid=r.choice([0, 100, 4095]), pcp=r.randrange(8))
    elif k == "vid" and y["tag"]:
      y["vid"] = (y["vid"] + 1) % 4096
    elif k == "pcp" and y["tag"]:
      y["pcp"] = (y["pcp"] + 1) % 8
    elif k == "tos" and y["l3"] == "ip":
      y["tos"] = (y["tos"] + 4) % 256
    elif k == "ecn" and y["l3"] == "ip":
      y["tos"] ^= r.choice([1, 2, 3])
    elif k == "proto" and y["l3"] == "ip" and y["proto"] in (6, 17):
      y["proto"] = 23 - y["proto"]
    elif k in ("sip", "dip") and y["l3"] in ("ip", "arp"):
      y[k] = flip(y[k], r.randrange(1, 33))
    elif k in ("a", "b") and y["l4"] != "none":
      y[k] = (y[k] + 1) % (65536 if y["l4"] == "tp" else 256)
      while y["l4"] == "tp" and y[k] in DEEP_UDP:
        y[k] += 1
    elif k == "frag" and y["l3"] == "ip":
      y["frag"] = r.choice(["no", "first", "later", "last"])
    elif k == "op" and y["l3"] == "arp":
      y["op"] = r.choice([1, 2, y["op"] ^ 256])
    elif k == "opts" and y["l3"] == "ip":
      y["opts"] = 0 if y["opts"] else 2
  return y
