"""X15 environment: run the real pox.boot._do_launch / pox.boot.boot in-process on a synthetic component universe.

The universe (which component can be imported from where, the signature and behaviour of its launch functions) is
the constant `Cat` of specs/boot/MCBoot.tla, exported by TLC as JSON.  From it this module generates REAL Python
modules (source text compiled and executed by the interpreter's own import machinery through a sys.meta_path
finder), so that pox.boot imports them with __import__, inspects them with inspect.getmembers, looks at
f.__code__ and calls them exactly as it does with real components.  Every module body and every launch function
reports to the event list of the current run.

No source hooks: pox.boot is not edited.  What is replaced from outside, per run, are collaborators only:
  pox.core.initialize    records the arguments boot passes and builds the real POXCore with safe ones
                         (no threads, no signal handlers); its banner print is swallowed
  pox.boot._options      a fresh instance of a subclass of POXOptions that has one more, non-boolean field
  pox.boot.os / .time    (boot() only) proxies: os._exit and time.sleep must not act on the worker process
"""
import gc
import io
import logging
import os
import random
import sys
import threading
import types
import zlib
import importlib.abc
import importlib.util

from engine.core import Machinery
from harness import poxenv            # noqa: F401  (sets sys.path / environment for the repository)

REPO = poxenv.REPO
logging.disable(logging.CRITICAL)

import pox.lib.recoco.recoco as _recoco          # noqa: E402
_recoco.Scheduler.runThreaded = lambda self, daemon=False: None
import pox.core as pcore                         # noqa: E402
import pox.boot as pboot                         # noqa: E402
import pox.lib.util as putil                     # noqa: E402

VERIF = os.path.dirname(os.path.dirname(os.path.abspath(__file__)))
WORKDIR = os.path.join(VERIF, ".work", "X15")
_REAL_INITIALIZE = pcore.initialize
_REAL_OS = pboot.os
_REAL_TIME = pboot.time

_run = [None]           # the run that is executing (events go there)

OK_LOGCFG = """[loggers]
keys=root
[handlers]
keys=h
[formatters]
keys=f
[logger_root]
level=WARNING
handlers=h
[handler_h]
class=NullHandler
level=WARNING
formatter=f
args=()
[formatter_f]
format=%(message)s
"""


INNER = "x15: a TypeError from inside the launch function"


class HardExit(BaseException):
  """boot() reached os._exit"""


def enc(v):
  """a Python value as the spec writes it: [type name, text]"""
  if isinstance(v, str):
    return ["str", v]
  return [type(v).__name__, repr(v)]


def _event(kind, payload):
  r = _run[0]
  if r is not None:
    r.events.append([kind, payload])


def _x15_import(name):
  _event("Imp", name)


def _x15_call(mod, fn, args, extra, inst):
  r = _run[0]
  _event("Call", {"mod": mod, "fn": fn, "args": [[k] + enc(v) for k, v in args],
                  "extra": sorted([k] + enc(v) for k, v in extra.items()),
                  "inst": [str(x) for x in inst] if isinstance(inst, tuple) else ([] if inst is None else ["?", repr(inst)]),
                  "env": r.snapshot() if r is not None else None})


class _X15Callable(object):
  """a callable that is not a function"""
  def __call__(self, *a, **kw):
    _x15_call("?", "obj", [], {}, None)


def _fn_source(name, sig):
  if not sig["isfn"]:
    return "%s = _X15Callable()\n" % name
  pos = list(sig["pos"])
  params = []
  for j, p in enumerate(pos):
    params.append(p if j < sig["nreq"] else p + "=None")
  if sig["kw"]:
    params.append("**kw")
  vis = [p for p in pos if p != "__INSTANCE__"]
  src = ""
  if sig["eval"]:
    src += "@_x15_eval_args\n"
  src += "def %s(%s):\n" % (name, ", ".join(params))
  src += "  _x15_call(__name__, %r, [%s], %s, %s)\n" % (
      name, ", ".join("(%r, %s)" % (p, p) for p in vis), "kw" if sig["kw"] else "{}",
      "__INSTANCE__" if sig["multi"] else "None")
  if sig["beh"] == "false":
    src += "  return False\n"
  elif sig["beh"] == "raise":
    src += "  raise ValueError('x15: launch fails')\n"
  elif sig["beh"] == "typeerr":
    src += "  raise TypeError(%r)\n" % INNER            # a TypeError raised inside the function
  return src


def _as_dict(x):
  return x if isinstance(x, dict) else {}


class Universe(importlib.abc.MetaPathFinder, importlib.abc.Loader):
  """The synthetic modules of one catalog, served to the import system."""
  def __init__(self, cat):
    self.cat = cat
    self.sources = {}       # full module name -> (source, is_package)
    self.code = {}
    self.preload = []
    for sym in sorted(cat):
      c = cat[sym]
      loc, path = c["loc"], c["path"]
      if loc == "real":
        continue
      body = "_x15_import(__name__)\n"
      if loc == "dep":
        body += "import x15_there_is_no_such_dependency\n"
      if loc == "err":
        body += "raise ValueError('x15: module fails while loading')\n"
      fns = _as_dict(c["fns"])
      for fname in sorted(fns):
        body += _fn_source(fname, fns[fname])
      names = []
      if loc in ("pox", "both", "npox", "dep", "err"):
        names.append("pox." + path)
      if loc in ("top", "both", "ntop"):
        names.append(path)
      for nm in names:
        self.sources[nm] = (body, False)
        parts = nm.split(".")
        for k in range(1, len(parts)):
          pk = ".".join(parts[:k])
          if pk != "pox":
            self.sources.setdefault(pk, ("", True))
      for w in c["pre"]:
        self.preload.append(("pox." if w == "pox" else "") + path)

  # -- finder / loader
  def find_spec(self, fullname, path=None, target=None):
    if fullname in self.sources:
      return importlib.util.spec_from_loader(fullname, self, is_package=self.sources[fullname][1])
    return None

  def create_module(self, spec):
    return None

  def exec_module(self, module):
    src, pkg = self.sources[module.__name__]
    d = module.__dict__
    d["_x15_import"] = _x15_import
    d["_x15_call"] = _x15_call
    d["_x15_eval_args"] = putil.eval_args
    d["_X15Callable"] = _X15Callable
    code = self.code.get(module.__name__)
    if code is None:
      code = self.code[module.__name__] = compile(src, "<x15:%s>" % module.__name__, "exec")
    exec(code, d)

  def install(self):
    if self not in sys.meta_path:
      sys.meta_path.insert(0, self)

  def uninstall(self):
    if self in sys.meta_path:
      sys.meta_path.remove(self)
    self.purge()

  def purge(self):
    import pox
    for nm in list(self.sources):
      sys.modules.pop(nm, None)
      if nm.startswith("pox.") and nm.count(".") == 1:
        pox.__dict__.pop(nm[4:], None)
    sys.modules.pop("pox.py", None)           # binds `core` at import time
    pox.__dict__.pop("py", None)
    importlib.invalidate_caches()

  def fresh_modules(self):
    """sys.modules as the catalog says it is before boot starts: only the `pre` modules are loaded"""
    self.purge()
    keep = _run[0]
    _run[0] = None
    try:
      for nm in self.preload:
        __import__(nm, level=0)
    finally:
      _run[0] = keep


def render(argv, cat, seed, paths):
  """tokens of the spec -> the strings of a command line.  The spelling of an option ("-"/"--", "_" or "-" inside
  the key) is not something the spec distinguishes: it is drawn here, seeded."""
  import json
  rnd = random.Random((seed * 1000003) ^ zlib.crc32(json.dumps(argv, sort_keys=True).encode()))
  out = []
  lead = True
  for tok in argv:
    if tok["t"] == "c":
      lead = False
      s = cat[tok["n"]]["path"] if tok["n"] in cat else tok["n"]
      if tok["f"]:
        s += ":" + tok["f"]
      if tok["hv"]:
        s += "=" + tok["v"]
    else:
      key = tok["n"]
      if rnd.random() < 0.6:
        # only the dashes after the first character: a leading "_" would be stripped as part of the prefix
        key = key[0] + key[1:].replace("_", "-") if not key.startswith("_") else key
      s = rnd.choice(["--", "--", "--", "-", "---"]) + key
      if tok["hv"]:
        v = tok["v"]
        if lead and tok["n"] == "log_config" and v in paths:          # a POX option: the text stands for a file
          v = paths[v]
        s += "=" + v
    out.append(s)
  return out


MSGS = [("Illegal option:", "illegal-option"), ("Unknown option:", "unknown-option"),
        ("POX is a Software Defined Networking", "help"),
        ("Could not find logging config file:", "no-logcfg"),
        ("Module not found:", "not-found"), ("Could not import module:", "import-failed"),
        ("Import by filename is not supported", "import-failed"),
        ("does not accept multiple instances", "multiple"), ("isn't a function!", "not-function"),
        ("but it was specified or passed", "no-function"),
        ("does not have a parameter named", "no-param"), ("You must specify a value for the", "missing-param"),
        ("Error executing", "bad-call")]


class _OsProxy(object):
  def __getattr__(self, name):
    return getattr(_REAL_OS, name)

  def _exit(self, code):
    raise HardExit(code)


class _TimeProxy(object):
  def __getattr__(self, name):
    return getattr(_REAL_TIME, name)

  def sleep(self, d):
    pass


class _NoWait(object):
  """stands in for core.quit_condition while boot()'s idle loop runs"""
  def acquire(self, *a):
    return True

  def release(self):
    pass

  def wait(self, *a):
    pass

  def notify_all(self):
    pass
  notifyAll = notify_all


class Run(object):
  """One execution of the real boot code on one command line."""
  def __init__(self, uni, argv, via="launch", existing=False, paths=None):
    self.uni = uni
    self.argv = list(argv)
    self.via = via
    self.existing = existing
    self.paths = paths or {}
    self.events = []
    self.core_args = ["none"]
    self.result = None
    self.msg = None
    self.out = ""
    self.err = ""
    self.cores = []

  # ---- what a launch function / the end of the run sees
  def opt_snapshot(self):
    o = pboot._options
    rev = {v: k for k, v in self.paths.items()}
    out = []
    for f in ("verbose", "enable_openflow", "log_config", "threaded_selecthub", "epoll_selecthub",
              "handle_signals", "x15_tag"):
      v = getattr(o, f, "<missing>")
      if f == "log_config" and isinstance(v, str):
        if v in rev:
          v = rev[v]
        elif os.path.basename(v) == "logging.cfg" and os.path.dirname(v).endswith(os.path.join("pox", "..")):
          out.append(["path", "default"])
          continue
      out.append(enc(v))
    return out

  def has_of(self):
    c = pcore.core
    # not hasComponent(): asking for "openflow" that way marks OpenFlow as wanted, and boot() would then open
    # a listening socket in _post_startup
    return bool(c is not None and "openflow" in c.components)

  def has_py(self):
    c = pcore.core
    return bool(c is not None and "Interactive" in c.components)

  def snapshot(self):
    return {"opts": self.opt_snapshot(), "of": self.has_of(), "py": self.has_py(),
            "dbg": logging.getLogger().level == logging.DEBUG, "core": list(self.core_args)}

  # ---- collaborators
  def _initialize(self, *a, **kw):
    names = ("threaded_selecthub", "epoll_selecthub", "handle_signals")
    if not a and not kw:
      self.core_args = ["default"]
    else:
      got = dict(zip(names, a))
      got.update(kw)
      self.core_args = [repr(got.get(n, "<default>")) for n in names]
    self.events.append(["Core", list(self.core_args)])
    return self._make_core()

  def _make_core(self):
    old = sys.stdout
    sys.stdout = io.StringIO()
    try:
      c = _REAL_INITIALIZE(threaded_selecthub=False, epoll_selecthub=False, handle_signals=False)
    finally:
      sys.stdout = old
    self.cores.append(c)
    if self.via == "boot":
      c.quit_condition = _NoWait()
      c.addListenerByName("GoingUpEvent", lambda e: self.events.append(["Up", "GoingUp"]))

      def up(e):
        self.events.append(["Up", "Up"])
        c.running = False          # boot()'s idle loop ends at once; its final core.quit() is then a no-op
      c.addListenerByName("UpEvent", up)
    return c

  def execute(self):
    uni = self.uni
    uni.install()
    uni.fresh_modules()
    root = logging.getLogger()
    saved = dict(path=list(sys.path), out=sys.stdout, err=sys.stderr, level=root.level,
                 handlers=list(root.handlers), opts=pboot._options, init=pcore.initialize,
                 dlh=getattr(pcore, "_default_log_handler", None))
    root.setLevel(logging.WARNING)
    pboot._options = XOptions()
    pboot.core = None
    pboot._main_thread_function = None
    pcore.core = None
    _recoco.defaultScheduler = None
    pcore.initialize = self._initialize
    if self.existing:
      self._make_core()
      self.core_args = ["existing"]
    out, err = io.StringIO(), io.StringIO()
    sys.stdout, sys.stderr = out, err
    _run[0] = self
    threads = threading.active_count()
    try:
      if self.via == "boot":
        pboot.os = _OsProxy()
        pboot.time = _TimeProxy()
        try:
          r = pboot.boot(list(self.argv))
          ups = [e for e in self.events if e[0] == "Up"]
          self.result = "up" if ups else "down"
          if r is not None:
            self.result = "returned %r" % (r,)
        except HardExit as e:
          self.result = "hard-exit"
      else:
        try:
          r = pboot._do_launch(list(self.argv))
          self.result = {True: "true", False: "false"}.get(r, "returned %r" % (r,))
        except SystemExit as e:
          self.result = "exit%s" % (e.code,)
        except HardExit:
          self.result = "hard-exit"
        except Exception as e:
          self.result = "raise"
          self.exc = type(e).__name__
    finally:
      _run[0] = None
      sys.stdout, sys.stderr = saved["out"], saved["err"]
      sys.path[:] = saved["path"]
      pboot.os, pboot.time = _REAL_OS, _REAL_TIME
      pcore.initialize = saved["init"]
      self.final = self.snapshot_end()
      pboot._options = saved["opts"]
      for h in list(root.handlers):
        if h not in saved["handlers"]:
          root.removeHandler(h)
      for h in saved["handlers"]:
        if h not in root.handlers:
          root.addHandler(h)
      root.setLevel(saved["level"])
      logging.disable(logging.CRITICAL)
      for lg in list(logging.Logger.manager.loggerDict.values()):      # fileConfig(disable_existing_loggers=True)
        if isinstance(lg, logging.Logger):
          lg.disabled = False
      pcore._default_log_handler = saved["dlh"]
      pcore.core = None
      pboot.core = None
      pboot._main_thread_function = None
      for c in self.cores:
        self._dispose(c)
      self.cores = []
      uni.purge()
    self.out, self.err = out.getvalue(), err.getvalue()
    self.leaked_threads = threading.active_count() - threads
    self.msg = self.classify()
    return self

  def snapshot_end(self):
    return {"opts": self.opt_snapshot(), "of": self.has_of(), "py": self.has_py(),
            "dbg": logging.getLogger().level == logging.DEBUG}

  _disposed = [0]

  @classmethod
  def _dispose(cls, c):
    """the pinger pipes of a core close themselves when the object is collected (PipePinger.__del__): closing
    the descriptors here as well could close a number that has been handed out again"""
    cls._disposed[0] += 1
    if cls._disposed[0] % 64 == 0:
      gc.collect()

  def classify(self):
    for needle, kind in MSGS:
      if needle in self.out:
        return kind
    if self.result == "raise" or "Traceback (most recent call last)" in self.err:
      return "exception"
    import platform
    if platform.python_implementation() in self.out:
      return "version"
    return "-"

  def summary(self):
    return [self.events, self.result, self.msg, self.final]


class XOptions(pboot.POXOptions):
  """POXOptions plus one field that is neither boolean nor served by a setter (the generic Options.set path)"""
  def __init__(self):
    pboot.POXOptions.__init__(self)
    self.x15_tag = "t0"


def setup_paths():
  os.makedirs(WORKDIR, exist_ok=True)
  ok = os.path.join(WORKDIR, "x15-logging-ok.cfg")
  if not os.path.exists(ok):
    tmp = ok + ".%d" % os.getpid()
    with open(tmp, "w") as f:
      f.write(OK_LOGCFG)
    os.replace(tmp, ok)
  nofile = os.path.join(WORKDIR, "x15-no-such-logging.cfg")
  if os.path.exists(nofile):
    raise Machinery("%s exists" % nofile)
  default = os.path.join(os.path.dirname(os.path.realpath(pboot.__file__)), "..", "logging.cfg")
  if os.path.exists(default):
    raise Machinery("the spec assumes that the default logging.cfg does not exist: %s" % default)
  return {"okcfg": ok, "nofile": nofile}
