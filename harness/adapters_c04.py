"""C04 adapter: FlowTable.tla actions -> real SoftwareSwitch over OpenFlow bytes.

Every FLOW_MOD / stats request is assembled by harness.rawbytes (struct only)
and pushed through OFConnection.read -> ofp_flow_mod.unpack -> _rx_flow_mod;
frames are raw Ethernet/IPv4/UDP bytes parsed by pox.lib.packet and injected
with rx_packet; time is the virtual clock; the sweep is the call the switch's
expiry timer makes (FlowTable.remove_expired_entries).  After EVERY step the
whole table is projected onto the spec's entry records (from the table object,
cross-checked against a flow-stats reply decoded from the wire) together with
the messages the switch wrote and the ports the frame left through.
"""
import struct
import traceback

from engine import core
from harness import rawbytes as rb
from harness import poxenv
from harness.swharness import Harness

MAC = {1: "00:00:00:00:00:0a", 2: "00:00:00:00:00:0b"}
SRC_MAC = "00:00:00:00:00:99"
SRC = 335609865                # 20.1.0.9 : nw_src of the reference frame (< 2^31: TLC integers)
SRC_IP = "20.1.0.9"
H1 = 167837697                 # 10.1.0.1 : nw_dst of the reference frame
SPORT, DPORT = 1000, 2000      # UDP ports of the reference frame
SKEW = 1.0 / 1024              # clock skew per tick (exact in binary floating point)
TOP = 65537

PRIO_MAPS = {"plain": {1: 1, 5: 5, 7: 7},
             "edge": {1: 0, 5: 0x8000, 7: 0xffff},
             "low": {1: 0, 5: 1, 7: 2}}
COOKIE_MAPS = {"plain": {1: 1, 2: 2, 3: 3},
               "edge": {1: 0, 2: 1 << 63, 3: (1 << 64) - 1}}
# concretisation of the action symbols: some lists also push a VLAN tag before an output, so that the frame that
# leaves is longer than the frame that arrived - counters count what was received (OpenFlow 1.0 5.2, "received")
ACTS = {"none": b"", "o3": rb.a_vlan_vid(7) + rb.a_output(3), "o4": rb.a_output(4),
        "o34": rb.a_output(3) + rb.a_vlan_vid(9) + rb.a_output(4)}
CMDS = {"ADD": rb.FC_ADD, "MOD": rb.FC_MODIFY, "MODS": rb.FC_MODIFY_STRICT,
        "DEL": rb.FC_DELETE, "DELS": rb.FC_DELETE_STRICT}
FMF_CODES = {0: "full", 1: "overlap", 2: "eperm", 3: "emerg_timeout",
             4: "bad_command", 5: "unsupported"}
REASONS = {0: "idle", 1: "hard", 2: "delete"}

# wildcard bits every non-exact match of the alphabet leaves set
_W_REST = (rb.FW_DL_VLAN | rb.FW_DL_SRC | rb.FW_NW_PROTO | rb.FW_TP_SRC |
           rb.FW_TP_DST | rb.FW_DL_VLAN_PCP | rb.FW_NW_TOS)


def canon_sort(lst):
  return sorted(lst, key=core.canon)


def sort_exp(beh):
  """Sets exported by TLC arrive in TLC's order: sort them as the adapter does."""
  for st in beh:
    e = st["exp"]
    for k in ("tbl", "msgs", "out", "flows"):
      if k in e:
        e[k] = canon_sort(e[k])
  return beh


# ---- concretisation: spec symbols -> bytes
SP_DST, SP_SRC, SP_WILD = 1, 2, 4       # bits of the spec's `sp` (FlowTable.tla, "Spelling")


def _mix(junk, k):
  """k-th pseudo-random 32-bit word derived from `junk` (never 0)."""
  return ((junk + 0x9e3779b9 * (k + 1)) * 2654435761 >> 7) & 0xffffffff | 1


def match_bytes(m, junk=0, sp=0):
  """Wire form of a spec match in the spelling `sp`: which of the bits that the
  standard tells the switch to ignore are non-zero (taken from `junk`):
  SP_DST / SP_SRC  the nw_dst / nw_src bits beyond the prefix length,
  SP_WILD          the values of wildcarded fields, and wildcard counts above 32
                   for a completely wildcarded address.
  The exact match has no such bit."""
  if m["ex"] == 1:
    return rb.match(wildcards=0, in_port=m["ip"], dl_src=SRC_MAC,
                    dl_dst=MAC[m["dd"]], dl_vlan=0xffff, dl_vlan_pcp=0,
                    dl_type=0x800, nw_tos=0, nw_proto=17, nw_src=m["sv"],
                    nw_dst=m["nv"], tp_src=SPORT, tp_dst=DPORT)
  w = rb.FW_ALL
  kw = {}
  wild = bool(sp & SP_WILD)
  if m["ip"]:
    w &= ~rb.FW_IN_PORT
    kw["in_port"] = m["ip"]
  elif wild:
    kw["in_port"] = 1 + _mix(junk, 0) % 4
  if m["dd"]:
    w &= ~rb.FW_DL_DST
    kw["dl_dst"] = MAC[m["dd"]]
  elif wild:
    kw["dl_dst"] = MAC[1 + _mix(junk, 1) % 2]
  for k, (ln, val, shift, name, bit) in enumerate((
      (m["nl"], m["nv"], rb.FW_NW_DST_SHIFT, "nw_dst", SP_DST),
      (m["sl"], m["sv"], rb.FW_NW_SRC_SHIFT, "nw_src", SP_SRC))):
    if ln:
      w &= ~rb.FW_DL_TYPE
      kw["dl_type"] = 0x800
      w &= ~(63 << shift)
      w |= (32 - ln) << shift
      low = (_mix(junk, 2 + k) & ((1 << (32 - ln)) - 1)) if sp & bit else 0
      kw[name] = ((val << (32 - ln)) | low) & 0xffffffff
    elif wild:
      w &= ~(63 << shift)
      w |= (32 + _mix(junk, 4 + k) % 32) << shift        # 32..63 all mean "ignore the field"
      kw[name] = _mix(junk, 6 + k)
  if wild:
    if not (m["nl"] or m["sl"]):
      kw["dl_type"] = (0x800, 0x806, 0x88cc)[_mix(junk, 8) % 3]
    kw.update(dl_src=MAC[1 + _mix(junk, 9) % 2], dl_vlan=_mix(junk, 10) & 0xfff,
              dl_vlan_pcp=_mix(junk, 11) & 7, nw_tos=_mix(junk, 12) & 0xfc,
              nw_proto=(6, 17, 1, 47)[_mix(junk, 13) % 4], tp_src=_mix(junk, 14) & 0xffff,
              tp_dst=_mix(junk, 15) & 0xffff)
  return rb.match(wildcards=w, **kw)


def frame_bytes(x):
  total = x["len"]
  paylen = total - 14 - 20 - 8
  payload = bytes((i * 7 + 3) & 0xff for i in range(paylen))
  sport = SPORT if x["ref"] == 1 else SPORT + 1
  udp = struct.pack("!HHHH", sport, DPORT, 8 + paylen, 0) + payload
  iph = struct.pack("!BBHHHBBH4s4s", 0x45, 0, 20 + len(udp), 0, 0, 64, 17, 0,
                    rb.ip(x["ns"]), rb.ip(x["na"]))
  iph = iph[:10] + struct.pack("!H", rb.csum(iph)) + iph[12:]
  return rb.eth(MAC[x["dd"]], SRC_MAC, 0x800, iph + udp)


# ---- abstraction: bytes written by POX -> spec symbols
def match_sym(d):
  """parse_match dict -> spec match record (or a record no spec match equals)."""
  w = d["wildcards"]
  if w == 0:
    ref = dict(in_port=1, dl_src=rb.mac(SRC_MAC).hex(), dl_dst=rb.mac(MAC[1]).hex(),
               dl_vlan=0xffff, dl_vlan_pcp=0, dl_type=0x800, nw_tos=0, nw_proto=17,
               nw_src=rb.ip(SRC_IP).hex(), nw_dst=rb.ip(H1).hex(), tp_src=SPORT,
               tp_dst=DPORT)
    if all(d[k] == v for k, v in ref.items()):
      return dict(ip=1, dd=1, sl=32, sv=SRC, nl=32, nv=H1, ex=1)
    return dict(ip=-1, dd=-1, sl=-1, sv=-1, nl=-1, nv=-1, ex=1)
  bits = (w >> rb.FW_NW_DST_SHIFT) & 63
  nl = 0 if bits >= 32 else 32 - bits
  bits = (w >> rb.FW_NW_SRC_SHIFT) & 63
  sl = 0 if bits >= 32 else 32 - bits
  ok = (w & _W_REST) == _W_REST
  if nl or sl:
    ok = ok and not (w & rb.FW_DL_TYPE) and d["dl_type"] == 0x800
  else:
    ok = ok and bool(w & rb.FW_DL_TYPE)
  ip = 0 if w & rb.FW_IN_PORT else d["in_port"]
  dd = 0
  if not (w & rb.FW_DL_DST):
    dd = {rb.mac(v).hex(): k for k, v in MAC.items()}.get(d["dl_dst"], -1)
  # (the bits beyond a prefix length mean nothing, in this direction either)
  nv = (int(d["nw_dst"], 16) >> (32 - nl)) if nl else 0
  sv = (int(d["nw_src"], 16) >> (32 - sl)) if sl else 0
  if not ok:
    return dict(ip=ip, dd=dd, sl=sl, sv=sv, nl=nl, nv=nv, ex=-1, odd="%x" % w)
  return dict(ip=ip, dd=dd, sl=sl, sv=sv, nl=nl, nv=nv, ex=0)


def acts_sym(alist):
  ports = []
  for a in alist:
    if a.get("type") == 1 and a.get("len") == 8:
      continue                    # the tag pushes that belong to the concretisation of o3 / o34
    if a.get("type") != 0 or a.get("len") != 8:
      return "?" + repr(alist)
    ports.append(int(a["body"][:4], 16))
  return {(): "none", (3,): "o3", (4,): "o4", (3, 4): "o34"}.get(tuple(ports), "?%r" % ports)


def junk_kinds(m, sp):
  """Which kinds of ignored bits are non-zero in the spelling `sp` of the match `m`."""
  if m["ex"]:
    return []
  kinds = [n for n, bit, ln in (("nw_dst", SP_DST, m["nl"]), ("nw_src", SP_SRC, m["sl"]))
           if sp & bit and 0 < ln < 32]
  if len(kinds) == 2:
    kinds = ["nw_src+nw_dst"]         # both prefixes of one match
  if sp & SP_WILD:
    kinds.append("wildcarded_fields")
  return kinds


def match_class(m):
  """Which fields a spec match names (for failure signatures)."""
  if m["ex"]:
    return "exact"
  f = (["in_port"] if m["ip"] else []) + (["dl_dst"] if m["dd"] else []) + \
      (["nw_src/%d" % m["sl"]] if m["sl"] else []) + (["nw_dst/%d" % m["nl"]] if m["nl"] else [])
  return "+".join(f) or "any"


class PoxRaised(Exception):
  pass


class Adapter(object):
  def __init__(self, max_entries=2, late=True, cap=5, scale=1, prios="plain",
               cookies="plain", hostbits=False):
    self.hostbits = hostbits      # fill the ignored address bits of every match sent
    self.sent_junk = False
    self.junk_kinds = set()       # which kinds of ignored bits were non-zero so far
    self.nmatch = 0
    self.late = late
    self.cap = cap
    self.scale = scale
    self.prio = PRIO_MAPS[prios]
    self.prio_back = {v: k for k, v in self.prio.items()}
    self.cookie = COOKIE_MAPS[cookies]
    self.cookie_back = {v: k for k, v in self.cookie.items()}
    poxenv.clock.now = 1000.0
    self.h = Harness(dpid=1, ports=4, max_entries=max_entries, max_buffers=0)
    self.h.send(rb.hello())
    self.h.take_bytes()
    self.h.take_emitted()
    self.xid = 0
    # exceptions escaping a message handler are swallowed (logged) by
    # OFConnection.read: record them so that the observation says so
    self.swallowed = []
    conn = self.h.conn
    orig = conn._error_handler

    def eh(reason, info):
      if reason == conn.ERR_EXCEPTION:
        self.swallowed.append(type(info[0]).__name__)
      return orig(reason, info)
    conn._error_handler = eh

  def _match(self, m, sp=0):
    """Bytes of the match `m` in the spelling `sp` (every message gets other junk)."""
    if self.hostbits:
      sp |= SP_DST | SP_SRC
    if m["ex"]:
      return match_bytes(m)
    self.nmatch += 1
    junk = (self.nmatch * 40503 + 0x5a5a5a) & 0xffffffff
    kinds = junk_kinds(m, sp)
    if kinds:
      self.sent_junk = True
      self.junk_kinds.update(kinds)
    return match_bytes(m, junk, sp)

  # ---- projection of the real table
  def _internal(self):
    """[(spec entry record, effective priority)] read from the table object."""
    out = []
    try:
      now = self.h.clock.time()
      for e in self.h.sw.table.entries:
        md = rb.parse_match(e.match.pack())
        acts = rb.parse_actions(b"".join(a.pack() for a in e.actions))
        rec = dict(m=match_sym(md), p=self.prio_back.get(e.priority, -e.priority - 1),
                   a=acts_sym(acts), i=self._units(e.idle_timeout),
                   h=self._units(e.hard_timeout), r=1 if e.flags & rb.FF_SEND_FLOW_REM else 0,
                   c=self.cookie_back.get(e.cookie, -1),
                   g=self._age(now - e.created), t=self._age(now - e.last_touched),
                   n=e.packet_count, b=e.byte_count)
        out.append((rec, TOP if md["wildcards"] == 0 else e.priority))
    except (AttributeError, TypeError) as ex:
      raise core.Machinery("cannot project the flow table: %r" % (ex,))
    return out

  def _units(self, secs):
    return secs // self.scale if secs % self.scale == 0 else -secs

  def _age(self, secs):
    return min(int(round(secs / float(self.scale))), self.cap)

  def _stats_entry(self, f):
    return dict(m=match_sym(f["match"]), p=self.prio_back.get(f["priority"], -f["priority"] - 1),
                a=acts_sym(f["actions"]), i=self._units(f["idle_timeout"]),
                h=self._units(f["hard_timeout"]), c=self.cookie_back.get(f["cookie"], -1),
                g=self._age(f["duration_sec"] + f["duration_nsec"] * 1e-9),
                n=f["packet_count"], b=f["byte_count"])

  def _flow_stats(self, m, outp, sp=0):
    self.xid += 1
    body = rb.flow_stats_request_body(self._match(m, sp) if m is not self.ANYM else match_bytes(m),
                                      0xff, rb.OFPP_NONE if outp == 0 else outp)
    msgs = self._pox(self.h.send, rb.stats_request(rb.ST_FLOW, body, xid=self.xid))
    if len(msgs) != 1 or msgs[0]["type"] != rb.STATS_REPLY or msgs[0]["stype"] != rb.ST_FLOW \
        or msgs[0]["xid"] != self.xid:
      return None, [m_["name"] for m_ in msgs]
    return [self._stats_entry(f) for f in msgs[0]["flows"]], None

  ANYM = dict(ip=0, dd=0, sl=0, sv=0, nl=0, nv=0, ex=0)

  def _observe(self, msgs, obs):
    """Fill obs with table, messages, emitted ports, invariants."""
    obs["msgs"] = canon_sort(self._msg(m) for m in msgs)
    if self.swallowed:
      obs["handler_raised"] = self.swallowed
      self.swallowed = []
    obs["out"] = sorted(p for p, _ in self.h.take_emitted())
    ents = self._internal()
    obs["tbl"] = canon_sort(r for r, _ in ents)
    eff = [p for _, p in ents]
    if any(eff[i] < eff[i + 1] for i in range(len(eff) - 1)):
      obs["unsorted"] = eff
    # the public view of the same table: flow statistics for match-all
    flows, bad = self._flow_stats(self.ANYM, 0)
    if flows is None:
      obs["stats_reply"] = bad
    else:
      pub = canon_sort(flows)
      mine = canon_sort({k: v for k, v in r.items() if k not in ("r", "t")} for r, _ in ents)
      if pub != mine:
        obs["stats_differ"] = pub
    return obs

  def _msg(self, m):
    if m["type"] == rb.FLOW_REMOVED:
      return dict(t="removed", m=match_sym(m["match"]),
                  p=self.prio_back.get(m["priority"], -m["priority"] - 1),
                  why=REASONS.get(m["reason"], "reason%d" % m["reason"]),
                  n=m["packet_count"], b=m["byte_count"], i=self._units(m["idle_timeout"]),
                  c=self.cookie_back.get(m["cookie"], -1))
    if m["type"] == rb.ERROR:
      if m["etype"] == 3:
        return dict(t="error", code=FMF_CODES.get(m["code"], "fmf%d" % m["code"]))
      return dict(t="error", code="type%d/%d" % (m["etype"], m["code"]))
    if m["type"] == rb.PACKET_IN:
      return dict(t="packet_in", port=m["in_port"], total=m["total_len"])
    return dict(t=m["name"])

  # ---- actions
  def _pox(self, fn, *args):
    """Call into the code under test; only exceptions raised in there are
    observations (the engine records them), everything else is machinery."""
    try:
      return fn(*args)
    except Exception as ex:
      raise PoxRaised(ex)

  def step(self, a, args):
    try:
      return self._step(a, args)
    except PoxRaised as ex:
      raise ex.args[0]
    except rb.ParseError as ex:
      return {"unparsable_bytes_from_switch": str(ex)}
    except core.Machinery:
      raise
    except Exception:
      raise core.Machinery("adapter failure:\n" + traceback.format_exc())

  def _step(self, a, args):
    obs = {}
    if a == "FlowMod":
      f = args
      flags = (rb.FF_SEND_FLOW_REM if f["rem"] else 0) | (rb.FF_CHECK_OVERLAP if f["chk"] else 0) \
          | (rb.FF_EMERG if f["em"] else 0)
      self.xid += 1
      data = rb.flow_mod(self._match(f["m"], f["sp"]), cookie=self.cookie[f["cookie"]],
                         command=CMDS[f["cmd"]], idle=f["idle"] * self.scale,
                         hard=f["hard"] * self.scale, priority=self.prio[f["prio"]],
                         # out_port is a filter of the DELETE commands only; ADD and the MODIFY commands ignore it
                         # (OpenFlow 1.0 5.3.3), so for those it carries whatever the sender left there
                         out_port=(f["outp"] if f["outp"] != 0 else
                                   rb.OFPP_NONE if f["cmd"] in ("DEL", "DELS") else
                                   (rb.OFPP_NONE, 3, 77, 4)[self.xid % 4]),
                         flags=flags, actions=ACTS[f["acts"]], xid=self.xid)
      msgs = self._pox(self.h.send, data)
    elif a == "Packet":
      fr = frame_bytes(args)
      self._pox(self.h.rx, fr, args["ip"])
      msgs = self.h.take_msgs()
    elif a == "Tick":
      self.h.clock.advance(args["d"] * self.scale + (SKEW if self.late else -SKEW))
      msgs = self.h.take_msgs()
    elif a == "Sweep":
      self._pox(self.h.sweep)
      msgs = self.h.take_msgs()
    elif a == "Stats":
      msgs = []
      flows, bad = self._flow_stats(args["m"], args["outp"], args["sp"])
      if flows is None:
        obs["flows"] = bad
      else:
        full = {core.canon([r["m"], r["p"]]): r for r, _ in self._internal()}
        obs["flows"] = canon_sort(
            dict(f, r=full.get(core.canon([f["m"], f["p"]]), {}).get("r", -1),
                 t=full.get(core.canon([f["m"], f["p"]]), {}).get("t", -1)) for f in flows)
      self.xid += 1
      body = rb.flow_stats_request_body(self._match(args["m"], args["sp"]), 0xff,
                                        rb.OFPP_NONE if args["outp"] == 0 else args["outp"])
      rep = self._pox(self.h.send, rb.stats_request(rb.ST_AGGREGATE, body, xid=self.xid))
      if len(rep) == 1 and rep[0]["type"] == rb.STATS_REPLY and rep[0]["stype"] == rb.ST_AGGREGATE \
          and rep[0]["xid"] == self.xid:
        obs["agg"] = dict(n=rep[0]["packet_count"], b=rep[0]["byte_count"], f=rep[0]["flow_count"])
      else:
        obs["agg"] = [m_["name"] for m_ in rep]
    else:
      raise core.Machinery("unknown action %r" % (a,))
    return self._observe(msgs, obs)

  def normalize(self, obs, exp):
    """Apply the two latitudes of the spec to the observation:
    a refused emergency flow may carry any FLOW_MOD_FAILED code; an entry whose
    idle and hard timeouts have both run out may be reported with either reason."""
    if isinstance(exp, dict) and "exp" in exp and "a" in exp:
      exp = exp["exp"]              # the engine hands over the whole step
    if not isinstance(obs, dict) or "msgs" not in obs or "EXC" in obs:
      return obs
    want = {}
    for m in exp.get("msgs", []):
      if m.get("t") == "removed" and m.get("why") == "either":
        want[core.canon([m["m"], m["p"]])] = True
    emerg = any(m.get("t") == "error" and m.get("code") == "emerg" for m in exp.get("msgs", []))
    out = []
    for m in obs["msgs"]:
      m = dict(m)
      if m.get("t") == "removed" and m.get("why") in ("idle", "hard") \
          and core.canon([m["m"], m["p"]]) in want:
        m["why"] = "either"
      if emerg and m.get("t") == "error" and m.get("code") in FMF_CODES.values():
        m["code"] = "emerg"
      out.append(m)
    obs = dict(obs)
    obs["msgs"] = canon_sort(out)
    return obs

  def signature(self, st, obs):
    sig = {"action": st["a"], "how": st.get("how", "?")}
    if self.sent_junk:
      sig["dontcare_bits"] = True       # some match sent so far had non-zero ignored bits
      sig["dontcare"] = sorted(self.junk_kinds)
    exp = st["exp"]
    if st["a"] == "FlowMod":
      sig["cmd"] = st["args"]["cmd"]
    if st["a"] in ("FlowMod", "Stats"):
      sp = st["args"]["sp"] | (SP_DST | SP_SRC if self.hostbits else 0)
      sig["match"] = match_class(st["args"]["m"])
      sig["spelling"] = junk_kinds(st["args"]["m"], sp) or ["canonical"]
    if not isinstance(obs, dict) or "EXC" in obs:
      sig["observed"] = "exception:" + (obs.get("EXC", "?") if isinstance(obs, dict) else "?")
      return sig
    sig["fields"] = sorted(set(k for k in exp if obs.get(k) != exp[k]) |
                           set(k for k in obs if k not in exp))
    codes = sorted(m.get("code", "") for m in obs.get("msgs", []) if m.get("t") == "error")
    sig["errors"] = codes
    sig["entries"] = [len(exp.get("tbl", [])), len(obs.get("tbl", []))]
    return sig
