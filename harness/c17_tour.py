"""Transition tours over a state graph exported by TLC (C17 specs).

The graph export (ACTION_CONSTRAINT ExportG, VIEW = the spec's state without
the observation variables) prints one line per transition of the state graph:
  [s |-> key of the source state, t |-> key of the target state, st |-> the logged step]
The expectation of a step depends only on (source state, action, arguments) -
both specs are deterministic - so any path of this graph that starts in the
initial state is a behaviour of the spec with exactly these expectations.
Instead of replaying "shortest history + one transition" for each of the tens
of thousands of transitions (re-running the shared prefixes again and again)
the transitions are covered by walks that start in the initial state and keep
taking transitions not taken before (transition-tour test generation); every
exported transition is taken at least once in exactly the state TLC took it.
"""
from collections import deque

from engine import core


def build(edges):
  """edges: list of {s, t, st}.  -> (init, graph) with graph[s] = [[step, target, covered]]."""
  graph = {}
  targets = set()
  ids = {}
  for e in edges:
    s, t = core.canon(e["s"]), core.canon(e["t"])
    s = ids.setdefault(s, s)          # one string object per state
    t = ids.setdefault(t, t)
    graph.setdefault(s, []).append([e["st"], t, False])
    graph.setdefault(t, [])
    if s != t:
      targets.add(t)
  roots = [s for s in graph if s not in targets]
  if len(roots) != 1:
    raise core.Machinery("graph export: expected one initial state, found %d" % len(roots))
  return roots[0], graph


def shortest(init, graph):
  """BFS tree: state -> list of steps of a shortest history reaching it."""
  paths = {init: []}
  q = deque([init])
  while q:
    s = q.popleft()
    for st, t, _ in graph[s]:
      if t not in paths:
        paths[t] = paths[s] + [st]
        q.append(t)
  return paths


def tours(edges, maxlen=40, reach=3):
  """Cover every exported transition at least once by walks from the initial state."""
  init, graph = build(edges)
  paths = shortest(init, graph)
  for s in graph:
    if s not in paths:
      raise core.Machinery("graph export: a state is not reachable from the initial state")
  for s, es in graph.items():
    es.sort(key=lambda e: 0 if e[1] == s else 1)        # self-loops first
  todo = {s: len(es) for s, es in graph.items()}
  order = sorted((s for s in graph if todo[s]), key=lambda s: (len(paths[s]), s))
  total = sum(todo.values())
  covered = 0
  out = []
  oi = 0
  while covered < total:
    while not todo[order[oi]]:
      oi += 1
    cur = order[oi]
    walk = list(paths[cur])
    while len(walk) < maxlen:
      if todo[cur]:
        e = next(x for x in graph[cur] if not x[2])
        e[2] = True
        todo[cur] -= 1
        covered += 1
        walk.append(e[0])
        cur = e[1]
        continue
      hop = _nearest(graph, todo, cur, reach)
      if hop is None:
        break
      for e in hop:
        walk.append(e[0])
        cur = e[1]
    out.append(walk)
  return out, dict(states=len(graph), transitions=total, walks=len(out),
                   steps=sum(len(w) for w in out))


def _nearest(graph, todo, start, reach):
  seen = {start}
  q = deque([(start, [])])
  while q:
    s, chain = q.popleft()
    if len(chain) >= reach:
      continue
    for e in graph[s]:
      t = e[1]
      if t in seen:
        continue
      seen.add(t)
      c2 = chain + [e]
      if todo[t]:
        return c2
      q.append((t, c2))
  return None
