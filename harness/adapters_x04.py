"""X04 adapters: specs/keepalive/Timers.tla and Keepalive.tla actions -> the real recoco Timer, the real
pox.openflow.keepalive, real of_01 connections (driven through the real OpenFlow_01_Task loop) and real
SoftwareSwitches at the other end of the wire."""
from harness import poxenv
from harness.x04_sched import VSched, clock, recoco, Diverged


class TimersAdapter(object):
  """Timers.tla: New / Start / Cancel / Tick / Run on real pox.lib.recoco.Timer objects."""

  def __init__(self, direct="mix", seed=0):
    self.vs = VSched()
    self.timers = {}
    self.fires = []          # (timer id, virtual time, args ok)
    self.count = {}
    self.plan = ("none", 0)
    self.direct = direct
    self.k = seed

  def close(self):
    self.vs.close()

  def _direct(self):
    # which path Scheduler.schedule() takes is not something the spec talks about: vary it
    self.k += 1
    return {"st": False, "direct": True}.get(self.direct, (self.k * 7 + self.k // 3) % 2 == 0)

  def _cb(self, i):
    def cb(*a, **kw):
      ok = a == (i, "pos") and kw == {"k": i}
      self.count[i] = self.count.get(i, 0) + 1
      self.fires.append((i, self.vs.now(), ok))
      rv, e = self.plan
      if e and e in self.timers:
        self.timers[e].cancel()
      if rv == "raise":
        raise RuntimeError("callback failure (scripted)")
      return {"none": None, "false": False, "zero": 0}[rv]
    return cb

  def step(self, a, args):
    vs = self.vs
    if a == "New":
      i, c = args["i"], args["c"]
      when = (vs.base + c["d"]) if c["abs"] else c["d"]
      try:
        with vs.in_thread(self._direct()):
          t = recoco.Timer(when, self._cb(i), absoluteTime=c["abs"], recurring=c["rec"], args=(i, "pos"),
                           kw={"k": i}, started=c["started"], selfStoppable=c["ss"])
      except RuntimeError:
        return {"err": "RuntimeError"}
      self.timers[i] = t
      return {"err": "-"}
    if a == "Start":
      try:
        with vs.in_thread(self._direct()):
          self.timers[args["i"]].start()
      except AssertionError:
        return {"err": "AssertionError"}
      return {"err": "-"}
    if a == "Cancel":
      self.timers[args["i"]].cancel()
      return {"x": 0}
    if a == "Tick":
      clock.advance(1)
      return {"now": vs.now()}
    if a == "Run":
      self.plan = (args["rv"], args["e"])
      n0 = len(self.fires)
      try:
        vs.run_instant(stop=lambda: len(self.fires) > n0)
      except Diverged:
        return {"fired": "DIVERGED"}
      new = self.fires[n0:]
      if not new:
        return {"fired": 0, "at": vs.now(), "n": 0}
      if len(new) > 1:
        return {"fired": "SEVERAL", "fires": [list(f) for f in new]}
      i, at, ok = new[0]
      if not ok:
        return {"fired": i, "at": at, "n": self.count[i], "args": "WRONG"}
      return {"fired": i, "at": at, "n": self.count[i]}
    raise ValueError(a)

  def accept_alt(self, obs, st):
    return any(obs == alt for alt in (st.get("alts") or []))

  def signature(self, st, obs):
    sig = {"action": st["a"]}
    if isinstance(obs, dict) and "EXC" in obs:
      sig["observed"] = "exception:" + obs["EXC"]
      return sig
    exp = st["exp"]
    if st["a"] == "Run":
      sig["expected"] = "fire" if exp["fired"] else "idle"
      f = obs.get("fired") if isinstance(obs, dict) else None
      sig["observed"] = ("idle" if f == 0 else "fire" if isinstance(f, int) else str(f))
      if sig["expected"] == sig["observed"] == "fire":
        sig["fields"] = sorted(k for k in exp if obs.get(k) != exp[k])
      sig["rv"] = st["args"]["rv"]
    else:
      sig["fields"] = sorted(k for k in exp if not isinstance(obs, dict) or obs.get(k) != exp[k])
    return sig


# ----------------------------------------------------------------------------
# Keepalive.tla

from harness import rawbytes as rb                         # noqa: E402
from harness import c09_env                                # noqa: E402  (real of_01 loop, scripted sockets)
from harness.swharness import Harness as SwitchEnd         # noqa: E402  (real SoftwareSwitch + OFConnection)
import pox.openflow.keepalive as ka                        # noqa: E402

poxenv.install_clock(ka)
_ORIG_HANDLE = ka._handle_timer
_ORIG_TIMER = ka.Timer


def chatter_frame(c, k):
  return rb.pad_to(rb.eth("00:00:00:00:00:%02x" % (0x10 + c), "00:00:00:00:%02x:%02x" % (c, k & 0xff), 0x0801), 60)


class KeepaliveAdapter(object):
  """Keepalive.tla on: the real keepalive module + its real recoco Timer on a harness-stepped scheduler,
  real of_01.Connection objects served by the real OpenFlow_01_Task loop (harness/c09_env), and one real
  SoftwareSwitch per connection at the far end of the scripted socket."""

  def __init__(self, I=2, TO=1, direct="mix", seed=0, dup=None):
    self.dup = {int(k): v for k, v in (dup or {}).items()}      # connection -> datapath id (default: its own id)
    self.env = c09_env.Env()
    self.vs = VSched()
    self.I, self.TO = I, TO
    self.direct = direct
    self.k = seed
    self.sw = {}
    self.cons = {}
    self.wire = {}            # c -> controller bytes not yet read by the switch
    self.ups = []
    self.downs = []
    self.calls = []           # (virtual time, exception name or "-") per _handle_timer call
    self.ntimers = 0
    self.nchat = 0
    self.env.nexus.addListenerByName("ConnectionUp", lambda e: self.ups.append(self._cid(e.connection)))
    self.env.nexus.addListenerByName("ConnectionDown", lambda e: self.downs.append(self._cid(e.connection)))
    ka._running = False
    ka._interval = ka._switch_timeout = None
    ad = self

    def handle(nexus):
      try:
        rv = _ORIG_HANDLE(nexus)
      except Exception as e:
        ad.calls.append((ad.vs.now(), type(e).__name__))
        raise
      ad.calls.append((ad.vs.now(), "-"))
      return rv

    def timer(*a, **kw):
      ad.ntimers += 1
      return _ORIG_TIMER(*a, **kw)
    ka._handle_timer = handle
    ka.Timer = timer

  def close(self):
    ka._handle_timer = _ORIG_HANDLE
    ka.Timer = _ORIG_TIMER
    try:
      self.env.shutdown()
    except Exception:
      pass
    self.vs.close()

  # ---- helpers
  def _cid(self, con):
    for c, x in self.cons.items():
      if x is con:
        return c
    return -1

  def _dpid(self, c):
    return self.dup.get(c, c)

  def _reg(self):
    """the registry, as the connections (ours) it holds"""
    return sorted(self._cid(con) for con in self.env.nexus.connections.values())

  def _idle(self, c):
    v = self.cons[c].idle_time - self.vs.base
    return int(v) if float(v).is_integer() else v

  def _collect(self):
    """what the controller wrote since the last look, per connection: message names; bytes go on the wire"""
    out = {}
    for c in sorted(self.env.socks):
      d = self.env.written(c)
      if d:
        self.wire[c] = self.wire.get(c, b"") + d
        out[c] = [m["name"] for m in rb.parse_stream(d)]
    return out

  def _to_controller(self, c, data):
    if data:
      self.env.deliver(c, data)

  def step(self, a, args):
    env, vs = self.env, self.vs
    if a == "Launch":
      n0 = self.ntimers
      self.k += 1
      with vs.in_thread({"st": False, "direct": True}.get(self.direct, self.k % 2 == 0)):
        ka.launch(interval=self.I, timeout=self.TO)
      return {"timers": self.ntimers - n0}
    if a == "Accept":
      c = args["c"]
      env.accept(c)
      self.cons[c] = env.con_of(c)
      self.sw[c] = SwitchEnd(dpid=self._dpid(c), ports=2)
      w = self._collect()
      r = {"wrote": w.pop(c, [])}
      if w:
        r["others"] = w
      return r
    if a == "Handshake":
      c = args["c"]
      n0 = len(self.ups)
      h = self.sw[c]
      for _ in range(50):
        self._collect()
        d = self.wire.pop(c, b"")
        if d:
          h.worker._push_receive_data(d)
        b = h.take_bytes()
        if b:
          self._to_controller(c, b)
        if not d and not b:
          break
      else:
        return {"up": "DIVERGED"}
      return {"up": self.ups[n0:].count(c), "idle": self._idle(c), "reg": self._reg()}
    if a == "Tick":
      clock.advance(1)
      return {"now": vs.now()}
    if a == "Run":
      n0, d0 = len(self.calls), len(self.downs)
      shut0 = {c for c, s in env.socks.items() if s.shut}
      try:
        vs.run_instant()
      except Diverged:
        return {"fired": "DIVERGED"}
      calls = self.calls[n0:]
      w = self._collect()
      echo, other = [], {}
      for c, names in w.items():
        echo += [c] * names.count("ECHO_REQUEST")
        rest = [n for n in names if n != "ECHO_REQUEST"]
        if rest:
          other[c] = rest
      r = {"fired": len(calls), "echo": sorted(echo), "down": sorted(self.downs[d0:]),
           "shut": sorted({c for c, s in env.socks.items() if s.shut} - shut0),
           "raised": ",".join(x for _, x in calls if x != "-") or "-", "reg": self._reg()}
      if other:
        r["wrote"] = other
      if any(t != vs.now() for t, _ in calls):
        r["at"] = [t for t, _ in calls]
      return r
    if a == "Answer":
      c = args["c"]
      h = self.sw[c]
      d = self.wire.pop(c, b"")
      if d:
        h.worker._push_receive_data(d)
      b = h.take_bytes()
      names = [m["name"] for m in rb.parse_stream(b)]
      self._to_controller(c, b)
      r = {"replies": names.count("ECHO_REPLY"), "idle": self._idle(c)}
      rest = [n for n in names if n != "ECHO_REPLY"]
      w = self._collect()
      if rest or w:
        r["unexpected"] = [rest, w]
      return r
    if a == "Chatter":
      c = args["c"]
      h = self.sw[c]
      self.nchat += 1
      h.rx(chatter_frame(c, self.nchat), 1 + self.nchat % 2)
      b = h.take_bytes()
      names = [m["name"] for m in rb.parse_stream(b)]
      self._to_controller(c, b)
      r = {"pktin": names.count("PACKET_IN"), "idle": self._idle(c)}
      rest = [n for n in names if n != "PACKET_IN"]
      w = self._collect()
      if rest or w:
        r["unexpected"] = [rest, w]
      return r
    if a == "SockBreak":
      env.socks[args["c"]].fail_send = True
      return {"x": 0}
    if a == "PeerClose":
      c = args["c"]
      d0 = len(self.downs)
      if not env.peer_close(c, "eof"):
        return {"down": "NOT-IN-LOOP"}
      r = {"down": self.downs[d0:].count(c), "reg": self._reg()}
      if env.con_of(c) is not None or len(self.downs) - d0 != r["down"]:
        r["unexpected"] = [env.con_of(c) is not None, self.downs[d0:]]
      return r
    if a == "Reap":
      c = args["c"]
      d0 = len(self.downs)
      con = env.con_of(c)
      if con is None:
        return {"down": "NOT-IN-LOOP"}
      env._round([con])             # select() reports the shut-down socket readable: recv() returns b""
      r = {"down": self.downs[d0:].count(c), "reg": self._reg()}
      if env.con_of(c) is not None or len(self.downs) - d0 != r["down"]:
        r["unexpected"] = [env.con_of(c) is not None, self.downs[d0:]]
      return r
    raise ValueError(a)

  def signature(self, st, obs):
    sig = {"action": st["a"]}
    if isinstance(obs, dict) and "EXC" in obs:
      sig["observed"] = "exception:" + obs["EXC"]
      return sig
    exp = st["exp"]
    sig["fields"] = sorted(set(k for k in exp if not isinstance(obs, dict) or obs.get(k) != exp[k]) |
                           set(k for k in (obs if isinstance(obs, dict) else {}) if k not in exp))
    if st["a"] == "Run":
      sig["expected_raised"] = exp["raised"]
      sig["observed_raised"] = obs.get("raised") if isinstance(obs, dict) else None
    return sig
