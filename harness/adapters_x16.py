"""X16 adapter: NxRole.tla actions -> a real NXSoftwareSwitch with several OFConnection objects, over OpenFlow bytes.

Every connection is a real pox.datapaths.switch.OFConnection on a real (unconnected) IOWorker; controller ->
switch messages are bytes built by harness/rawbytes.py pushed through IOWorker._push_receive_data (the path the
select loop uses), what the switch writes is decoded from each worker's send buffer by the independent parser.
Frames leave through DpPacketOut.  Time is the harness clock (poxenv) substituted in switch.py / flow_table.py.

shim = 0  the code exactly as it is in the repository
shim = 1  the harness supplies, in this process only, the decoder `_rx_vendor` calls with ONE argument
          (nx._unpack_nx_vendor(vendor.data)): the one-line repair of the first defect, so that the rest of
          `_rx_vendor` (set_role, building and sending the reply) runs over real bytes
shim = 2  additionally `of.ofp_vendor` (a name `_rx_vendor` uses and libopenflow_01 does not have) is bound to
          `of.ofp_vendor_generic`, the class the name evidently stands for
Nothing in the repository tree is touched; close() takes the names away again.
"""
import struct

from harness import rawbytes as rb
from harness import swharness                      # boots POX, installs the virtual clock in switch / flow_table
from harness import poxenv

from pox.lib.ioworker import IOWorker              # noqa: E402
from pox.datapaths import switch as swmod          # noqa: E402
from pox.datapaths import nx_switch as nxmod       # noqa: E402
import pox.openflow.nicira as nx                   # noqa: E402
import pox.openflow.libopenflow_01 as of           # noqa: E402
from pox.lib.packet.ethernet import ethernet       # noqa: E402

NX_VENDOR = 0x00002320
NXT_ROLE_REQUEST, NXT_ROLE_REPLY = 10, 11
NXT_OTHER = 16                 # NXT_SET_PACKET_IN_FORMAT: a Nicira message NXSoftwareSwitch does not implement
FOREIGN_VENDOR = 0x00001234
ROLE_NUM = {"other": 0, "master": 1, "slave": 2}
ROLE_NAME = {0: "other", 1: "master", 2: "slave"}
ET = {"f1": 0x88b5, "f2": 0x88b6, "none": 0x0801}
HARD = 30                      # hard timeout of every flow (virtual seconds)
XID0 = 0x80000000              # request xids: the range the library never generates itself
BAD_STAT_TYPE = 0x7777
ERRNAME = {(1, 2): "BAD_REQUEST/BAD_STAT", (1, 3): "BAD_REQUEST/BAD_VENDOR", (1, 5): "BAD_REQUEST/EPERM"}
ECHO_BODY = b"x16-echo"

_ORIG_UNPACK = nx._unpack_nx_vendor
_MISSING = object()


def _decoder(raw, offset=None):
  """What `_rx_vendor` needs from nx._unpack_nx_vendor(vendor.data): the decoded NX message for the bytes after
  the vendor id (subtype + body); NotImplementedError for a subtype the switch does not know."""
  if offset is not None:
    return _ORIG_UNPACK(raw, offset)
  (sub,) = struct.unpack_from("!L", raw, 0)
  if sub == nx.NXT_ROLE_REQUEST:
    r = nx.nx_role_request()
    r._unpack_body(raw, 4, len(raw) - 4)
    return r
  raise NotImplementedError()


def set_shim(level):
  nx._unpack_nx_vendor = _decoder if level >= 1 else _ORIG_UNPACK
  if level >= 2:
    if not hasattr(of, "ofp_vendor") or getattr(of, "_x16_alias", False):
      of.ofp_vendor = of.ofp_vendor_generic
      of._x16_alias = True
  elif getattr(of, "_x16_alias", False):
    del of.ofp_vendor
    of._x16_alias = False


def frame(k):
  return rb.pad_to(rb.eth("00:00:00:00:00:99", "00:00:00:00:0a:01", ET[k]), 60)


class Adapter(object):
  def __init__(self, NC=3, shim=0):
    self.NC = NC
    self.shim = shim
    set_shim(shim)
    self.clock = poxenv.clock
    self.ctor = "ports=2"
    try:
      # the documented way; at HEAD it raises (send_port_status before `self.connections` exists)
      self.sw = nxmod.NXSoftwareSwitch(1, ports=2)
    except AttributeError:
      self.ctor = "ports=0 + add_port"
      self.sw = nxmod.NXSoftwareSwitch(1, ports=0)
      for p in (1, 2):
        self.sw.add_port(self.sw.generate_port(p))
    self.emitted = []
    self.sw.addListenerByName("DpPacketOut", lambda e: self.emitted.append(e.port.port_no))
    self.workers = []
    self.conns = []
    self.nreq = 0

  # -- helpers
  def _xid(self):
    self.nreq += 1
    return XID0 + 0x1000 + self.nreq * 17

  def _push(self, c, data):
    self.workers[c - 1]._push_receive_data(data)

  def _classify(self, m, xid):
    t = m["type"]
    x = "req" if (xid is not None and m["xid"] == xid) else "other"
    if t == rb.HELLO:
      return {"m": "HELLO", "x": "-", "v": "-"}
    if t == rb.ERROR:
      return {"m": "ERROR", "x": x, "v": ERRNAME.get((m["etype"], m["code"]), "%d/%d" % (m["etype"], m["code"]))}
    if t == rb.VENDOR:
      d = m["data"]
      if m["vendor"] == NX_VENDOR and len(d) == 8 and struct.unpack_from("!I", d, 0)[0] == NXT_ROLE_REPLY:
        return {"m": "ROLE_REPLY", "x": x, "v": str(struct.unpack_from("!I", d, 4)[0])}
      if m["vendor"] == NX_VENDOR and len(d) == 20 and d[0] == 1 and d[1] == rb.VENDOR and \
         struct.unpack_from("!H", d, 2)[0] == 20 and struct.unpack_from("!II", d, 8) == (NX_VENDOR, NXT_ROLE_REPLY):
        # a complete second OpenFlow message (header, vendor, subtype, role) as the payload of the first
        return {"m": "ROLE_REPLY_NESTED", "x": x, "v": str(struct.unpack_from("!I", d, 16)[0])}
      return {"m": "VENDOR?", "x": x, "v": d[:24].hex()}
    if t == rb.ECHO_REPLY:
      return {"m": "ECHO_REPLY", "x": x, "v": "ok" if m["body"] == ECHO_BODY else "bad-body"}
    if t == rb.FEATURES_REPLY:
      return {"m": "FEATURES_REPLY", "x": x, "v": str(len(m["ports"]))}
    if t == rb.GET_CONFIG_REPLY:
      return {"m": "GET_CONFIG_REPLY", "x": x, "v": str(m["miss_send_len"])}
    if t == rb.STATS_REPLY:
      if m["stype"] == rb.ST_TABLE and len(m["tables"]) == 1:
        return {"m": "STATS_REPLY", "x": x, "v": "active=%d" % m["tables"][0]["active_count"]}
      if m["stype"] == rb.ST_FLOW:
        known = all(f["match"]["dl_type"] in (ET["f1"], ET["f2"]) for f in m["flows"])
        return {"m": "STATS_REPLY", "x": x, "v": ("n=%d" % len(m["flows"])) if known else "foreign-flow"}
      return {"m": "STATS_REPLY", "x": x, "v": "stype=%d" % m["stype"]}
    if t == rb.BARRIER_REPLY:
      return {"m": "BARRIER_REPLY", "x": x, "v": "-"}
    if t == rb.PACKET_IN:
      ok = m["in_port"] == 1 and m["total_len"] == 60 and len(m["data"]) >= 14 and \
          any(m["data"] == frame(k)[:len(m["data"])] for k in ET)
      return {"m": "PACKET_IN", "x": "-", "v": {0: "miss", 1: "action"}.get(m["reason"], "?") if ok else "bad-data"}
    if t == rb.FLOW_REMOVED:
      return {"m": "FLOW_REMOVED", "x": "-", "v": {0: "idle", 1: "hard", 2: "delete"}.get(m["reason"], "?")}
    if t == rb.PORT_STATUS:
      return {"m": "PORT_STATUS", "x": "-", "v": {0: "add", 1: "delete", 2: "modify"}.get(m["reason"], "?")}
    return {"m": m["name"], "x": x, "v": "?"}

  def _obs(self, xid=None):
    out = []
    for i in range(self.NC):
      if i < len(self.workers):
        w = self.workers[i]
        b, w.send_buf = w.send_buf, b""
        try:
          msgs = rb.parse_stream(b)
          out.append([self._classify(m, xid) for m in msgs])
        except rb.ParseError as e:
          out.append([{"m": "UNPARSABLE", "x": "-", "v": str(e)[:40]}])
      else:
        out.append([])
    em, self.emitted = sorted(self.emitted), []
    return {"out": out, "emitted": em, "st": self._proj()}

  def _proj(self):
    sw = self.sw
    roles = []
    for i in range(self.NC):
      if i < len(self.conns):
        r = sw.role_by_conn.get(self.conns[i].ID, "unregistered")
        roles.append(ROLE_NAME.get(r, str(r)))
      else:
        roles.append("-")
    byet = {v: k for k, v in ET.items()}
    flows = sorted(byet.get(e.match.dl_type, "?%s" % e.match.dl_type) for e in sw.table.entries)
    cia = sw.connection_in_action
    stuck = 0 if cia is None else (self.conns.index(cia) + 1 if cia in self.conns else -1)
    return {"roles": roles, "flows": flows, "miss": sw.miss_send_len,
            "p2down": bool(sw.ports[2].config & rb.PC_PORT_DOWN), "port3": 3 in sw.ports, "stuck": stuck}

  def _match(self, f):
    return rb.match(wildcards=rb.FW_ALL & ~rb.FW_DL_TYPE, dl_type=ET[f])

  # -- the actions of NxRole.tla
  def step(self, a, args):
    c, s, n = args["c"], args["s"], args["n"]
    xid = None
    if a == "AddConnection":
      w = IOWorker()
      w.socket = swharness.FakeSock()
      con = swmod.OFConnection(w)
      self.sw.add_connection(con)
      self.workers.append(w)
      self.conns.append(con)
      assert len(self.conns) == c
    elif a == "SetRole":
      self.sw.set_role(self.conns[c - 1], ROLE_NUM[s])
    elif a == "Rx":
      self.sw.rx_packet(ethernet(raw=frame(s)), 1)
    elif a == "Expire":
      self.clock.advance(HARD + 1)
      self.sw.table.remove_expired_entries()
    elif a == "PortEvent":
      if 3 in self.sw.ports:
        self.sw.delete_port(3)
      else:
        self.sw.add_port(self.sw.generate_port(3))
    elif a == "Close":
      self.workers[c - 1].close()
    else:
      xid = self._xid()
      if a == "Hello":
        data = rb.hello(xid=xid)
      elif a == "RoleRequest":
        data = rb.vendor(NX_VENDOR, struct.pack("!II", NXT_ROLE_REQUEST, ROLE_NUM[s]), xid=xid)
      elif a == "FlowAdd":
        data = rb.flow_mod(self._match(s), priority=100, hard=HARD, flags=rb.FF_SEND_FLOW_REM,
                           actions=rb.a_output(2), xid=xid)
      elif a == "FlowDel":
        data = rb.flow_mod(self._match(s), priority=100, command=rb.FC_DELETE, xid=xid)
      elif a == "PacketOut":
        data = rb.packet_out(in_port=1, actions=rb.a_output(2), data=frame("none"), xid=xid)
      elif a == "PortMod":
        data = rb.port_mod(2, self.sw.ports[2].hw_addr.toRaw(), config=rb.PC_PORT_DOWN if n else 0,
                           mask=rb.PC_PORT_DOWN, xid=xid)
      elif a == "SetConfig":
        data = rb.set_config(flags=0, miss_send_len=n, xid=xid)
      elif a == "Barrier":
        data = rb.barrier_request(xid=xid)
      elif a == "Read":
        data = {"echo": lambda: rb.echo_request(ECHO_BODY, xid=xid),
                "features": lambda: rb.features_request(xid=xid),
                "getconfig": lambda: rb.get_config_request(xid=xid),
                "tablestats": lambda: rb.stats_request(rb.ST_TABLE, xid=xid),
                "flowstats": lambda: rb.stats_request(rb.ST_FLOW, rb.flow_stats_request_body(), xid=xid)}[s]()
      elif a == "BadStats":
        data = rb.stats_request(BAD_STAT_TYPE, xid=xid)
      elif a == "Vendor":
        data = rb.vendor(FOREIGN_VENDOR, b"abcdefgh", xid=xid) if s == "foreign" else \
            rb.vendor(NX_VENDOR, struct.pack("!II", NXT_OTHER, 1), xid=xid)
      else:
        raise ValueError(a)
      self._push(c, data)
    return self._obs(xid)

  def close(self):
    set_shim(0)

  def signature(self, st, obs):
    sig = {"action": st["a"], "shim": self.shim}
    exp = st["exp"]
    a = st["args"]
    if a.get("s", "-") != "-":
      sig["arg"] = a["s"]
    if isinstance(obs, dict) and "EXC" in obs:
      sig["observed"] = "exception:" + obs["EXC"]
      return sig
    if not isinstance(obs, dict) or "out" not in obs:
      sig["observed"] = "malformed"
      return sig
    diff = []
    if obs["out"] != exp["out"]:
      diff.append("out")
      sig["expected_msgs"] = sorted(set(m["m"] + ":" + m["v"] for o in exp["out"] for m in o))
      sig["observed_msgs"] = sorted(set(m["m"] + ":" + m["v"] for o in obs["out"] for m in o))
      sig["recipients_differ"] = [len(o) for o in obs["out"]] != [len(o) for o in exp["out"]]
    if obs["emitted"] != exp["emitted"]:
      diff.append("emitted")
    for k in sorted(exp["st"]):
      if obs["st"].get(k) != exp["st"][k]:
        diff.append("st." + k)
    sig["differs"] = diff
    return sig
