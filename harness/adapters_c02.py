"""C02 adapter: Framing.tla reads -> real of_01.Connection.read (side "ctl") or real
OFConnection.read on an IOWorker (side "sw").  Messages are built with harness.rawbytes."""
from harness import poxenv
from harness import rawbytes as rb

core = poxenv.boot()
import pox.openflow                       # noqa: E402
import pox.openflow.of_01 as of_01        # noqa: E402
from pox.lib.ioworker import IOWorker     # noqa: E402
from pox.datapaths import switch as swmod  # noqa: E402

if not core.hasComponent("openflow"):
  pox.openflow.launch()
if of_01.deferredSender is None:
  of_01.DeferredSender.start = lambda self: None
  of_01.deferredSender = of_01.DeferredSender()

LENS = dict(hv8=8, r80=80, h16=16, huge=40000, max=65535, h8=8, e9=9, c12=12, m16=16, f72=72, f88=88, p64=64, big=1518, b2040=2040, b2047=2047,
            b2048=2048, b2049=2049, b2056=2056)
MAC = "00:00:00:00:00:07"


def payload(n, salt):
  return bytes((i * 13 + salt) & 0xff for i in range(n))


def build(side, kind, xid):
  n = LENS[kind]
  side = "sw" if side == "swloop" else side
  if side == "ctl":       # switch -> controller messages
    if kind == "h8":
      m = rb.barrier_reply(xid)
    elif kind == "hv8":
      m = bytes([4]) + rb.hello(xid)[1:]          # a HELLO of OpenFlow 1.3: accepted (version negotiation)
    elif kind == "r80":
      m = rb.features_reply(0x0102030405060708, ports=[rb.phy_port(3, MAC, "p3")], n_buffers=256, xid=xid)
    elif kind == "h16":
      m = rb.msg(rb.HELLO, b"\x00\x01\x00\x08\x00\x00\x00\x12", xid)     # a HELLO may carry a body (OpenFlow 1.0 5.5.1)
    elif kind == "e9":
      m = rb.echo_request(b"\x5a", xid)
    elif kind == "c12":
      m = rb.msg(rb.GET_CONFIG_REPLY, b"\x00\x00\x00\x80", xid)
    elif kind == "m16":
      m = rb.error(1, 2, b"abcd", xid)
    elif kind == "f88":
      m = rb.flow_removed(rb.match(), 5, 100, 0, 1, 2, 3, 4, 5, xid)
    elif kind == "p64":
      m = rb.port_status(2, rb.phy_port(3, MAC, "p3"), xid)
    else:
      m = rb.packet_in(rb.NO_BUFFER, n - 18, 1, 0, payload(n - 18, xid), xid)
  else:                   # controller -> switch messages
    if kind == "h8":
      m = rb.barrier_request(xid)
    elif kind == "h16":
      m = rb.msg(rb.HELLO, b"\x00\x01\x00\x08\x00\x00\x00\x12", xid)
    elif kind == "e9":
      m = rb.echo_request(b"\xa5", xid)
    elif kind == "c12":
      m = rb.set_config(0, 128, xid)
    elif kind == "f72":
      m = rb.flow_mod(rb.match(), xid=xid)
    elif kind == "f88":
      m = rb.flow_mod(rb.match(), actions=rb.a_output(1) + rb.a_output(2), xid=xid)
    else:
      m = rb.packet_out(rb.NO_BUFFER, rb.OFPP_NONE, b"", payload(n - 16, xid), xid)
  assert len(m) == n, (side, kind, len(m), n)
  return m


class FakeSock(object):
  def __init__(self):
    self.pending = b""
    self.max_asked = 0

  def recv(self, n):
    self.max_asked = max(self.max_asked, n)
    if not self.pending:
      # the controller's sockets are non-blocking and read when select says so: with nothing (more) to
      # read, recv does not return b"" (that is end of stream), it fails with EAGAIN
      raise BlockingIOError(11, "Resource temporarily unavailable")
    d, self.pending = self.pending[:n], self.pending[n:]
    return d

  def send(self, d):
    return len(d)

  def shutdown(self, *a):
    pass

  def close(self):
    pass

  def fileno(self):
    return 55

  def getpeername(self):
    return ("10.1.1.1", 1234)


class Adapter(object):
  def __init__(self, side="ctl"):
    self.side = side
    self.got = []
    self.stream = b""
    self.msgs = []
    self.off = 0
    self.fail = set()
    self.swap = set()
    self.gen = 0
    self.stale = []
    if side == "ctl":
      self.sock = FakeSock()
      self.con = of_01.Connection(self.sock)
      self.con.handlers = [self._handler(0)] * 64
    elif side == "swloop":
      # the whole switch-side receive path: RecocoIOLoop.run -> _do_recv (-> _try_connect) -> OFConnection.read
      from harness import c10_loops
      self.lp = c10_loops.SwitchLoop(["A"], connecting=True)
    else:
      self.worker = IOWorker()
      self.worker.socket = FakeSock()
      self.con = swmod.OFConnection(self.worker)
      self.con.set_message_handler(self._handler(0))

  def _handler(self, gen):
    """message handler of generation `gen`.  A handler whose position is in `swap` installs the next generation
    (what the handshake's barrier-reply handler does with con.handlers); a message that reaches a handler of a
    superseded generation was not delivered to the connection's handlers."""
    def rec(con, msg):
      if gen != self.gen:
        self.stale.append([msg.header_type, msg.xid])
        return
      self.got.append((msg.header_type, msg.xid, msg.pack()))
      if msg.xid in self.swap:
        self.gen += 1
        if self.side == "ctl":
          self.con.handlers = [self._handler(self.gen)] * 64
        else:
          self.con.set_message_handler(self._handler(self.gen))
      if msg.xid in self.fail:
        raise RuntimeError("handler failure (scripted)")
    return rec

  def step(self, a, args):
    if a == "Stream":
      self.msgs = [build(self.side, k, i + 1) for i, k in enumerate(args["kinds"])]
      self.stream = b"".join(self.msgs)
      self.fail = set(args.get("fail", []))
      self.swap = set(args.get("swap", [])) if self.side != "swloop" else set()
      if self.side == "swloop":
        from harness import c10_loops
        c10_loops.RAISE_SET.clear()
        c10_loops.RAISE_SET.update(self.fail)
      return {"x": 0}
    k = args["k"]
    chunk = self.stream[self.off:self.off + k]
    self.off += k
    self.got = []
    if self.side == "swloop":
      o = self.lp.feed("A", chunk)
      if not o["alive"] or o["diverged"]:
        return {"loop": o["died"]}
      self.got = o["new"]["A"]
      resid = o["residual"]["A"]
    elif self.side == "ctl":
      self.sock.pending = chunk
      r = self.con.read()
      if r is False:
        return {"closed": True}
      if self.sock.pending:
        return {"short_recv": len(self.sock.pending)}
      resid = len(self.con.buf)
    else:
      self.worker._push_receive_data(chunk)
      resid = len(self.worker.receive_buf)
    if self.stale:
      return {"stale_handler": self.stale[0]}
    new = []
    for t, xid, raw in self.got:
      if not (1 <= xid <= len(self.msgs)):
        return {"corrupted_delivery": [t, xid]}
      orig = self.msgs[xid - 1]
      # messages carrying an ofp_match are re-encoded with normalised wildcard bits (C01's business):
      # for those compare type and length, for all others the exact bytes
      if t in (rb.FLOW_MOD, rb.FLOW_REMOVED):
        if orig[1] != t or len(raw) != len(orig):
          return {"corrupted_delivery": [t, xid]}
      elif t == rb.HELLO:
        # the body of a HELLO is to be ignored by the receiver: the delivered object does not carry it
        if orig[1] != t:
          return {"corrupted_delivery": [t, xid]}
      elif raw != orig:
        return {"corrupted_delivery": [t, xid]}
      new.append(xid)
    return {"new": new, "residual": resid}

  def close(self):
    if self.side == "swloop":
      from harness import c10_loops
      c10_loops.RAISE_SET.clear()
      self.lp.close()

  def signature(self, st, obs):
    sig = {"action": st["a"], "side": self.side}
    if isinstance(obs, dict) and "EXC" in obs:
      sig["observed"] = "exception:" + obs["EXC"]
    elif "new" not in obs:
      sig["observed"] = sorted(obs)[0]
    else:
      sig["fields"] = sorted(k for k in st["exp"] if obs.get(k) != st["exp"][k])
    return sig
