"""X07 network harness: the real pox.misc.ip_loadbalancer over one real SoftwareSwitch.

  client / server frames --> SoftwareSwitch (real) --OFConnection/IOWorker (real)--+
                                                                                    | bytes
  iplb (real, started by its own launch()) <-- events -- of_01.Connection (real) <--+

* One real `SoftwareSwitch` behind a real `OFConnection` on a stub IOWorker, connected byte for byte to a real
  `of_01.Connection` on a scripted socket.  A synchronous pump moves the bytes until nothing is in flight;
  everything that crosses the channel is tapped and decoded by harness/rawbytes.py.
* The load balancer is started by the module's own `launch(ip, servers)`: the ConnectionUp listener it installs
  creates the `iplb` object on the first switch that connects, hands it the connection and subscribes it.  The
  ARP responder that `launch()` also boots (`proto.arp_responder`, another area - X05) is replaced by an inert
  stand-in module, so every PacketIn is seen by iplb alone.
* The recoco scheduler is owned by the harness (poxenv).  `advance(d)` lets d seconds of VIRTUAL time pass; the
  one-shot `core.callDelayed` timers that iplb chains for its probing fire at exactly their virtual instants.
  The switch is the ideal environment: it drops idle flow entries the instant their timeout is over
  (`sweep_flows` after every time step and before every frame).  Nothing sleeps.
* `ip_loadbalancer.random` is a scripted source: which server `random.choice` returns is an input of the step
  (the spec's `pick` argument); the sequence it was asked to choose from is recorded.
* Exceptions raised inside event handlers are swallowed by revent; the public hook
  `revent.handleEventException` is pointed at a recorder so that they become observations.
* Frames are bytes built with struct only; emitted frames are taken from the switch's `DpPacketOut` event and
  decoded with struct only.

Nothing here decides anything: it drives the real code and hands back what happened.
"""
import os
import select as _select
import struct
import sys
import types

from engine.core import Machinery
from harness import poxenv
from harness import rawbytes as rb

core = poxenv.boot()

import pox.openflow as ofmod                                  # noqa: E402
import pox.openflow.of_01 as of_01                            # noqa: E402
import pox.lib.recoco.recoco as recoco                        # noqa: E402
import pox.lib.revent.revent as reventmod                     # noqa: E402
from pox.lib.ioworker import IOWorker                         # noqa: E402
from pox.datapaths import switch as swmod                     # noqa: E402
from pox.openflow import flow_table as ftmod                  # noqa: E402
from pox.lib.packet.ethernet import ethernet                  # noqa: E402

ofmod.launch()
of_01.DeferredSender.start = lambda self: None
if of_01.deferredSender is None:
  of_01.deferredSender = of_01.DeferredSender()


def _inert_arp_responder():
  """`ip_loadbalancer.launch` does `from proto.arp_responder import ARPResponder, launch` (pox.py puts the pox/
  directory on sys.path).  The responder is not the subject here: an inert module stands in for it."""
  if "proto.arp_responder" in sys.modules:
    return
  pkg = types.ModuleType("proto")
  pkg.__path__ = []
  mod = types.ModuleType("proto.arp_responder")

  class ARPResponder(object):
    def _handle_PacketIn(self, event):
      return None

  def launch(**kw):
    mod.launched.append(kw)
  mod.ARPResponder = ARPResponder
  mod.launch = launch
  mod.launched = []
  pkg.arp_responder = mod
  sys.modules["proto"] = pkg
  sys.modules["proto.arp_responder"] = mod


_inert_arp_responder()

import pox.misc.ip_loadbalancer as lbmod                      # noqa: E402

clock = poxenv.install_clock(recoco, of_01, swmod, ftmod, lbmod)

LB_DEFAULTS = dict(FLOW_IDLE_TIMEOUT=lbmod.FLOW_IDLE_TIMEOUT, FLOW_MEMORY_TIMEOUT=lbmod.FLOW_MEMORY_TIMEOUT)


class Horizon(Exception):
  """raised by the select shim when the next timer lies beyond the target"""


class Diverged(Exception):
  """the control loop did not become quiet (code under test)"""


class ChannelLost(Exception):
  """the controller gave up the OpenFlow connection (code under test)"""


class ScriptedRandom(object):
  """stands in for the `random` module inside ip_loadbalancer.py"""
  def __init__(self, fallback=None):
    self.prefer = None
    self.calls = []
    self.fallback = fallback        # a random.Random for free-running drivers

  def choice(self, seq):
    seq = list(seq)
    self.calls.append([str(x) for x in seq])
    if self.prefer is not None:
      for x in seq:
        if str(x) == self.prefer:
          return x
    if self.fallback is not None:
      return self.fallback.choice(sorted(seq, key=str))
    return sorted(seq, key=str)[0]

  def __getattr__(self, name):
    raise Machinery("x07_net: ip_loadbalancer used random.%s, which the harness does not script" % name)


class CtlSock(object):
  _fileno = 7700

  def __init__(self):
    self.inq = []
    self.out = b""
    self.closed = False
    self.shut = False
    CtlSock._fileno += 1
    self._fd = CtlSock._fileno

  def fileno(self):
    return self._fd

  def getpeername(self):
    return ("10.9.0.1", 41007)

  def setblocking(self, v):
    pass

  def send(self, data):
    if self.closed or self.shut:
      import socket
      raise socket.error(32, "Broken pipe")
    self.out += data
    return len(data)

  def recv(self, n, flags=0):
    if self.inq:
      d = self.inq.pop(0)
      if len(d) > n:
        self.inq.insert(0, d[n:])
        d = d[:n]
      return d
    if self.shut or self.closed:
      return b""
    import socket
    raise socket.error(11, "Resource temporarily unavailable")

  def shutdown(self, how):
    self.shut = True

  def close(self):
    self.closed = True


class SwSock(object):
  def getpeername(self):
    return ("127.0.0.1", 6633)


# ---------------------------------------------------------------- frames (struct only)
PAYLOAD = bytes((i * 5 + 1) & 0xff for i in range(18))


def _ip_hdr(src_ip, dst_ip, proto, plen, ident=0x1234, ttl=64, tos=0):
  hdr = struct.pack("!BBHHHBBH4s4s", 0x45, tos, 20 + plen, ident, 0, ttl, proto, 0, rb.ip(src_ip), rb.ip(dst_ip))
  return hdr[:10] + struct.pack("!H", rb.csum(hdr)) + hdr[12:]


def l4_frame(dst_mac, src_mac, src_ip, dst_ip, proto, sport, dport, payload=PAYLOAD):
  """Ethernet/IPv4/{TCP,UDP} frame with correct checksums."""
  if proto == 17:
    ln = 8 + len(payload)
    seg = struct.pack("!HHHH", sport, dport, ln, 0) + payload
    pseudo = rb.ip(src_ip) + rb.ip(dst_ip) + struct.pack("!BBH", 0, 17, ln)
    c = rb.csum(pseudo + seg) or 0xffff
    seg = seg[:6] + struct.pack("!H", c) + seg[8:]
  elif proto == 6:
    seg = struct.pack("!HHIIBBHHH", sport, dport, 1000, 0, 5 << 4, 0x02, 8192, 0, 0) + payload
    pseudo = rb.ip(src_ip) + rb.ip(dst_ip) + struct.pack("!BBH", 0, 6, len(seg))
    c = rb.csum(pseudo + seg)
    seg = seg[:16] + struct.pack("!H", c) + seg[18:]
  else:
    raise ValueError(proto)
  return rb.eth(dst_mac, src_mac, 0x0800, _ip_hdr(src_ip, dst_ip, proto, len(seg)) + seg)


def arp_frame(eth_dst, eth_src, op, sha, spa, tha, tpa):
  body = struct.pack("!HHBBH6s4s6s4s", 1, 0x0800, 6, 4, op, rb.mac(sha), rb.ip(spa), rb.mac(tha), rb.ip(tpa))
  fr = rb.eth(eth_dst, eth_src, 0x0806, body)
  return fr + b"\0" * max(0, 60 - len(fr))


def _mac_s(b):
  return ":".join("%02x" % x for x in b)


def _ip_s(b):
  return ".".join(str(x) for x in b)


def decode_frame(fr):
  """Ethernet frame -> dict (struct only)."""
  d = dict(ed=_mac_s(fr[0:6]), es=_mac_s(fr[6:12]), len=len(fr))
  et = struct.unpack("!H", fr[12:14])[0]
  d["et"] = et
  off = 14
  if et == 0x0806 and len(fr) >= off + 28:
    ht, pt, hl, pl, op = struct.unpack("!HHBBH", fr[off:off + 8])
    d.update(kind="arp", op=op, sha=_mac_s(fr[off + 8:off + 14]), spa=_ip_s(fr[off + 14:off + 18]),
             tha=_mac_s(fr[off + 18:off + 24]), tpa=_ip_s(fr[off + 24:off + 28]),
             std=(ht, pt, hl, pl) == (1, 0x0800, 6, 4))
  elif et == 0x0800 and len(fr) >= off + 20:
    ihl = (fr[off] & 0xf) * 4
    tot = struct.unpack("!H", fr[off + 2:off + 4])[0]
    d.update(kind="ip", sip=_ip_s(fr[off + 12:off + 16]), dip=_ip_s(fr[off + 16:off + 20]), proto=fr[off + 9],
             ttl=fr[off + 8], tos=fr[off + 1], ident=struct.unpack("!H", fr[off + 4:off + 6])[0],
             ipcsum_ok=rb.csum(fr[off:off + ihl]) == 0)
    l4 = fr[off + ihl:off + tot]
    if fr[off + 9] in (6, 17) and len(l4) >= 8:
      d["sport"], d["dport"] = struct.unpack("!HH", l4[:4])
      hl = 8 if fr[off + 9] == 17 else (l4[12] >> 4) * 4
      d["payload"] = l4[hl:]
      pseudo = fr[off + 12:off + 20] + struct.pack("!BBH", 0, fr[off + 9], len(l4))
      d["l4csum_ok"] = rb.csum(pseudo + l4) == 0
    else:
      d["payload"] = l4
  else:
    d["kind"] = "other"
  return d


# ---------------------------------------------------------------- the network

class Net(object):
  MAX_ROUNDS = 200

  def __init__(self, service_ip, servers, nports=4, dpid=1, max_buffers=16, miss_send_len=128, consts=None,
               knobs=None, free_random=None):
    """servers: list of dotted quads (the order of --servers).  consts: module constants of ip_loadbalancer
    (FLOW_IDLE_TIMEOUT, FLOW_MEMORY_TIMEOUT).  The switch exists but is not connected until `connect()`."""
    self.dpid = dpid
    self.service_ip = service_ip
    self.servers = list(servers)
    self.emitted = []
    self.c2s_raw = self.s2c_raw = b""
    self.handler_errors = []
    self.lb = None
    self.con = None
    self.rnd = ScriptedRandom(free_random)
    self._reset_controller(consts or {})
    self.sw = swmod.SoftwareSwitch(dpid, ports=nports, max_buffers=max_buffers, miss_send_len=miss_send_len)
    self.sw.addListenerByName("DpPacketOut", self._on_out)
    self.worker = IOWorker()
    self.worker.socket = SwSock()
    self.ofc = swmod.OFConnection(self.worker)
    self.sw.set_connection(self.ofc)
    self.sock = CtlSock()
    self.t0 = clock.now

  # -------------------------------------------------------------- controller
  def _reset_controller(self, consts):
    sched = core.scheduler
    hub = sched._selectHub
    self.sched, self.hub = sched, hub
    if getattr(hub, "_x07_pid", None) != os.getpid():
      # a forked worker inherits the hub's wake-up pipe and would share it with its siblings: own pipe per process
      from pox.lib.util import makePinger
      hub._x07_old_pinger = hub._pinger       # keep the inherited descriptors open (the parent owns them)
      hub._pinger = makePinger()
      hub._x07_pid = os.getpid()
    hub._select_func = self._vselect
    self._target = clock.now
    sched._ready.clear()
    for t in list(hub._tasks):
      if isinstance(t, recoco.Timer):
        t._cancelled = True
        del hub._tasks[t]
    keep = []
    while not hub._incoming.empty():
      it = hub._incoming.get(True)
      hub._incoming.task_done()
      if not isinstance(it[0], recoco.Timer):
        keep.append(it)
    for it in keep:
      hub._incoming.put(it)
    old = core.components.get("openflow")
    if old is not None:
      try:
        core.removeListener(old._handle_DownEvent)
      except Exception:
        pass
    self.nexus = ofmod.OpenFlowNexus()
    core.components["openflow"] = self.nexus
    core.components["OpenFlowConnectionArbiter"] = ofmod.OpenFlowConnectionArbiter()
    of_01.Connection.ID = 0
    of_01.deferredSender.sending = False
    of_01.deferredSender._dataForConnection.clear()
    core.components.pop("iplb", None)
    lbmod._dpid = None
    for k, v in LB_DEFAULTS.items():
      setattr(lbmod, k, v)
    for k, v in consts.items():
      if k not in LB_DEFAULTS:
        raise Machinery("unknown ip_loadbalancer constant " + k)
      setattr(lbmod, k, v)
    lbmod.random = self.rnd
    reventmod.handleEventException = self._on_handler_exception
    # the module's own start-up: parses the arguments, boots the (inert) ARP responder, listens for ConnectionUp
    lbmod.launch(self.service_ip, ",".join(self.servers))

  def _on_handler_exception(self, source, event, args, kw, exc_info):
    import traceback
    self.handler_errors.append("%s: %s" % (exc_info[0].__name__, "".join(
        traceback.format_exception(*exc_info))[-600:]))

  def connect(self):
    """the switch connects: handshake, ConnectionUp -> launch()'s listener creates and attaches the iplb"""
    self.t0 = clock.now
    self.con = of_01.Connection(self.sock)
    self._settle()
    if self.nexus.getConnection(self.dpid) is not self.con or self.con.connect_time is None:
      raise Machinery("x07_net: handshake did not complete")
    self.lb = core.components.get("iplb")
    return self.take()

  def _on_out(self, e):
    self.emitted.append((e.port.port_no, e.packet.pack()))

  # -------------------------------------------------------------- time
  def _vselect(self, r, w, x, timeout):
    ro, wo, xo = _select.select(list(r), list(w), list(x), 0)
    if not (ro or wo or xo) and not self.hub._incoming.empty():
      # a task registered with the hub but its wake-up byte is gone: wake the hub again
      self.hub._pinger.ping()
      ro, wo, xo = _select.select(list(r), list(w), list(x), 0)
    if ro or wo or xo:
      return ro, wo, xo
    if timeout is None:
      raise Horizon()
    if clock.now + timeout > self._target:
      raise Horizon()
    clock.advance(timeout)
    return [], [], []

  def _settle(self):
    for _ in range(10000):
      busy = False
      while self.sched._ready:
        self.sched.cycle()
        busy = True
      if self._pump():
        busy = True
      if not busy:
        return
    raise Machinery("x07_net: did not settle")

  def _absorb(self):
    """let the hub take in tasks (timers) registered since its last pass, without letting time pass"""
    self._target = clock.now
    for _ in range(1000):
      self._settle()
      try:
        self.hub._select(self.hub._tasks, {})
      except Horizon:
        if not self.sched._ready:
          break
    else:
      raise Machinery("x07_net: hub did not become quiet")
    self._settle()

  def advance(self, d):
    """let d seconds of virtual time pass; timers fire at their exact virtual instants"""
    self._target = clock.now + d
    for _ in range(100000):
      self._settle()
      try:
        self.hub._select(self.hub._tasks, {})
      except Horizon:
        if not self.sched._ready:
          break
    else:
      raise Machinery("x07_net.advance: too many timer steps")
    self._settle()
    clock.now = self._target
    self.sweep_flows()

  def sweep_flows(self):
    self.sw.table.remove_expired_entries()
    self._pump()

  def next_timer(self):
    """virtual instant (relative to now) of the earliest pending recoco Timer, or None"""
    self._absorb()
    nxt = [t._next for t in self.hub._tasks if isinstance(t, recoco.Timer) and not t._cancelled]
    for t in list(self.sched._ready):
      if isinstance(t, recoco.Timer):
        nxt.append(t._next)
    return (min(nxt) - clock.now) if nxt else None

  @property
  def now(self):
    return clock.now - self.t0

  # -------------------------------------------------------------- bytes
  def _pump(self):
    moved = False
    if self.con is None:
      return False
    for _ in range(self.MAX_ROUNDS):
      again = False
      if self.sock.out:
        data, self.sock.out = self.sock.out, b""
        self.c2s_raw += data
        self.worker._push_receive_data(data)
        again = True
      if self.worker.send_buf:
        data, self.worker.send_buf = self.worker.send_buf, b""
        self.s2c_raw += data
        self.sock.inq.append(data)
        while self.sock.inq:
          if self.con.read() is False:
            raise ChannelLost("controller dropped the connection")
        again = True
      if not again:
        return moved
      moved = True
    raise Diverged("control channel still busy after %d rounds" % self.MAX_ROUNDS)

  def take(self):
    """everything that happened since the last take()"""
    c2s = rb.parse_stream(self.c2s_raw)
    s2c = rb.parse_stream(self.s2c_raw)
    self.c2s_raw = self.s2c_raw = b""
    em, self.emitted = self.emitted, []
    errs, self.handler_errors = self.handler_errors, []
    calls, self.rnd.calls = self.rnd.calls, []
    return dict(c2s=c2s, s2c=s2c, emitted=em, errors=errs, rnd_calls=calls)

  def inject(self, port, frame, prefer=None):
    self.rnd.prefer = prefer
    self.sweep_flows()
    self.sw.rx_packet(ethernet(raw=frame), port)
    self._settle()
    self.rnd.prefer = None
    return self.take()

  def flows(self):
    return list(self.sw.table.entries)

  def occupancy(self):
    return sum(1 for b in self.sw._packet_buffer if b is not None)

  def close(self):
    for t in list(self.hub._tasks):
      if isinstance(t, recoco.Timer):
        t._cancelled = True
