"""Writes the TLC configs of specs/boot (run once by hand: /venv/bin/python -m harness.x15_gencfg)."""
import os

D = os.path.join(os.path.dirname(os.path.dirname(os.path.abspath(__file__))), "specs", "boot")
ASB = ["TypeOK", "ParsedIsWritten", "ArgsExact", "LaunchedInOrder", "OptionsFirst", "OnceEachSpelling",
       "NotFoundFails", "Deterministic"]
STRICT = ASB + ["OnceEach", "InstanceNumbers", "TopLevelFound", "InnerErrorsPropagate", "EvalAll"]
PROPS = ["OptionsFrozen", "StopAfterFailure", "FailureIsFinal", "UpOnlyAfterAll"]


def consts(alpha, dev):
  return """CONSTANTS
  Cat <- MCCat
  Alphabets <- %s
  Lit <- MCLit
  Truthy <- MCTruthy
  LogFiles <- MCLogFiles
  Dev <- %s
INIT Init
NEXT Next
VIEW view
""" % (alpha, dev)


def mc(name, alpha, dev="AsBuilt", export=True, det=True):
  """model run with every property of that design; export = also print one behaviour per finished command line.
  det=False leaves out Deterministic (19 ENABLED evaluations per state; under -coverage a third of the run time):
  the quick tier checks it on QuickA only, the thorough tier everywhere."""
  s = consts(alpha, dev)
  for i in (STRICT if dev == "NoDev" else ASB):
    if i == "Deterministic" and not det:
      continue
    s += "INVARIANT %s\n" % i
  for p in PROPS:
    s += "PROPERTY %s\n" % p
  if export:
    s += "INVARIANT Export\n"
  s += "CHECK_DEADLOCK FALSE\n"
  open(os.path.join(D, "MC_%s.cfg" % name), "w").write(s)


def main():
  for nm in ["QuickA", "QuickB", "ThorA", "ThorB", "ThorC", "ThorD"]:
    mc(nm, nm, det=nm != "QuickB")
  for nm in ["QuickS", "ThorS1", "ThorS2"]:
    mc(nm, nm, dev="NoDev", export=False, det=nm != "QuickS")
    mc(nm + "x", nm, dev="NoDev", export=True)       # strict + export: the demonstration in the notes
  for inv, alpha in [("OnceEach", "BiteMulti"), ("InstanceNumbers", "BiteMulti"), ("TopLevelFound", "BiteImport"),
                     ("InnerErrorsPropagate", "BiteFail"), ("EvalAll", "BiteEval")]:
    s = consts(alpha, "AsBuilt") + "INVARIANT %s\nCHECK_DEADLOCK FALSE\n" % inv
    open(os.path.join(D, "BITE_%s.cfg" % inv), "w").write(s)
  s = consts("SimA", "AsBuilt").replace("VIEW view\n", "") + "INVARIANT Export\nCHECK_DEADLOCK FALSE\n"
  open(os.path.join(D, "EX_sim.cfg"), "w").write(s)
  s = consts("SimA", "AsBuilt").replace("INIT Init\nNEXT Next\nVIEW view\n", "INIT TrInit\nNEXT TrNext\n")
  s += "CONSTRAINT Progress\nPOSTCONDITION Accepted\n"
  for i in ASB[:-1]:
    s += "INVARIANT %s\n" % i
  s += "CHECK_DEADLOCK FALSE\n"
  open(os.path.join(D, "Trace.cfg"), "w").write(s)
  open(os.path.join(D, "TraceStrict.cfg"), "w").write(s.replace("Dev <- AsBuilt", "Dev <- NoDev"))


if __name__ == "__main__":
  main()
