"""C14 adapter: PktWire.tla actions -> the real pox.lib.packet classes.

Build   assemble the abstract stack from the library's header classes
Pack    obj.pack()                      -> header bytes + payload check
Feed    take the oracle's bytes (TLC's EncStack) as the frame
Parse   ethernet(raw=frame)             -> the header chain as field dicts
Repack  parsed.pack()                   -> header bytes + payload check

Field names are those of the layout tables in specs/packet/PktWireLayers.tla;
ATTR maps them to the library's attribute names where they differ.  Wide
fields cross as lists of byte values.
"""
import logging

from harness import poxenv          # puts VERIF_REPO on sys.path
from harness import c14_wire as W

logging.disable(logging.CRITICAL)

import importlib                                  # noqa: E402
import pox.lib.packet as pkt                      # noqa: E402


def _mod(name):
  # `from pox.lib.packet import icmp` yields the class (the package re-exports it under the module's name)
  return importlib.import_module("pox.lib.packet." + name)


ICMP, ICMP6, IPV6, LLDP, TCP, IGMP, RIP, DHCP = [_mod(n) for n in
                                                 ("icmp", "icmpv6", "ipv6", "lldp", "tcp", "igmp", "rip", "dhcp")]
from pox.lib.packet.packet_base import packet_base  # noqa: E402
from pox.lib.addresses import EthAddr, IPAddr, IPAddr6  # noqa: E402


def u(b):
  return int.from_bytes(bytes(b), "big")


def bl(x, n):
  return list(int(x).to_bytes(n, "big"))


def mac(b):
  return EthAddr(bytes(b))


def ip4(b):
  return IPAddr(bytes(b))


def ip6(b):
  return IPAddr6(raw=bytes(b))


def addr_bytes(a, n):
  """bytes of an address attribute whatever representation the library holds"""
  if isinstance(a, (bytes, bytearray)):
    return list(a)
  if isinstance(a, int):
    return bl(a, n)
  return list(a.raw)


# --------------------------------------------------------------------------
# build: abstract layer -> library object

def b_eth(L):
  return pkt.ethernet(dst=mac(L["dst"]), src=mac(L["src"]), type=L["type"])


def b_vlan(L):
  return pkt.vlan(pcp=L["pcp"], cfi=L["cfi"], id=L["vid"], eth_type=L["type"])


def b_llc(L):
  c = L["ctl"]
  o = pkt.llc(dsap=L["dsap"], ssap=L["ssap"], control=c[0] | ((c[1] << 8) if len(c) == 2 else 0))
  o.length = 2 + len(c) + (5 if L["snap"] else 0)       # what parse() records; hdr() derives the control width from it
  if L["snap"]:
    o.oui = bytes(L["oui"])
    o.eth_type = L["type"]
  return o


def b_arp(L):
  return pkt.arp(hwtype=L["hwtype"], prototype=L["prototype"], hwlen=L["hwlen"], protolen=L["protolen"],
                 opcode=L["opcode"], hwsrc=mac(L["hwsrc"]), hwdst=mac(L["hwdst"]),
                 protosrc=ip4(L["protosrc"]), protodst=ip4(L["protodst"]))


def b_ipv4(L):
  return pkt.ipv4(v=L["v"], hl=L["hl"], tos=L["tos"], id=L["ident"], flags=L["flags"], frag=L["frag"],
                  ttl=L["ttl"], protocol=L["protocol"], srcip=ip4(L["srcip"]), dstip=ip4(L["dstip"]),
                  raw_options=bytes(L["opts"]))


def b_icmp(L):
  return pkt.icmp(type=L["type"], code=L["code"])


def b_echo(L):
  return ICMP.echo(id=L["ident"], seq=L["seqno"])


def b_unreach(L):
  return ICMP.unreach(unused=L["unused"], next_mtu=L["mtu"])


def b_timex(L):
  return ICMP.time_exceeded(unused=u(L["unused4"]))


def b_udp(L):
  return pkt.udp(srcport=L["srcport"], dstport=L["dstport"])


def tcp_opt(x):
  k, d = x["k"], x["d"]
  if k in (0, 1):
    return TCP.tcp_opt(k, None)
  if k == 2 and len(d) == 2:
    return TCP.tcp_opt(k, u(d))
  if k == 3 and len(d) == 1:
    return TCP.tcp_opt(k, d[0])
  if k == 4 and not d:
    return TCP.tcp_opt(k, None)
  if k == 5 and len(d) % 8 == 0:
    return TCP.tcp_opt(k, [(u(d[i:i + 4]), u(d[i + 4:i + 8])) for i in range(0, len(d), 8)])
  if k == 8 and len(d) == 8:
    return TCP.tcp_opt(k, (u(d[:4]), u(d[4:])))
  return TCP.tcp_opt(k, bytes(d))


def tcp_opt_view(o):
  k = o.type
  if k in (0, 1, 4):
    d = []
  elif k == 2:
    d = bl(o.val, 2)
  elif k == 3:
    d = [o.val]
  elif k == 5:
    d = [y for l, r in o.val for y in bl(l, 4) + bl(r, 4)]
  elif k == 8:
    d = bl(o.val[0], 4) + bl(o.val[1], 4)
  elif k == 30:
    d = list(o.pack()[2:])
  else:
    d = list(o.val)
  return {"k": k, "d": d}


def b_tcp(L):
  return pkt.tcp(srcport=L["srcport"], dstport=L["dstport"], seq=u(L["seq"]), ack=u(L["ack"]), res=L["res"],
                 flags=L["flags"], win=L["win"], urg=L["urg"], options=[tcp_opt(x) for x in L["opts"]])


def b_mpls(L):
  return pkt.mpls(label=L["label"], tc=L["tc"], s=L["s"], ttl=L["ttl"])


def ext_hdr(e):
  cls = {0: IPV6.HopByHopOptions, 43: IPV6.Routing, 60: IPV6.DestinationOptions, 44: IPV6.Fragment}[e["t"]]
  if e["t"] == 44:
    return cls(next_header_type=e["nh"], raw_body=bytes(e["d"]))
  return cls(next_header_type=e["nh"], raw_body=bytes(e["d"]), payload_length=len(e["d"]))


def b_ipv6(L):
  return pkt.ipv6(v=L["v"], tc=L["tc"], flow=L["flow"], next_header_type=L["nh"], hop_limit=L["hlim"],
                  srcip=ip6(L["srcip"]), dstip=ip6(L["dstip"]), extension_headers=[ext_hdr(e) for e in L["ext"]])


def b_icmp6(L):
  return pkt.icmpv6(type=L["type"], code=L["code"])


def b_echo6(L):
  return ICMP6.echo(id=L["ident"], seq=L["seqno"])


def bits16(d):
  n = u(d)
  return [bool(n & (1 << i)) for i in range(16)]


def tlv(x):
  t, d = x["t"], x["d"]
  if t == 0 and not d:
    return LLDP.end_tlv()
  if t == 1 and len(d) >= 2:
    return LLDP.chassis_id(subtype=d[0], id=bytes(d[1:]))
  if t == 2 and len(d) >= 2:
    return LLDP.port_id(subtype=d[0], id=bytes(d[1:]))
  if t == 3 and len(d) == 2:
    return LLDP.ttl(ttl=u(d))
  if t == 4:
    return LLDP.port_description(payload=bytes(d))
  if t == 5:
    return LLDP.system_name(payload=bytes(d))
  if t == 6:
    return LLDP.system_description(payload=bytes(d))
  if t == 7 and len(d) == 4:
    return LLDP.system_capabilities(caps=bits16(d[:2]), enabled_caps=bits16(d[2:]))
  if t == 8 and len(d) >= 8 and len(d) == d[0] + 7 + d[d[0] + 6]:
    n = d[0] - 1
    return LLDP.management_address(address_subtype=d[1], address=bytes(d[2:2 + n]),
                                   interface_numbering_subtype=d[2 + n], interface_number=u(d[3 + n:7 + n]),
                                   object_identifier=bytes(d[8 + n:]))
  if t == 127 and len(d) >= 4:
    return LLDP.organizationally_specific(oui=bytes(d[:3]), subtype=d[3], payload=bytes(d[4:]))
  return LLDP.unknown_tlv(tlv_type=t, payload=bytes(d))


def tlv_view(o):
  t = o.tlv_type
  if isinstance(o, (LLDP.chassis_id, LLDP.port_id)):
    d = [o.subtype] + list(o.id)
  elif isinstance(o, LLDP.ttl):
    d = bl(o.ttl, 2)
  elif isinstance(o, LLDP.end_tlv):
    d = []
  elif isinstance(o, LLDP.system_capabilities):
    d = bl(sum(1 << i for i in range(16) if o.caps[i]), 2) + bl(sum(1 << i for i in range(16) if o.enabled_caps[i]), 2)
  elif isinstance(o, LLDP.management_address):
    d = ([len(o.address) + 1, o.address_subtype] + list(o.address) + [o.interface_numbering_subtype]
         + bl(o.interface_number, 4) + [len(o.object_identifier)] + list(o.object_identifier))
  elif isinstance(o, LLDP.organizationally_specific):
    d = list(o.oui) + [o.subtype] + list(o.payload)
  else:
    d = list(o.payload)
  return {"t": t, "d": d}


def b_lldp(L):
  o = pkt.lldp()
  for x in L["tlvs"]:
    o.add_tlv(tlv(x))
  return o


BUILD = {"eth": b_eth, "vlan": b_vlan, "llc": b_llc, "arp": b_arp, "ipv4": b_ipv4, "icmp": b_icmp, "echo": b_echo,
         "unreach": b_unreach, "timex": b_timex, "udp": b_udp, "tcp": b_tcp, "mpls": b_mpls, "ipv6": b_ipv6,
         "icmp6": b_icmp6, "echo6": b_echo6, "lldp": b_lldp}


def build(stack):
  objs = []
  for L in stack:
    if L["p"] in ("raw", "rawb"):
      objs.append(W.raw_bytes(L))
    else:
      objs.append(BUILD[L["p"]](L))
  for outer, inner in zip(objs, objs[1:]):
    outer.payload = inner
  return objs[0]


# --------------------------------------------------------------------------
# view: library object chain -> abstract layers

def fixed_view(p, o, attr):
  out = {"p": p}
  for e in W.layouts()[p]:
    v = getattr(o, attr.get(e["n"], e["n"]))
    if e["k"] == "b":
      v = addr_bytes(v, e["w"] // 8)
    elif isinstance(v, bool):
      v = int(v)
    out[e["n"]] = v
  return out


def v_eth(o):
  return fixed_view("eth", o, {})


def v_vlan(o):
  return fixed_view("vlan", o, {"vid": "id", "type": "eth_type"})


def v_llc(o):
  two = o.length in (4, 9)
  c = o.control
  return {"p": "llc", "dsap": o.dsap, "ssap": o.ssap, "ctl": [c & 0xff, c >> 8] if two else [c],
          "snap": 1 if o.has_snap else 0, "oui": list(o.oui) if o.has_snap else [],
          "type": o.eth_type if o.has_snap else 0}


def v_arp(o):
  return fixed_view("arp", o, {})


def v_ipv4(o):
  d = fixed_view("ipv4", o, {"ident": "id"})
  d["opts"] = list(o.raw_options)
  return d


def v_icmp(o):
  return fixed_view("icmp", o, {})


def v_echo(o):
  return fixed_view("echo", o, {"ident": "id", "seqno": "seq"})


def v_unreach(o):
  return fixed_view("unreach", o, {"mtu": "next_mtu"})


def v_timex(o):
  return fixed_view("timex", o, {"unused4": "unused"})


def v_udp(o):
  return fixed_view("udp", o, {})


def v_tcp(o):
  d = fixed_view("tcp", o, {})
  d["opts"] = [tcp_opt_view(x) for x in o.options]
  return d


def v_mpls(o):
  return fixed_view("mpls", o, {})


def v_ipv6(o):
  d = fixed_view("ipv6", o, {"plen": "payload_length", "nh": "next_header_type", "hlim": "hop_limit"})
  d["ext"] = [{"t": e.TYPE, "nh": e.next_header_type, "d": list(e.raw_body)} for e in o.extension_headers]
  return d


def v_icmp6(o):
  return fixed_view("icmp6", o, {})


def v_echo6(o):
  return fixed_view("echo6", o, {"ident": "id", "seqno": "seq"})


def v_lldp(o):
  return {"p": "lldp", "tlvs": [tlv_view(x) for x in o.tlvs]}


VIEW = [(pkt.ethernet, v_eth), (pkt.vlan, v_vlan), (pkt.llc, v_llc), (pkt.arp, v_arp), (pkt.ipv4, v_ipv4),
        (pkt.icmp, v_icmp), (ICMP.echo, v_echo), (ICMP.unreach, v_unreach), (ICMP.time_exceeded, v_timex),
        (pkt.udp, v_udp), (pkt.tcp, v_tcp), (pkt.mpls, v_mpls), (pkt.ipv6, v_ipv6), (pkt.icmpv6, v_icmp6),
        (ICMP6.echo, v_echo6), (pkt.lldp, v_lldp)]


def norm_tcp(d):
  """option lists are compared up to the end-of-list option (as Norm in the spec)"""
  if d.get("p") == "tcp":
    out = []
    for x in d["opts"]:
      if x["k"] == 0:
        break
      out.append(x)
    d["opts"] = out
  return d


class Adapter(object):
  def __init__(self, layouts=None):
    W.load_layouts(layouts)
    self.stack = None
    self.obj = None
    self.wire = None
    self.parsed = None

  # -- helpers
  def _payload(self):
    if self.stack and self.stack[-1]["p"] in ("raw", "rawb"):
      return W.raw_bytes(self.stack[-1])
    return b""

  def _split(self, out):
    if not isinstance(out, bytes):
      return {"hdr": "not-bytes:" + type(out).__name__, "pay": 0}
    pay = self._payload()
    n = len(pay)
    if len(out) >= n and out[len(out) - n:] == pay:
      return {"hdr": list(out[:len(out) - n]), "pay": n}
    return {"hdr": list(out), "pay": "payload-differs"}

  def _raw_view(self, b):
    pay = self._payload()
    if bytes(b) == pay and self.stack:
      return dict(self.stack[-1])
    return {"p": "rawb", "data": list(b)}

  def view(self, o):
    out = []
    seen = 0
    while o is not None:
      seen += 1
      if seen > 40:
        out.append({"p": "?cycle"})
        break
      if isinstance(o, (bytes, bytearray)):
        if len(o):
          out.append(self._raw_view(o))
        break
      if isinstance(o, packet_base) and not o.parsed:
        raw = getattr(o, "raw", None)
        if isinstance(raw, bytes):
          if len(raw):
            out.append(self._raw_view(raw))
        else:
          out.append({"p": "?unparsed-" + type(o).__name__})
        break
      for cls, fn in VIEW:
        if type(o) is cls:
          out.append(norm_tcp(fn(o)))
          break
      else:
        out.append({"p": "?" + type(o).__name__})
        break
      o = o.next
    return out

  # -- actions
  def step(self, a, args):
    if a == "Build":
      self.stack = args["pkt"]
      self.obj = build(self.stack)
      return {"ok": True}
    if a == "Feed":
      self.stack = args["pkt"]
      w = args["wire"]
      pay = self._payload()
      assert w["pay"] == len(pay)
      self.wire = bytes(w["hdr"]) + pay
      return {"ok": True}
    if a == "Pack":
      out = self.obj.pack()
      self.wire = out
      return self._split(out)
    if a == "Parse":
      self.parsed = pkt.ethernet(raw=self.wire)
      return {"view": self.view(self.parsed)}
    if a == "Repack":
      return self._split(self.parsed.pack())
    raise ValueError(a)

  # -- failure classification
  def signature(self, st, obs):
    """what went wrong, not on which input: action, outcome class, the layer / field concerned"""
    sig = {"action": st["a"]}
    exp = st["exp"]
    stack = self.stack or []
    if isinstance(obs, dict) and "EXC" in obs:
      sig["observed"] = "exception:" + obs["EXC"]
      sig["where"] = _where(obs.get("tb", ""))
      if sig["where"].endswith(":checksum"):
        sig["odd_length"] = W.pay_len(stack) % 2 == 1
      else:
        sig["innermost"] = _innermost(stack)
      return sig
    if st["a"] in ("Pack", "Repack"):
      eh, oh = exp["hdr"], obs.get("hdr")
      if not isinstance(oh, list):
        sig["observed"] = str(oh)
      elif oh != eh:
        i = 0
        while i < min(len(eh), len(oh)) and eh[i] == oh[i]:
          i += 1
        sig["observed"] = "bytes_differ"
        sig["first_diff"] = W.locate(stack, i)
        sig["length"] = "same" if len(oh) == len(eh) else "shorter" if len(oh) < len(eh) else "longer"
      elif obs.get("pay") != exp["pay"]:
        sig["observed"] = "payload:" + str(obs.get("pay"))
      return sig
    if st["a"] == "Parse":
      ev, ov = exp["view"], obs.get("view", [])
      sig["observed"] = "view_differs"
      for i in range(max(len(ev), len(ov))):
        e = ev[i] if i < len(ev) else {"p": "nothing"}
        o = ov[i] if i < len(ov) else {"p": "nothing"}
        if e != o:
          if e["p"] == o["p"]:
            sig["layer"] = e["p"]
            sig["fields"] = sorted(k for k in e if o.get(k) != e[k])
          else:
            sig["after"] = ev[i - 1]["p"] if i else "start"
            sig["expected_layer"] = e["p"]
            sig["observed_layer"] = o["p"]
          break
      return sig
    return sig


def _innermost(stack):
  ps = [L["p"] for L in stack if L["p"] not in ("raw", "rawb")]
  return ps[-1] if ps else "none"


def _where(tb):
  """innermost POX source location of an exception (file:function), from the traceback text"""
  loc = "?"
  for ln in tb.splitlines():
    ln = ln.strip()
    if ln.startswith("File ") and "/pox/" in ln:
      parts = ln.split(", ")
      f = parts[0].split("/pox/")[-1].rstrip('"')
      fn = parts[-1].replace("in ", "") if len(parts) >= 3 else "?"
      loc = "%s:%s" % (f, fn)
  return loc
