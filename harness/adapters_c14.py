"""C14 adapter: PktWire.tla actions -> the real pox.lib.packet classes.

Build   assemble the abstract stack from the library's header classes
Pack    obj.pack()                      -> header bytes + payload check
Feed    take the oracle's bytes (TLC's EncStack) as the frame
Parse   ethernet(raw=frame)             -> the header chain as field dicts
Repack  parsed.pack()                   -> header bytes + payload check

Field names are those of the layout tables in specs/packet/PktWireLayers.tla;
ATTR maps them to the library's attribute names where they differ.  Wide
fields cross as lists of byte values.
"""
import logging

from harness import poxenv          # puts VERIF_REPO on sys.path
from harness import c14_wire as W

logging.disable(logging.CRITICAL)

import importlib                                  # noqa: E402
import pox.lib.packet as pkt                      # noqa: E402


def _mod(name):
  # `from pox.lib.packet import icmp` yields the class (the package re-exports it under the module's name)
  return importlib.import_module("pox.lib.packet." + name)


ICMP, ICMP6, IPV6, LLDP, TCP, IGMP, RIP, DHCP = [_mod(n) for n in
                                                 ("icmp", "icmpv6", "ipv6", "lldp", "tcp", "igmp", "rip", "dhcp")]
from pox.lib.packet.packet_base import packet_base  # noqa: E402
from pox.lib.addresses import EthAddr, IPAddr, IPAddr6  # noqa: E402


def u(b):
  return int.from_bytes(bytes(b), "big")


def bl(x, n):
  return list(int(x).to_bytes(n, "big"))


def mac(b):
  return EthAddr(bytes(b))


def ip4(b):
  return IPAddr(bytes(b))


def ip6(b):
  return IPAddr6(raw=bytes(b))


def addr_bytes(a, n):
  """bytes of an address attribute whatever representation the library holds"""
  if isinstance(a, (bytes, bytearray)):
    return list(a)
  if isinstance(a, int):
    return bl(a, n)
  return list(a.raw)


# --------------------------------------------------------------------------
# build: abstract layer -> library object

def b_eth(L):
  return pkt.ethernet(dst=mac(L["dst"]), src=mac(L["src"]), type=L["type"])


def b_vlan(L):
  return pkt.vlan(pcp=L["pcp"], cfi=L["cfi"], id=L["vid"], eth_type=L["type"])


def b_llc(L):
  c = L["ctl"]
  o = pkt.llc(dsap=L["dsap"], ssap=L["ssap"], control=c[0] | ((c[1] << 8) if len(c) == 2 else 0))
  o.length = 2 + len(c) + (5 if L["snap"] else 0)       # what parse() records; hdr() derives the control width from it
  if L["snap"]:
    o.oui = bytes(L["oui"])
    o.eth_type = L["type"]
  return o


def b_arp(L):
  return pkt.arp(hwtype=L["hwtype"], prototype=L["prototype"], hwlen=L["hwlen"], protolen=L["protolen"],
                 opcode=L["opcode"], hwsrc=mac(L["hwsrc"]), hwdst=mac(L["hwdst"]),
                 protosrc=ip4(L["protosrc"]), protodst=ip4(L["protodst"]))


def b_ipv4(L):
  return pkt.ipv4(v=L["v"], hl=L["hl"], tos=L["tos"], id=L["ident"], flags=(L["rf"] << 2) | (L["df"] << 1) | L["mf"], frag=L["frag"],
                  ttl=L["ttl"], protocol=L["protocol"], srcip=ip4(L["srcip"]), dstip=ip4(L["dstip"]),
                  raw_options=bytes(L["opts"]))


def b_icmp(L):
  return pkt.icmp(type=L["type"], code=L["code"])


def b_echo(L):
  return ICMP.echo(id=L["ident"], seq=L["seqno"])


def b_unreach(L):
  return ICMP.unreach(unused=L["unused"], next_mtu=L["mtu"])


def b_timex(L):
  return ICMP.time_exceeded(unused=u(L["unused4"]))


def b_udp(L):
  return pkt.udp(srcport=L["srcport"], dstport=L["dstport"])


def _fv(f):
  return {e["n"]: e["v"] for e in f}


def mptcp_opt(d):
  """a Multipath TCP option object from the fields the oracle lists for it (W.mp_fields mirrors MpFields of the
  spec); subtypes without a field layout go in as opaque data"""
  f = _fv(W.mp_fields(d))
  if not f:
    o = TCP.mp_unknown()
    o.data = bytes(d)
    return o
  st = f["subtype"][0]
  if st == 0:
    o = TCP.mp_capable_opt()
    o.version, o.flags, o.skey = f["version"][0], f["flags"][0], bytes(f["skey"])
    if "rkey" in f:
      o.rkey = bytes(f["rkey"])
    return o
  if st == 1:
    o = TCP.mp_join_opt()
    o.flags, o.address_id = f["flags"][0], f["addr"][0]
    if "rtoken" in f:
      o.phase, o.rtoken, o.srand = 1, bytes(f["rtoken"]), bytes(f["srand"])
    elif "srand" in f:
      o.phase, o.shmac, o.srand = 2, bytes(f["shmac"]), bytes(f["srand"])
    else:
      o.phase, o.shmac = 3, bytes(f["shmac"])
    return o
  o = TCP.mp_dss_opt()
  o.flags = f["flags"][0]
  if "ack" in f:
    o.ack = u(f["ack"])
  if "dsn" in f:
    o.dsn, o.seq, o.length, o.csum = u(f["dsn"]), u(f["seq"]), u(f["length"]), u(f["csum"])
  return o


def _octets(v, n):
  """an attribute that should hold an n-octet quantity, as a list of octets.  Always a list of small ints (TLC
  compares it): a number that does not fit shows as a longer list, anything else as [] under a renamed field"""
  if isinstance(v, bool):
    return None
  if isinstance(v, int):
    if v < 0:
      return None
    return list(v.to_bytes(max(n, (v.bit_length() + 7) // 8), "big"))
  if isinstance(v, (bytes, bytearray)):
    return list(v)
  return None


def mptcp_view(o):
  """the attributes of a parsed / built Multipath TCP option under the spec's field names (absent = None)"""
  if type(o) is TCP.mp_unknown:
    return {"k": o.type, "d": list(o.data), "f": []}
  if type(o) is TCP.mp_capable_opt:
    spec = [("subtype", o.subtype, 1), ("version", o.version, 1), ("flags", o.flags, 1), ("skey", o.skey, 8), ("rkey", o.rkey, 8)]
  elif type(o) is TCP.mp_join_opt:
    spec = [("subtype", o.subtype, 1), ("flags", o.flags, 1), ("addr", o.address_id, 1), ("rtoken", o.rtoken, 4),
            ("shmac", o.shmac, 8), ("srand", o.srand, 4)]
  elif type(o) is TCP.mp_dss_opt:
    spec = [("subtype", o.subtype, 1), ("flags", o.flags, 1), ("ack", o.ack, 8), ("dsn", o.dsn, 8), ("seq", o.seq, 4),
            ("length", o.length, 2), ("csum", o.csum, 2)]
  else:
    return {"k": o.type, "d": [], "f": [{"n": "?" + type(o).__name__, "v": []}]}
  f = []
  for name, v, n in spec:
    if v is None:
      continue
    b = _octets(v, n)
    f.append({"n": name, "v": b} if b is not None else {"n": "%s?%s" % (name, type(v).__name__), "v": []})
  return {"k": o.type, "d": [], "f": f}


def tcp_opt(x):
  k, d = x["k"], x["d"]
  if k == 30:
    return mptcp_opt(d)
  if k in (0, 1):
    return TCP.tcp_opt(k, None)
  if k == 2 and len(d) == 2:
    return TCP.tcp_opt(k, u(d))
  if k == 3 and len(d) == 1:
    return TCP.tcp_opt(k, d[0])
  if k == 4 and not d:
    return TCP.tcp_opt(k, None)
  if k == 5 and len(d) % 8 == 0:
    return TCP.tcp_opt(k, [(u(d[i:i + 4]), u(d[i + 4:i + 8])) for i in range(0, len(d), 8)])
  if k == 8 and len(d) == 8:
    return TCP.tcp_opt(k, (u(d[:4]), u(d[4:])))
  return TCP.tcp_opt(k, bytes(d))


def tcp_opt_view(o):
  k = o.type
  if isinstance(o, TCP.mptcp_opt):
    return mptcp_view(o)
  if k in (0, 1, 4):
    d = []
  elif k == 2:
    d = bl(o.val, 2)
  elif k == 3:
    d = [o.val]
  elif k == 5:
    d = [y for l, r in o.val for y in bl(l, 4) + bl(r, 4)]
  elif k == 8:
    d = bl(o.val[0], 4) + bl(o.val[1], 4)
  else:
    d = list(o.val)
  return {"k": k, "d": d, "f": []}


def b_tcp(L):
  return pkt.tcp(srcport=L["srcport"], dstport=L["dstport"], seq=u(L["seq"]), ack=u(L["ack"]), res=L["res"],
                 flags=L["flags"], win=L["win"], urg=L["urg"], options=[tcp_opt(x) for x in L["opts"]])


def b_mpls(L):
  return pkt.mpls(label=L["label"], tc=L["tc"], s=L["s"], ttl=L["ttl"])


def ext_hdr(e):
  cls = {0: IPV6.HopByHopOptions, 43: IPV6.Routing, 60: IPV6.DestinationOptions, 44: IPV6.Fragment}[e["t"]]
  if e["t"] == 44:
    return cls(next_header_type=e["nh"], raw_body=bytes(e["d"]))
  return cls(next_header_type=e["nh"], raw_body=bytes(e["d"]), payload_length=len(e["d"]))


def b_ipv6(L):
  return pkt.ipv6(v=L["v"], tc=L["tc"], flow=L["flow"], next_header_type=L["nh"], hop_limit=L["hlim"],
                  srcip=ip6(L["srcip"]), dstip=ip6(L["dstip"]), extension_headers=[ext_hdr(e) for e in L["ext"]])


def b_icmp6(L):
  return pkt.icmpv6(type=L["type"], code=L["code"])


def b_echo6(L):
  return ICMP6.echo(id=L["ident"], seq=L["seqno"])


def bits16(d):
  n = u(d)
  return [bool(n & (1 << i)) for i in range(16)]


def tlv(x):
  t, d = x["t"], x["d"]
  if t == 0 and not d:
    return LLDP.end_tlv()
  if t == 1 and len(d) >= 2:
    return LLDP.chassis_id(subtype=d[0], id=bytes(d[1:]))
  if t == 2 and len(d) >= 2:
    return LLDP.port_id(subtype=d[0], id=bytes(d[1:]))
  if t == 3 and len(d) == 2:
    return LLDP.ttl(ttl=u(d))
  if t == 4:
    return LLDP.port_description(payload=bytes(d))
  if t == 5:
    return LLDP.system_name(payload=bytes(d))
  if t == 6:
    return LLDP.system_description(payload=bytes(d))
  if t == 7 and len(d) == 4:
    return LLDP.system_capabilities(caps=bits16(d[:2]), enabled_caps=bits16(d[2:]))
  if t == 8 and len(d) >= 8 and len(d) == d[0] + 7 + d[d[0] + 6]:
    n = d[0] - 1
    return LLDP.management_address(address_subtype=d[1], address=bytes(d[2:2 + n]),
                                   interface_numbering_subtype=d[2 + n], interface_number=u(d[3 + n:7 + n]),
                                   object_identifier=bytes(d[8 + n:]))
  if t == 127 and len(d) >= 4:
    return LLDP.organizationally_specific(oui=bytes(d[:3]), subtype=d[3], payload=bytes(d[4:]))
  return LLDP.unknown_tlv(tlv_type=t, payload=bytes(d))


def tlv_view(o):
  t = o.tlv_type
  if isinstance(o, (LLDP.chassis_id, LLDP.port_id)):
    d = [o.subtype] + list(o.id)
  elif isinstance(o, LLDP.ttl):
    d = bl(o.ttl, 2)
  elif isinstance(o, LLDP.end_tlv):
    d = []
  elif isinstance(o, LLDP.system_capabilities):
    d = bl(sum(1 << i for i in range(16) if o.caps[i]), 2) + bl(sum(1 << i for i in range(16) if o.enabled_caps[i]), 2)
  elif isinstance(o, LLDP.management_address):
    d = ([len(o.address) + 1, o.address_subtype] + list(o.address) + [o.interface_numbering_subtype]
         + bl(o.interface_number, 4) + [len(o.object_identifier)] + list(o.object_identifier))
  elif isinstance(o, LLDP.organizationally_specific):
    d = list(o.oui) + [o.subtype] + list(o.payload)
  else:
    d = list(o.payload)
  return {"t": t, "d": d}


def b_lldp(L):
  o = pkt.lldp()
  for x in L["tlvs"]:
    o.add_tlv(tlv(x))
  return o


# ---- the long tail

def signed32(b):
  n = u(b)
  return n - (1 << 32) if n >= (1 << 31) else n


def b_gre(L):
  o = pkt.gre(type=L["type"], recursion=L["recur"], ver=L["ver"])
  if L["c"]:
    o.csum = True                 # "compute it when packing"
    o.route_offset = L["offset"]
  if L["k"]:
    o.key = u(L["key"])
  if L["sq"]:
    o.seq = u(L["seq"])
  return o


def b_vxlan(L):
  return pkt.vxlan(vni=L["vni"] if L["flags"] & 8 else None)


def b_igmp(L):
  return pkt.igmp(ver_and_type=L["vtype"], max_response_time=L["mrt"], address=ip4(L["group"]))


def group_rec(r):
  return IGMP.GroupRecord(type=r["t"], aux=bytes(r["aux"]), source_addresses=[ip4(a) for a in r["srcs"]],
                          address=ip4(r["group"]))


def b_igmp3(L):
  return pkt.igmp(ver_and_type=0x22, group_records=[group_rec(r) for r in L["recs"]])


def rip_entry(e):
  return RIP.RIPEntry(address_family=e["af"], route_tag=e["tag"], ip=ip4(e["ip"]), netmask=ip4(e["mask"]),
                      next_hop=ip4(e["nexthop"]), metric=signed32(e["metric"]))


def b_rip(L):
  return pkt.rip(command=L["command"], version=L["version"], entries=[rip_entry(e) for e in L["entries"]])


def b_eapol(L):           # L: completed layer (the library has no length computation here: the caller supplies it)
  return pkt.eapol(version=L["version"], type=L["type"], bodylen=L["bodylen"])


def b_eap(L):
  return pkt.eap(code=L["code"], id=L["ident"], length=L["length"])


def dhcp_opt(k, d):
  d = bytes(d)
  if k == 53 and len(d) == 1:
    return DHCP.DHCPMsgTypeOption(d[0])
  if k in (1, 28, 50, 54) and len(d) == 4:
    return DHCP._dhcp_option_unpackers[k].__self__(ip4(d))
  if k in (3, 4, 6) and len(d) % 4 == 0:
    return DHCP._dhcp_option_unpackers[k].__self__([ip4(d[i:i + 4]) for i in range(0, len(d), 4)])
  if k in (51, 58, 59) and len(d) == 4:
    return DHCP._dhcp_option_unpackers[k].__self__(u(d))
  if k == 55:
    return DHCP.DHCPParameterRequestOption(list(d))
  return DHCP.DHCPRawOption(d)


def dhcp_opt_view(k, o):
  if isinstance(o, (bytes, bytearray)):
    return {"k": k, "d": list(o)}
  if isinstance(o, DHCP.DHCPMsgTypeOption):
    d = [o.type]
  elif isinstance(o, DHCP.DHCPIPOptionBase):
    d = list(o.addr.raw)
  elif isinstance(o, DHCP.DHCPIPsOptionBase):
    d = [x for a in o.addrs for x in a.raw]
  elif isinstance(o, DHCP.DHCPSecondsOptionBase):
    d = bl(o.seconds, 4)
  elif isinstance(o, DHCP.DHCPParameterRequestOption):
    d = list(o.options)
  elif isinstance(o, DHCP.DHCPOptionOverloadOption):
    d = [o.value]
  else:
    d = list(o.data)
  return {"k": k, "d": d}


def b_dhcp(L):
  ch = bytes(L["chaddr"])
  o = pkt.dhcp(op=L["op"], htype=L["htype"], hlen=L["hlen"], hops=L["hops"], xid=u(L["xid"]), secs=L["secs"],
               flags=L["flags"], ciaddr=ip4(L["ciaddr"]), yiaddr=ip4(L["yiaddr"]), siaddr=ip4(L["siaddr"]),
               giaddr=ip4(L["giaddr"]), chaddr=EthAddr(ch[:6]) if L["hlen"] == 6 else ch,
               sname=bytes(L["sname"]), file=bytes(L["file"]), magic=bytes(L["magic"]))
  for x in L["opts"]:
    if x["k"] != 0:
      o.options[x["k"]] = dhcp_opt(x["k"], x["d"])
  return o


def name_str(nm):
  return ".".join(bytes(l).decode("latin-1") for l in nm)


def name_labels(t):
  return [list(l.encode("latin-1")) for l in t.split(".")] if t else []


def b_dns(L):
  o = pkt.dns(id=L["ident"], qr=bool(L["qr"]), opcode=L["opcode"], aa=bool(L["aa"]), tc=bool(L["tc"]),
              rd=bool(L["rd"]), ra=bool(L["ra"]), z=bool(L["z"]), ad=bool(L["ad"]), cd=bool(L["cd"]), rcode=L["rcode"])
  for q in L["qs"]:
    o.questions.append(dns_q(q))
  for lst, key in ((o.answers, "ans"), (o.authorities, "auth"), (o.additional, "add")):
    for r in L[key]:
      lst.append(dns_rr(r))
  return o


def dns_q(q):
  return pkt.dns.question(name_str(q["name"]), q["qtype"], q["qclass"])


def dns_rr(r):
  d = r["rd"]["d"]
  if r["rd"]["k"] == "name":
    data = name_str(d)
  elif r["type"] == 1 and len(d) == 4:
    data = ip4(d)
  elif r["type"] == 28 and len(d) == 16:
    data = ip6(d)
  else:
    data = bytes(d)
  return pkt.dns.rr(name_str(r["name"]), r["type"], r["class"], u(r["ttl"]), 0, data)


def v_dns(o):
  def rr(r):
    if r.qtype in W.NAME_TYPES:
      rd = {"k": "name", "d": name_labels(r.rddata)}
    else:
      rd = {"k": "raw", "d": addr_bytes(r.rddata, 0)}
    return {"name": name_labels(r.name), "type": r.qtype, "class": r.qclass, "ttl": bl(r.ttl, 4), "rd": rd}
  d = {"p": "dns", "ident": o.id, "opcode": o.opcode, "rcode": o.rcode, "cmp": 0}
  for f in ("qr", "aa", "tc", "rd", "ra", "z", "ad", "cd"):
    d[f] = int(bool(getattr(o, f)))
  d["qs"] = [{"name": name_labels(q.name), "qtype": q.qtype, "qclass": q.qclass} for q in o.questions]
  d["ans"] = [rr(r) for r in o.answers]
  d["auth"] = [rr(r) for r in o.authorities]
  d["add"] = [rr(r) for r in o.additional]
  d.update(qd=len(d["qs"]), an=len(d["ans"]), ns=len(d["auth"]), ar=len(d["add"]))
  return d


def nd_opt(x):
  t, d = x["t"], x["d"]
  if t == 1 and len(d) == 6:
    return ICMP6.NDOptSourceLinkLayerAddress(address=mac(d))
  if t == 2 and len(d) == 6:
    return ICMP6.NDOptTargetLinkLayerAddress(address=mac(d))
  if t == 3 and len(d) == 30 and d[1] & 0x3f == 0 and d[10:14] == [0, 0, 0, 0]:
    return ICMP6.NDOptPrefixInformation(prefix_length=d[0], on_link=bool(d[1] & 0x80), is_autonomous=bool(d[1] & 0x40),
                                        valid_lifetime=u(d[2:6]), preferred_lifetime=u(d[6:10]), prefix=ip6(d[14:]))
  if t == 5 and len(d) == 6 and d[:2] == [0, 0]:
    return ICMP6.NDOptMTU(mtu=u(d[2:]))
  o = ICMP6.NDOptionGeneric()
  o.TYPE = t
  o.raw = bytes(d)
  return o


def nd_opt_view(o):
  if isinstance(o, ICMP6.NDOptLinkLayerAddress):
    return {"t": o.TYPE, "d": list(o.address.raw)}
  if isinstance(o, ICMP6.NDOptPrefixInformation):
    return {"t": 3, "d": [o.prefix_length, o.flags] + bl(o.valid_lifetime, 4) + bl(o.preferred_lifetime, 4)
            + [0, 0, 0, 0] + list(o.prefix.raw)}
  if isinstance(o, ICMP6.NDOptMTU):
    return {"t": 5, "d": [0, 0] + bl(o.mtu, 4)}
  return {"t": o.TYPE, "d": list(o.raw)}


def b_ns(L):
  return ICMP6.NDNeighborSolicitation(target=ip6(L["target"]), options=[nd_opt(x) for x in L["opts"]])


def b_na(L):
  return ICMP6.NDNeighborAdvertisement(target=ip6(L["target"]), is_router=bool(L["r"]), is_solicited=bool(L["sol"]),
                                       is_override=bool(L["ovr"]), options=[nd_opt(x) for x in L["opts"]])


def b_rs(L):
  return ICMP6.NDRouterSolicitation(options=[nd_opt(x) for x in L["opts"]])


def b_ra(L):
  return ICMP6.NDRouterAdvertisement(hop_limit=L["hoplimit"], is_managed=bool(L["m"]), is_other=bool(L["o"]),
                                     lifetime=L["lifetime"], reachable=u(L["reachable"]),
                                     retrans_timer=u(L["retrans"]), options=[nd_opt(x) for x in L["opts"]])


def b_unreach6(L):
  return ICMP6.unreach(unused=u(L["unused4"]))


def b_toobig(L):
  return ICMP6.PacketTooBig(mtu=u(L["mtu4"]))


def b_timex6(L):
  return ICMP6.TimeExceeded()


BUILD = {"eth": b_eth, "vlan": b_vlan, "llc": b_llc, "arp": b_arp, "ipv4": b_ipv4, "icmp": b_icmp, "echo": b_echo,
         "unreach": b_unreach, "timex": b_timex, "udp": b_udp, "tcp": b_tcp, "mpls": b_mpls, "ipv6": b_ipv6,
         "icmp6": b_icmp6, "echo6": b_echo6, "lldp": b_lldp, "gre": b_gre, "vxlan": b_vxlan, "igmp": b_igmp,
         "igmp3": b_igmp3, "rip": b_rip, "eapol": b_eapol, "eap": b_eap, "dhcp": b_dhcp, "dns": b_dns, "ns": b_ns, "na": b_na,
         "rs": b_rs, "ra": b_ra, "unreach6": b_unreach6, "toobig": b_toobig, "timex6": b_timex6}
USER_LENGTHS = ("eapol", "eap")      # headers whose length field the library leaves to the caller


def build(stack):
  objs = []
  filled = None
  for i, L in enumerate(stack):
    if L["p"] in ("raw", "rawb"):
      objs.append(W.raw_bytes(L))
    elif L["p"] in USER_LENGTHS:
      filled = filled or W.assemble(stack)[1]
      objs.append(BUILD[L["p"]](filled[i]))
    else:
      objs.append(BUILD[L["p"]](L))
  for outer, inner in zip(objs, objs[1:]):
    if isinstance(outer, pkt.igmp):
      outer.extra = inner           # the library keeps what follows an IGMP message in .extra
    else:
      outer.payload = inner
  return objs[0]


# --------------------------------------------------------------------------
# edits of an object that has been serialised before (PktWireEdits.tla)

# container name -> (attribute holding the list, item constructor) per protocol
CONTAINERS = {("tcp", "opts"): ("options", tcp_opt), ("lldp", "tlvs"): ("tlvs", tlv),
              ("ipv6", "ext"): ("extension_headers", ext_hdr), ("dns", "qs"): ("questions", dns_q),
              ("dns", "ans"): ("answers", dns_rr), ("igmp3", "recs"): ("group_records", group_rec),
              ("rip", "entries"): ("entries", rip_entry), ("ns", "opts"): ("options", nd_opt),
              ("na", "opts"): ("options", nd_opt), ("rs", "opts"): ("options", nd_opt), ("ra", "opts"): ("options", nd_opt)}
# field name -> attribute where they differ (same tables as the views)
FIELD_ATTR = {("vlan", "vid"): "id", ("ipv4", "opts"): "raw_options", ("echo", "seqno"): "seq", ("ipv6", "hlim"): "hop_limit",
              ("echo6", "ident"): "id", ("igmp", "group"): "address", ("dns", "ident"): "id", ("unreach", "mtu"): "next_mtu",
              ("toobig", "mtu4"): "mtu"}


def _convert(cur, val):
  """a spec value (number or byte list) as the type the attribute currently holds"""
  if not isinstance(val, list):
    return val
  if isinstance(cur, EthAddr):
    return mac(val)
  if isinstance(cur, IPAddr6):
    return ip6(val)
  if isinstance(cur, IPAddr):
    return ip4(val)
  if isinstance(cur, int):
    return u(val)
  return bytes(val)


def apply_edit(o, p, e):
  """perform edit e (PktWireEdits.tla) on the library object o of protocol p through its public attributes"""
  op, c = e["op"], e["c"]
  if op == "setf":
    attr = FIELD_ATTR.get((p, c), c)
    setattr(o, attr, _convert(getattr(o, attr), e["v"]["x"]))
    return
  if p == "dhcp":                       # options live in a dictionary keyed by option code
    keys = list(o.options.keys())
    if op == "delete":
      del o.options[keys[e["i"] - 1]]
    else:
      k = e["v"]["k"]
      if (op == "replace") != (k in o.options) or (op == "replace" and keys[e["i"] - 1] != k):
        raise ValueError("edit does not fit the option dictionary")
      o.options[k] = dhcp_opt(k, e["v"]["d"])
    return
  attr, make = CONTAINERS[(p, c)]
  lst = getattr(o, attr)
  if op == "replace":
    lst[e["i"] - 1] = make(e["v"])
  elif op == "add":
    lst.insert(e["i"] - 1, make(e["v"]))
  elif op == "delete":
    del lst[e["i"] - 1]
  else:
    raise ValueError(op)


# --------------------------------------------------------------------------
# view: library object chain -> abstract layers

def fixed_view(p, o, attr, given=None):
  out = {"p": p}
  for e in W.layouts()[p]:
    if given and e["n"] in given:
      out[e["n"]] = given[e["n"]]
      continue
    v = getattr(o, attr.get(e["n"], e["n"]))
    if e["k"] == "b":
      v = addr_bytes(v, e["w"] // 8)
    elif isinstance(v, bool):
      v = int(v)
    out[e["n"]] = v
  return out


def v_eth(o):
  return fixed_view("eth", o, {})


def v_vlan(o):
  return fixed_view("vlan", o, {"vid": "id", "type": "eth_type"})


def v_llc(o):
  two = o.length in (4, 9)
  c = o.control
  return {"p": "llc", "dsap": o.dsap, "ssap": o.ssap, "ctl": [c & 0xff, c >> 8] if two else [c],
          "snap": 1 if o.has_snap else 0, "oui": list(o.oui) if o.has_snap else [],
          "type": o.eth_type if o.has_snap else 0}


def v_arp(o):
  return fixed_view("arp", o, {})


def v_ipv4(o):
  fl = o.flags                           # three bits: reserved, DF, MF (anything wider shows up in rf)
  d = fixed_view("ipv4", o, {"ident": "id"}, {"rf": fl >> 2, "df": (fl >> 1) & 1, "mf": fl & 1})
  d["opts"] = list(o.raw_options)
  return d


def v_icmp(o):
  return fixed_view("icmp", o, {})


def v_echo(o):
  return fixed_view("echo", o, {"ident": "id", "seqno": "seq"})


def v_unreach(o):
  return fixed_view("unreach", o, {"mtu": "next_mtu"})


def v_timex(o):
  return fixed_view("timex", o, {"unused4": "unused"})


def v_udp(o):
  return fixed_view("udp", o, {})


def v_tcp(o):
  d = fixed_view("tcp", o, {})
  d["opts"] = [tcp_opt_view(x) for x in o.options]
  return d


def v_mpls(o):
  return fixed_view("mpls", o, {})


def v_ipv6(o):
  d = fixed_view("ipv6", o, {"plen": "payload_length", "nh": "next_header_type", "hlim": "hop_limit"})
  d["ext"] = [{"t": e.TYPE, "nh": e.next_header_type, "d": list(e.raw_body)} for e in o.extension_headers]
  return d


def v_icmp6(o):
  return fixed_view("icmp6", o, {})


def v_echo6(o):
  return fixed_view("echo6", o, {"ident": "id", "seqno": "seq"})


def v_lldp(o):
  return {"p": "lldp", "tlvs": [tlv_view(x) for x in o.tlvs]}


def v_gre(o):
  c = o.csum is not None
  return {"p": "gre", "c": int(c), "k": int(o.key is not None), "sq": int(o.seq is not None), "recur": o.recursion,
          "ver": o.ver, "type": o.type, "csum": o.csum if c else 0, "offset": o.route_offset if c else 0,
          "key": bl(o.key, 4) if o.key is not None else [], "seq": bl(o.seq, 4) if o.seq is not None else []}


def v_vxlan(o):
  return {"p": "vxlan", "flags": 8 if o.vni is not None else 0, "rsv1": 0, "vni": o.vni or 0, "rsv2": 0}


def v_igmp(o):
  if o.ver_and_type == 0x22:
    return {"p": "igmp3", "csum": o.csum,
            "recs": [{"t": r.type, "group": list(r.address.raw), "srcs": [list(a.raw) for a in r.source_addresses],
                      "aux": list(r.aux)} for r in o.group_records]}
  return fixed_view("igmp", o, {"vtype": "ver_and_type", "mrt": "max_response_time", "group": "address"})


def v_rip(o):
  d = {"p": "rip", "command": o.command, "version": o.version, "zero": 0}     # parse() insists on the zero field
  d["entries"] = [{"af": e.address_family, "tag": e.route_tag, "ip": list(e.ip.raw), "mask": list(e.netmask.raw),
                   "nexthop": list(e.next_hop.raw), "metric": bl(e.metric & 0xffffffff, 4)} for e in o.entries]
  return d


def v_eapol(o):
  return fixed_view("eapol", o, {})


def v_eap(o):
  return fixed_view("eap", o, {"ident": "id"})


def v_dhcp(o):
  d = fixed_view("dhcp", o, {})
  if len(d["chaddr"]) == 6:
    d["chaddr"] = d["chaddr"] + [0] * 10
  d["opts"] = [dhcp_opt_view(k, v) for k, v in o.options.items()]
  return d


def v_nd(p):
  def f(o):
    if p == "ns":
      d = {"p": p, "rsv": [0, 0, 0, 0], "target": list(o.target.raw)}
    elif p == "na":
      d = {"p": p, "r": int(bool(o.is_router)), "sol": int(bool(o.is_solicited)), "ovr": int(bool(o.is_override)),
           "rsv5": 0, "rsv": 0, "target": list(o.target.raw)}
    elif p == "rs":
      d = {"p": p, "rsv": [0, 0, 0, 0]}
    else:
      d = {"p": p, "hoplimit": o.hop_limit, "m": int(bool(o.is_managed)), "o": int(bool(o.is_other)), "rsv6": 0,
           "lifetime": o.lifetime, "reachable": bl(o.reachable, 4), "retrans": bl(o.retrans_timer, 4)}
    d["opts"] = [nd_opt_view(x) for x in o.options]
    return d
  return f


def v_unreach6(o):
  return fixed_view("unreach6", o, {"unused4": "unused"})


def v_toobig(o):
  return fixed_view("toobig", o, {"mtu4": "mtu"})


def v_timex6(o):
  return {"p": "timex6", "unused4": [0, 0, 0, 0]}


VIEW = [(pkt.ethernet, v_eth), (pkt.vlan, v_vlan), (pkt.llc, v_llc), (pkt.arp, v_arp), (pkt.ipv4, v_ipv4),
        (pkt.icmp, v_icmp), (ICMP.echo, v_echo), (ICMP.unreach, v_unreach), (ICMP.time_exceeded, v_timex),
        (pkt.udp, v_udp), (pkt.tcp, v_tcp), (pkt.mpls, v_mpls), (pkt.ipv6, v_ipv6), (pkt.icmpv6, v_icmp6),
        (ICMP6.echo, v_echo6), (pkt.lldp, v_lldp), (pkt.gre, v_gre), (pkt.vxlan, v_vxlan), (pkt.igmp, v_igmp),
        (pkt.rip, v_rip), (pkt.eapol, v_eapol), (pkt.eap, v_eap), (pkt.dhcp, v_dhcp), (pkt.dns, v_dns),
        (ICMP6.NDNeighborSolicitation, v_nd("ns")), (ICMP6.NDNeighborAdvertisement, v_nd("na")),
        (ICMP6.NDRouterSolicitation, v_nd("rs")), (ICMP6.NDRouterAdvertisement, v_nd("ra")),
        (ICMP6.unreach, v_unreach6), (ICMP6.PacketTooBig, v_toobig), (ICMP6.TimeExceeded, v_timex6)]


def norm_tcp(d):
  """option lists are compared up to the end-of-list option (as Norm in the spec)"""
  if d.get("p") == "tcp":
    out = []
    for x in d["opts"]:
      if x["k"] == 0:
        break
      out.append(W.opt_view(x))           # (OptView in the spec; the adapter's own views carry "f" already)
    d["opts"] = out
  elif d.get("p") == "dhcp":
    d["opts"] = [x for x in d["opts"] if x["k"] != 0]       # pad options carry no information
  return d


class Adapter(object):
  def __init__(self, layouts=None):
    W.load_layouts(layouts)
    self.stack = None
    self.obj = None
    self.last_edit = None
    self.wire = None
    self.parsed = None

  # -- helpers
  def _payload(self):
    if self.stack and self.stack[-1]["p"] in ("raw", "rawb"):
      return W.raw_bytes(self.stack[-1])
    return b""

  def _split(self, out):
    if not isinstance(out, bytes):
      return {"hdr": "not-bytes:" + type(out).__name__, "pay": 0}
    pay = self._payload()
    n = len(pay)
    if len(out) >= n and out[len(out) - n:] == pay:
      return {"hdr": list(out[:len(out) - n]), "pay": n}
    return {"hdr": list(out), "pay": "payload-differs"}

  def _raw_view(self, b):
    pay = self._payload()
    if bytes(b) == pay and self.stack:
      return dict(self.stack[-1])
    return {"p": "rawb", "data": list(b)}

  def view(self, o):
    out = []
    seen = 0
    while o is not None:
      seen += 1
      if seen > 40:
        out.append({"p": "?cycle"})
        break
      if isinstance(o, (bytes, bytearray)):
        if len(o):
          out.append(self._raw_view(o))
        break
      if isinstance(o, packet_base) and not o.parsed:
        raw = getattr(o, "raw", None)
        if isinstance(raw, bytes):
          if len(raw):
            out.append(self._raw_view(raw))
        else:
          out.append({"p": "?unparsed-" + type(o).__name__})
        break
      for cls, fn in VIEW:
        if type(o) is cls:
          out.append(norm_tcp(fn(o)))
          break
      else:
        out.append({"p": "?" + type(o).__name__})
        break
      o = o.extra if isinstance(o, pkt.igmp) else o.next
    return out

  # -- actions
  def step(self, a, args):
    if a == "Build":
      self.stack = args["pkt"]
      self.obj = build(self.stack)
      return {"ok": True}
    if a == "Feed":
      self.stack = args["pkt"]
      w = args["wire"]
      pay = self._payload()
      assert w["pay"] == len(pay)
      self.wire = bytes(w["hdr"]) + pay
      return {"ok": True}
    if a == "Pack":
      out = self.obj.pack()
      self.wire = out
      return self._split(out)
    if a == "Parse":
      self.parsed = pkt.ethernet(raw=self.wire)
      return {"view": self.view(self.parsed)}
    if a == "Edit":
      old = self._payload()
      o = self.parsed
      for _ in range(40):
        nxt = o.extra if isinstance(o, pkt.igmp) else o.next
        if isinstance(nxt, packet_base) and nxt.parsed:
          o = nxt
          continue
        break
      cur = nxt.raw if isinstance(nxt, packet_base) else nxt
      if cur != old:
        return {"ok": False, "innermost_payload": "not-the-payload"}
      self.stack = self.stack[:-1] + [dict(args)]
      if isinstance(o, pkt.igmp):
        o.extra = self._payload()
      else:
        o.payload = self._payload()
      return {"ok": True}
    if a == "Repack":
      return self._split(self.parsed.pack())
    if a == "Change":
      live = self.parsed if self.parsed is not None else self.obj
      o = live
      for _ in range(args["li"] - 1):
        o = o.extra if isinstance(o, pkt.igmp) else o.next
      p = self.stack[args["li"] - 1]["p"]
      apply_edit(o, p, args)
      self.last_edit = "%s.%s:%s" % (p, args["c"], args["op"])
      try:
        self.stack = W.apply_edit(self.stack, args)     # only used to name fields in failure signatures
      except Exception:
        pass
      return {"ok": True}
    if a == "PackAgain":
      return self._split(self.obj.pack())
    if a == "RepackAgain":
      return self._split(self.parsed.pack())
    raise ValueError(a)

  # -- failure classification
  def signature(self, st, obs):
    """what went wrong, not on which input: action, outcome class, the layer / field concerned"""
    sig = {"action": st["a"]}
    exp = st["exp"]
    stack = self.stack or []
    if isinstance(obs, dict) and "EXC" in obs:
      sig["observed"] = "exception:" + obs["EXC"]
      sig["where"] = _where(obs.get("tb", ""))
      if sig["where"].endswith(":checksum"):
        sig["odd_length"] = W.pay_len(stack) % 2 == 1
      else:
        sig["innermost"] = _innermost(stack)
      return sig
    if self.last_edit:
      sig["edit"] = self.last_edit
    if st["a"] in ("Pack", "Repack", "PackAgain", "RepackAgain"):
      eh, oh = exp["hdr"], obs.get("hdr")
      if not isinstance(oh, list):
        sig["observed"] = str(oh)
      elif oh != eh:
        i = 0
        while i < min(len(eh), len(oh)) and eh[i] == oh[i]:
          i += 1
        sig["observed"] = "bytes_differ"
        sig["first_diff"] = W.locate(stack, i)
        sig["length"] = "same" if len(oh) == len(eh) else "shorter" if len(oh) < len(eh) else "longer"
      elif obs.get("pay") != exp["pay"]:
        sig["observed"] = "payload:" + str(obs.get("pay"))
      return sig
    if st["a"] == "Parse":
      ev, ov = exp["view"], obs.get("view", [])
      sig["observed"] = "view_differs"
      for i in range(max(len(ev), len(ov))):
        e = ev[i] if i < len(ev) else {"p": "nothing"}
        o = ov[i] if i < len(ov) else {"p": "nothing"}
        if e != o:
          if e["p"] == o["p"]:
            sig["layer"] = e["p"]
            sig["fields"] = sorted(k for k in e if o.get(k) != e[k])
            if e["p"] == "tcp" and sig["fields"] == ["opts"]:
              sig.update(_opt_diff(e["opts"], o.get("opts")))
          else:
            sig["after"] = ev[i - 1]["p"] if i else "start"
            sig["expected_layer"] = e["p"]
            sig["observed_layer"] = o["p"]
          break
      return sig
    return sig


def _opt_diff(eo, oo):
  """which TCP option differs, and in which of its fields (kind / Multipath TCP subtype, not the values)"""
  if not isinstance(oo, list):
    return {}
  for j in range(max(len(eo), len(oo))):
    a = eo[j] if j < len(eo) else None
    b = oo[j] if j < len(oo) else None
    if a == b:
      continue
    if a is None or b is None or not isinstance(b, dict) or a["k"] != b.get("k"):
      return {"option": "list_differs"}
    out = {"option": "kind%d" % a["k"]}
    if a.get("f"):
      fa, fb = _fv(a["f"]), _fv(b.get("f") or [])
      out["option"] = "mptcp/%d" % a["f"][0]["v"][0]
      out["option_fields"] = sorted(n for n in set(fa) | set(fb) if fa.get(n) != fb.get(n))
    return out
  return {}


def _innermost(stack):
  ps = [L["p"] for L in stack if L["p"] not in ("raw", "rawb")]
  return ps[-1] if ps else "none"


def _where(tb):
  """innermost POX source location of an exception (file:function), from the traceback text"""
  loc = "?"
  for ln in tb.splitlines():
    ln = ln.strip()
    if ln.startswith("File ") and "/pox/" in ln:
      parts = ln.split(", ")
      f = parts[0].split("/pox/")[-1].rstrip('"')
      fn = parts[-1].replace("in ", "") if len(parts) >= 3 else "?"
      loc = "%s:%s" % (f, fn)
  return loc
