"""C03 adapter: Lookup.tla actions -> a real SoftwareSwitch.

Install  : FLOW_MOD(ADD) bytes (harness.rawbytes / c03_frames, struct only) through
           OFConnection.read -> ofp_flow_mod.unpack -> ofp_match.unpack(flow_mod=True)
           -> _rx_flow_mod -> FlowTable.add_entry.  Entry k outputs to port 2+k.
Packet   : raw Ethernet bytes -> ethernet(raw=...) -> SoftwareSwitch.rx_packet
           -> FlowTable.entry_for_packet -> ofp_match.from_packet / matches_with_wildcards.
           Observation: k if exactly one frame left through port 2+k and nothing was
           sent to the controller, 0 if nothing left and exactly one PACKET_IN
           (reason NO_MATCH, right in_port, data = the frame) was written.
ProbeAll : Packet for every frame of the catalog, in order.
"""
from harness import rawbytes as rb
from harness import c03_frames as cf
from harness.swharness import Harness, ethernet
from engine.core import Machinery

NPORTS = 14
OUT_BASE = 2


class SwHarness(Harness):
  """Only the output port is recorded: re-serialising the frame is C12/C14's subject."""
  def _on_out(self, e):
    self.emitted.append(e.port.port_no)

  def rx_raw(self, data, in_port):
    self.sw.rx_packet(ethernet(raw=data), in_port, packet_data=data)


def frame_class(x):
  c = []
  if x["tag"]:
    c.append("tagged")
  if x["l2"] != "eth2":
    c.append(x["l2"])
  if x["l3"] == "arp" and x["op"] > 255:
    c.append("arp_op_hi")
  if x["l3"] == "ip":
    if x["tos"] % 4:
      c.append("ecn")
    if x["frag"] != "no":
      c.append("frag")
    if x["opts"]:
      c.append("ipopts")
  return "+".join(c) or "plain"


def match_class(m):
  """what is unusual about a match (for signatures)"""
  c = []
  v = m["v"]
  wc = set(m["wc"])
  if "dl_type" in wc and v["dl_type"] in (0x0800, 0x0806):
    c.append("wild_dl_type_value_ip_or_arp")
  if "nw_proto" in wc and v["nw_proto"] in (1, 6, 17):
    c.append("wild_nw_proto_value_tp")
  if not wc and m["sbits"] == 0 and m["dbits"] == 0:
    c.append("wire_exact")
  return "+".join(c) or "ordinary"


class Adapter(object):
  def __init__(self, frames=None, pool=0, reserved=0):
    self.frames = frames or {}          # catalog name -> list of frame records
    self.pool = pool
    self.reserved = reserved
    self.h = SwHarness(dpid=1, ports=NPORTS, max_buffers=2, miss_send_len=128)
    self.h.send(rb.hello())
    if self.h.take_bytes() != b"":
      raise RuntimeError("unexpected bytes after hello")
    self.raw = {}
    self.tbl = {}          # k -> (m, prio), ours, for signatures only

  # -- one frame
  def _frame(self, x):
    key = id(x)
    if key not in self.raw:
      try:
        self.raw[key] = cf.frame_bytes(x, self.pool)
      except Exception as e:            # our own builder: never a verdict
        raise Machinery("frame builder failed on %r: %r" % (x, e))
    return self.raw[key]

  def inject(self, x):
    data = self._frame(x)
    try:
      self.h.rx_raw(data, x["port"])
    except Exception as e:              # the switch failed on this frame
      self.h.take_emitted()
      try:
        self.h.take_bytes()
      except Exception:
        pass
      return "EXC:" + type(e).__name__
    em = self.h.take_emitted()
    try:
      msgs = self.h.take_msgs()
    except rb.ParseError as e:
      return "unparseable-output"
    if len(em) == 1 and not msgs:
      p = em[0]
      return p - OUT_BASE if p > OUT_BASE else "out-port-%d" % p
    if not em and len(msgs) == 1 and msgs[0]["type"] == rb.PACKET_IN:
      m = msgs[0]
      if m["reason"] != 0:
        return "packet-in-reason-%d" % m["reason"]
      if m["in_port"] != x["port"]:
        return "packet-in-port-%d" % m["in_port"]
      if m["data"] != data[:len(m["data"])] or (len(m["data"]) < min(len(data), 128)):
        return "packet-in-data"
      return 0
    return "emitted=%d,msgs=%s" % (len(em), ",".join(m["name"] for m in msgs))

  def step(self, a, args):
    if a == "Install":
      k = args["k"]
      mb = cf.match_bytes(args["m"], self.pool, self.reserved)
      msgs = self.h.send(rb.flow_mod(mb, priority=args["prio"], actions=rb.a_output(OUT_BASE + k)))
      self.tbl[k] = (args["m"], args["prio"])
      r = {"n": len(self.h.sw.table)}
      if msgs:
        r["msgs"] = [m["name"] for m in msgs]
      return r
    if a == "Packet":
      x = args["x"]
      if isinstance(x, int):
        x = self.frames[args["g"]][x - 1]
      return {"out": self.inject(x)}
    if a == "ProbeAll":
      fr = self.frames[args["g"]]
      if args["n"] != len(fr):
        raise Machinery("frame catalog of the harness differs from the spec's")
      return {"outs": [self.inject(x) for x in fr]}
    raise ValueError(a)

  # the spec gives the SET of permitted answers; the real switch gives one
  def normalize(self, obs, exp):
    if "out" in obs and "outs" in exp and not isinstance(exp["outs"], list):
      return obs
    if "out" in obs and "outs" in exp:
      return exp if obs["out"] in exp["outs"] else obs
    if "outs" in obs and "outs" in exp and len(obs["outs"]) == len(exp["outs"]):
      if all(o in e for o, e in zip(obs["outs"], exp["outs"])):
        return exp
    return obs

  def _kind(self, o, e):
    if isinstance(o, str):
      return o.split(":")[0] if o.startswith("EXC") else "anomaly", o
    if o == 0:
      return "false_miss", ""
    if e == [0]:
      return "false_hit", ""
    return "wrong_entry", ""

  def signature(self, st, obs):
    sig = {"action": st["a"]}
    exp = st["exp"]
    if isinstance(obs, dict) and "EXC" in obs:
      sig["observed"] = "exception:" + obs["EXC"]
      return sig
    if st["a"] == "Install":
      sig["observed"] = "table_size_or_reply"
      return sig
    if st["a"] == "Packet":
      x = st["args"]["x"]
      x = self.frames[st["args"]["g"]][x - 1] if isinstance(x, int) else x
      pairs = [(x, obs.get("out"), exp["outs"])]
    else:
      pairs = [(x, o, e) for x, o, e in zip(self.frames[st["args"]["g"]], obs.get("outs", []), exp["outs"])
               if o not in e]
    if not pairs:
      sig["observed"] = "shape"
      return sig
    x, o, e = pairs[0]
    kind, detail = self._kind(o, e)
    sig["kind"] = kind
    if detail:
      sig["detail"] = detail
    sig["frame"] = frame_class(x)
    if len(self.tbl) == 1:
      sig["match"] = match_class(list(self.tbl.values())[0][0])
    else:
      # which expected entry lost: an exact one?
      ex = [k for k in e if k and match_class(self.tbl[k][0]).endswith("wire_exact")]
      sig["match"] = "table:%d" % len(self.tbl) + (":wire_exact_expected" if ex else "")
    return sig
