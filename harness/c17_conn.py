"""C17 environment: one real of_01.Connection on a scripted socket.

Everything the controller learns arrives as OpenFlow bytes (harness/rawbytes.py,
struct only) queued on a fake socket and read by the real `Connection.read()`,
so the real framing loop, the real libopenflow decoders, the real handshake /
connected-state handler tables and the real event machinery run.  Bytes the
controller writes are decoded with rawbytes.parse (the barrier xid is read from
them).  Every behaviour gets a fresh OpenFlowNexus + arbiter + Connection.
"""
from engine.core import Machinery
from harness import poxenv
from harness import rawbytes as rb

core = poxenv.boot()

import pox.openflow as ofmod                      # noqa: E402
import pox.openflow.of_01 as of_01                # noqa: E402
from pox.lib.addresses import EthAddr             # noqa: E402

ofmod.launch()
of_01.DeferredSender.start = lambda self: None
if of_01.deferredSender is None:
  of_01.deferredSender = of_01.DeferredSender()
poxenv.install_clock(of_01)


class FakeSock(object):
  """Scripted non-blocking TCP socket as seen by of_01.Connection."""

  def __init__(self):
    self.inq = []
    self.out = b""
    self.rdpos = 0
    self.closed = False
    self.shut = False

  def fileno(self):
    return 1717

  def setblocking(self, v):
    pass

  def getpeername(self):
    return ("10.0.0.17", 41717)

  def send(self, data):
    self.out += data
    return len(data)

  def recv(self, n, flags=0):
    if self.inq:
      d = self.inq.pop(0)
      if len(d) > n:
        self.inq.insert(0, d[n:])
        d = d[:n]
      return d
    return b""

  def shutdown(self, how):
    self.shut = True

  def close(self):
    self.closed = True


class Env(object):
  """Fresh nexus + arbiter + one Connection (still in handshake state)."""

  def __init__(self):
    old = core.components.get("openflow")
    if old is not None:
      try:
        core.removeListener(old._handle_DownEvent)
      except Exception:
        pass
    self.nexus = ofmod.OpenFlowNexus()
    core.components["openflow"] = self.nexus
    core.components["OpenFlowConnectionArbiter"] = ofmod.OpenFlowConnectionArbiter()
    of_01.Connection.ID = 0
    of_01.deferredSender.sending = False
    of_01.deferredSender._dataForConnection.clear()
    try:
      core.scheduler._ready.clear()
    except Exception:
      pass
    self.sock = FakeSock()
    self.con = of_01.Connection(self.sock)

  def feed(self, data, cuts=()):
    """Peer sends `data` (optionally split at the given offsets); the
    controller reads until the socket is drained.  Returns False when the
    controller gave the connection up."""
    pos = 0
    chunks = []
    for c in sorted(set(c for c in cuts if 0 < c < len(data))):
      chunks.append(data[pos:c])
      pos = c
    chunks.append(data[pos:])
    ok = True
    for ch in chunks:
      self.sock.inq.append(ch)
      while self.sock.inq:
        if self.con.read() is False:
          ok = False
          self.sock.inq = []
    return ok and not self.con.disconnected

  def written(self):
    data = self.sock.out[self.sock.rdpos:]
    self.sock.rdpos = len(self.sock.out)
    return rb.parse_stream(data)

  # -- handshake pieces
  def hello(self):
    self.feed(rb.hello())

  def features(self, dpid, ports, xid=0):
    self.feed(rb.features_reply(dpid, ports=ports, xid=xid))

  def barrier_xid(self):
    xs = [m["xid"] for m in self.written() if m["type"] == rb.BARRIER_REQUEST]
    if not xs:
      raise Machinery("the controller sent no barrier request after the features reply")
    return xs[-1]

  def connected(self):
    return self.con.connect_time is not None and not self.con.disconnected
