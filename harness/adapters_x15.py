"""X15 adapter: Boot.tla actions -> the real pox.boot._do_launch / pox.boot.boot.

A behaviour of the spec is ONE run of the boot code on one command line; its first step (Begin) carries the command
line as abstract tokens.  The adapter renders the tokens to strings (harness.x15_env.render), runs the real code
once on the synthetic component universe generated from the spec's catalog, and records what the code did as an
ordered event list:

  Core  [args]     pox.core.initialize was called with these arguments
  Imp   module     the body of a synthetic module ran (a real import happened)
  Call  {...}      a synthetic launch function was entered: module, function, every parameter with its type and
                   value, **kw, __INSTANCE__, and a snapshot of what it can see at that moment (the options
                   object, whether core.openflow exists, root log level, how the core was made, whether the
                   interactive shell component of boot()'s "py" is registered)
  Up               (boot) GoingUpEvent / UpEvent
  + the outcome: return value / SystemExit code / exception, the KIND of message printed and the name it mentions,
    and the state left behind.

Every following step of the behaviour is compared with the part of that record it accounts for, in order: InitCore
takes the Core event, Import the import of THAT component, LaunchCall the call of THAT component's function, the
step at which the spec says boot ends takes the outcome - but only if the outcome can be attributed to that step
(the message names that option / module / function / instance); `left` counts events nobody accounted for.  A
terminal observation also re-runs the command line from a fresh interpreter state and reports whether the two
records are identical (`same`).

The code runs to completion inside Begin (it is sequential and takes no input afterwards); the comparison is made
step by step.
"""
import json
import re

from engine.core import Machinery, canon
from harness import x15_env as xe

_UNIS = {}
_PATHS = [None]

QUIET = {"x": 0}
ARG_KINDS = ("no-param", "missing-param", "bad-call")

_RX = [
    ("opt", re.compile(r"^(?:Illegal|Unknown) option: (.*)$", re.M)),
    ("mod", re.compile(r"^(?:Module not found|Could not import module): (.*)$", re.M)),
    ("multi", re.compile(r"^(\S+) does not accept multiple instances$", re.M)),
    ("notfn", re.compile(r"^(\S+) in (\S+) isn't a function!$", re.M)),
    ("nofn", re.compile(r"^Module (\S+) has no (\S+)\(\), but it was specified or passed", re.M)),
    ("exec", re.compile(r"^Error executing (?:instance (\d+) of )?(\S+)\.(\w+):$", re.M)),
]


def universe(cat):
  k = canon(cat)
  if k not in _UNIS:
    _UNIS[k] = xe.Universe(cat)
  if _PATHS[0] is None:
    _PATHS[0] = xe.setup_paths()
  return _UNIS[k], _PATHS[0]


def details(out):
  d = {}
  for k, rx in _RX:
    m = rx.search(out)
    if m:
      d[k] = m.groups()
  return d


class Adapter(object):
  def __init__(self, cat=None, seed=0, rerun=True):
    if cat is None:
      raise Machinery("no catalog")
    self.cat = cat
    self.seed = seed
    self.rerun = rerun
    self.uni, self.paths = universe(cat)
    self.run = None

  # ---- the run
  def _begin(self, args):
    self.tokens = args["argv"]
    self.via = args["via"]
    self.existing = bool(args["existing"])
    self.strings = xe.render(self.tokens, self.cat, self.seed, self.paths)
    self.run = xe.Run(self.uni, self.strings, via=self.via, existing=self.existing, paths=self.paths).execute()
    if self.run.leaked_threads:
      raise Machinery("the run left %d threads behind" % self.run.leaked_threads)
    self.q = list(self.run.events)
    self.det = details(self.run.out)
    self.inner = xe.INNER in self.run.out or xe.INNER in self.run.err
    self.ended = False
    self.seen = {}          # (n, f) -> launch steps of that spelling so far
    return QUIET

  def _names(self, n):
    p = self.cat[n]["path"] if n in self.cat else n
    return ("pox." + p, p)

  def _end(self):
    """the outcome, as the spec's EndObs"""
    self.ended = True
    r = self.run
    same = True
    if self.rerun:
      r2 = xe.Run(self.uni, self.strings, via=self.via, existing=self.existing, paths=self.paths).execute()
      same = canon(r2.summary()) == canon(r.summary())
    return {"res": r.result, "msg": r.msg, "opts": r.final["opts"], "of": r.final["of"], "dbg": r.final["dbg"],
            "py": r.final["py"], "left": len(self.q), "same": same}

  def _failed(self):
    return self.run.result not in ("true", "up")

  def _idx(self, args):
    return self.seen.get((args["n"], args["f"]), 0)

  def _exec_is(self, args):
    """does the 'Error executing ...' report name this mention (module.function, instance number)?"""
    g = self.det.get("exec")
    if not g:
      return False
    fn = args["f"] or "launch"
    return g[1] in self._names(args["n"]) and g[2] == fn and int(g[0] or 1) == self._idx(args) + 1

  # ---- steps
  def step(self, a, args):
    if a == "Begin":
      return self._begin(args)
    if self.run is None:
      raise Machinery("step before Begin")
    if self.ended:
      return {"after-end": a}
    r = self.run
    if a in ("InsertPy", "ParseComponent", "ParseOption", "ImportSkip"):
      return QUIET
    if a == "SetOption":
      k = args["k"]
      if not self.q or self.q == [["Core", ["default"]]]:
        if r.msg in ("illegal-option", "unknown-option") and self.det.get("opt", ("",))[0] == k:
          return self._end()
        if r.msg == "help" and k in ("h", "help"):
          return self._end()
        if r.msg == "version" and k == "version":
          obs = {"core": self.q.pop(0)[1]} if self.q else {"core": ["none"]}
          obs.update(self._end())
          return obs
      return QUIET
    if a == "InitCore":
      if self.q and self.q[0][0] == "Core":
        return {"core": self.q.pop(0)[1]}
      return {"core": ["existing"] if self.existing else ["none"]}
    if a == "PreStartup":
      if not self.q and r.msg == "no-logcfg":
        return self._end()
      return QUIET
    if a == "Import":
      obs = {"ev": []}
      if self.q and self.q[0][0] == "Imp" and self.q[0][1] in self._names(args["n"]):
        obs["ev"].append(self.q.pop(0)[1])
      if not self.q and r.msg in ("not-found", "import-failed") and \
         self.det.get("mod", ("",))[0] == self.cat[args["n"]]["path"]:
        obs.update(self._end())
      return obs
    if a.startswith("Launch"):
      return self._launch(a, args)
    if a == "Finish":
      if self.via == "boot":
        return QUIET
      if not self._failed():
        return self._end()
      return {"not-finished": r.result}
    if a == "GoUp":
      obs = {"up": []}
      while self.q and self.q[0][0] == "Up":
        obs["up"].append(self.q.pop(0)[1])
      if not self._failed():
        obs.update(self._end())
      return obs
    raise Machinery("unknown action %r" % a)

  def _launch(self, a, args):
    r = self.run
    key = (args["n"], args["f"])
    names = self._names(args["n"])
    fn = args["f"] or "launch"
    real = self.cat[args["n"]]["loc"] == "real"
    obs = {}
    nxt = self.q[0] if self.q else None
    mine = nxt is not None and nxt[0] == "Call" and nxt[1]["mod"] in names and nxt[1]["fn"] == fn
    if a == "LaunchCall":
      if real:
        obs.update(QUIET)
      elif mine:
        obs["call"] = self.q.pop(0)[1]
      else:
        obs["call"] = "none"
      if not self.q and self._failed() and (r.msg in ("-", "exception") or
                                           (r.msg in ARG_KINDS and self.inner and self._exec_is(args))):
        obs.update(self._end())
    else:
      if mine:
        obs["call"] = self.q.pop(0)[1]          # a call the spec does not expect here
      if not self.q and self._failed():
        d = self.det
        if a == "LaunchNoFunction" and r.msg == "no-function" and d.get("nofn") and \
           d["nofn"][0] in names and d["nofn"][1] == fn:
          obs.update(self._end())
        elif a == "LaunchNotFunction" and r.msg == "not-function" and d.get("notfn") and \
            d["notfn"][1] in names and d["notfn"][0] == fn:
          obs.update(self._end())
        elif a == "LaunchRefuseMultiple" and r.msg == "multiple" and d.get("multi") and d["multi"][0] in names:
          obs.update(self._end())
        elif a == "LaunchBadArgs" and r.msg in ARG_KINDS and not self.inner and self._exec_is(args):
          obs.update(self._end())
      if not obs:
        obs = dict(QUIET)
    self.seen[key] = self.seen.get(key, 0) + 1
    return obs

  def close(self):
    self.run = None

  def signature(self, st, obs):
    exp = st.get("exp") or {}
    sig = {"action": st["a"]}
    if isinstance(exp, dict) and "res" in exp:
      sig["exp_res"] = exp["res"]
      sig["exp_msg"] = exp["msg"]
    if isinstance(obs, dict):
      if "res" in obs:
        sig["obs_res"] = obs["res"]
        sig["obs_msg"] = obs["msg"]
        if isinstance(exp, dict) and "res" in exp:
          sig["differs"] = sorted(k for k in set(exp) | set(obs) if exp.get(k) != obs.get(k))
      if "EXC" in obs:
        sig["exc"] = obs["EXC"]
      if "call" in obs and isinstance(exp, dict) and exp.get("call") != obs.get("call"):
        c, e = obs["call"], exp.get("call")
        if isinstance(c, dict) and isinstance(e, dict):
          sig["call_differs"] = sorted(k for k in set(c) | set(e) if c.get(k) != e.get(k))
        else:
          sig["call"] = c if isinstance(c, str) else "unexpected"
      if "ev" in obs and isinstance(exp, dict) and exp.get("ev") != obs.get("ev"):
        sig["ev"] = "differs"
      if "core" in obs and isinstance(exp, dict) and exp.get("core") != obs.get("core"):
        sig["core"] = "differs"
    if st["a"].startswith("Launch") or st["a"] == "Import":
      sig["n"] = (st.get("args") or {}).get("n")
    return sig


def record(cat, tokens, via="launch", existing=False, seed=0):
  """code -> spec: run the real code on a command line and return the trace TraceBoot.tla validates"""
  uni, paths = universe(cat)
  strings = xe.render(tokens, cat, seed, paths)
  r = xe.Run(uni, strings, via=via, existing=existing, paths=paths).execute()
  if r.leaked_threads:
    raise Machinery("the run left %d threads behind" % r.leaked_threads)
  r2 = xe.Run(uni, strings, via=via, existing=existing, paths=paths).execute()
  ev = []
  ups = []
  for k, v in r.events:
    if k == "Up":
      ups.append(v)
      continue
    if ups:
      ev.append({"k": "Up", "s": ups})
      ups = []
    if k == "Call":
      ev.append({"k": "Call", "call": v})
    else:
      ev.append({"k": k, "s": v if isinstance(v, list) else [v]})
  if ups:
    ev.append({"k": "Up", "s": ups})
  ev.append({"k": "End", "end": {"res": r.result, "msg": r.msg, "opts": r.final["opts"], "of": r.final["of"],
                                 "dbg": r.final["dbg"], "py": r.final["py"],
                                 "same": canon(r2.summary()) == canon(r.summary())}})
  return {"argv": tokens, "via": via, "existing": bool(existing), "ev": ev, "strings": strings}
