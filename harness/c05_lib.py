"""C05 helpers: coverage parsing, replay with TLC as arbiter, random driver."""
import copy
import random
import re

from engine import core, tlc, tracecheck

ADAPTER = "harness.adapters_c05:Adapter"
ACTIONS = ["Subscribe", "AutoBind", "Unsubscribe", "UnsubscribeMany", "ClearAll",
           "DropOwner", "RaiseBegin", "Return", "RaiseSimple"]

# TLC prints "<Name line a, col b to line c, col d of module M (l c l c)>: x:y"
# for actions whose body is a LET; engine/tlc.py only parses the form without
# the parenthesised suffix.  Parse both here.
_cov = re.compile(r"^<(\w+) line \d+, col \d+ to line \d+, col \d+ of module (\w+)"
                  r"(?: \([\d ]+\))?>: (\d+):(\d+)")


def fix_coverage(res):
  cov = {}
  for ln in res.stdout.splitlines():
    m = _cov.match(ln)
    if m:
      old = cov.get(m.group(1), (0, 0))
      cov[m.group(1)] = (old[0] + int(m.group(3)), old[1] + int(m.group(4)))
  res.coverage = cov
  return res


def report(ctx, sig, rep, per_signature=3):
  """ctx.report, but at most a few cases per distinct signature: the engine
  keeps replay files only for the first 50 violations, and one defect easily
  produces thousands, which would hide the other signatures."""
  seen = ctx.notes.setdefault("violations_by_signature", {})
  k = core.canon(sig)
  seen[k] = seen.get(k, 0) + 1
  if seen[k] <= per_signature:
    return ctx.report(sig, rep)
  return "duplicate"


class _Collect(object):
  """Stands in for the Context during core.replay: collects the mismatches
  so that TLC can arbitrate them before anything is reported."""
  def __init__(self, ctx):
    self.ctx = ctx
    self.traces = 0
    self.mism = []

  def case(self, *a, **kw):
    return self.ctx.case(*a, **kw)

  def report(self, sig, rep):
    self.mism.append((sig, rep))
    return "collected"


def replay(ctx, behaviours, params, trace_cfg, chunk=200):
  """Replay exported behaviours.  A step whose observation differs from the
  exported expectation (and from every exported alternative with the same
  prefix) is not yet a verdict: the spec has choices that the observations do
  not reveal (two subscriptions of the same handler), so the exported
  alternatives need not be complete for THIS history.  The run as observed
  (matched prefix + the differing observation) is handed to TLC, which
  decides whether it is a behaviour of Revent.tla."""
  col = _Collect(ctx)
  st = core.replay(col, ADAPTER, behaviours, params=params, chunk=chunk)
  ctx.traces += col.traces
  st["tlc_arbitrated"] = 0
  st["tlc_accepted"] = 0
  pending = []
  for sig, rep in col.mism:
    rep = dict(rep, params=dict(rep.get("params") or {}, arbiter=trace_cfg))
    obs = rep["observed"]
    if not isinstance(obs, dict) or "EXC" in obs or set(obs) != set(rep["expected"]):
      report(ctx, sig, rep)         # an exception / malformed observation
      continue
    pending.append((sig, rep))
  if pending:
    traces = []
    for sig, rep in pending:
      i = rep["failing_step"]
      tr = [dict(a=s["a"], args=s["args"], obs=s["exp"], wf=True)
            for s in rep["behaviour"][:i]]
      s = rep["behaviour"][i]
      tr.append(dict(a=s["a"], args=s["args"], obs=rep["observed"], wf=True))
      traces.append(tr)
    r, rej = tracecheck.validate("revent", "TraceRevent", trace_cfg, traces, tag="C05")
    bad = dict(rej)
    st["tlc_arbitrated"] = len(traces)
    for k, (sig, rep) in enumerate(pending):
      if k in bad:
        rep = dict(rep, tlc="observed run rejected by TraceRevent at event %d" % bad[k])
        report(ctx, sig, rep)
      else:
        st["tlc_accepted"] += 1
  st["violating"] = st["mismatch"] - st["tlc_accepted"]
  return st


# ---------------------------------------------------------------------------
# code -> spec: random driver

RVS = ["none", "none", "none", "true", "false", "cont", "halt", "remove",
       "haltremove", "empty", "throw", "throwb"]
MODES = ["handler", "handlerT", "eid", "eidT", "pair"]


def drive(arg):
  """One random command sequence on the real code; returns the trace."""
  seed, n, types, hook, prios, decl = arg
  from harness.adapters_c05 import Adapter
  rnd = random.Random(seed)
  ad = Adapter(types=types, hook=hook, prios=prios, decl=decl)
  owners = ["o1", "o2", "o3"]
  alive = list(owners)
  strong_ever = set()       # owners that ever had a strong subscription
  had_sub = set()
  running = []              # owners of the handlers running, innermost last
  nsub = 0
  last_auto = 0             # spec id of the first subscription of the last AutoBind
  tr = []
  alltypes = list(types) + ["U"]
  weak_owner = rnd.choice(owners + ["none"])   # only ever subscribed weakly: may die
  try:
    for _ in range(n):
      depth = len(running)
      k = rnd.random()
      a = None
      if depth and k < 0.30:
        a, args = "Return", dict(rv=rnd.choice(RVS))
      elif k < 0.22:
        t = rnd.choice(alltypes) if rnd.random() < 0.1 else rnd.choice(types)
        a, args = "RaiseBegin", dict(t=t, form=rnd.choice(["inst", "cls"]),
                                     noerr=rnd.random() < 0.4)
      elif k < 0.50 and alive:
        t = rnd.choice(alltypes) if rnd.random() < 0.1 else rnd.choice(types)
        o = rnd.choice(alive)
        weak = o == weak_owner or rnd.random() < 0.2
        a, args = "Subscribe", dict(t=t, o=o, prio=rnd.choice([0, 1, 1, 2]),
                                    once=rnd.random() < 0.3, weak=weak,
                                    byName=rnd.random() < 0.3)
      elif k < 0.53 and alive:
        o = rnd.choice(alive)
        weak = o == weak_owner or rnd.random() < 0.3
        a, args = "AutoBind", dict(o=o, prio=rnd.choice([1, 2]), weak=weak,
                                   prefix=rnd.choice(["", "", "", "other"]))
      elif k < 0.575:
        # removeListeners(list): mixed forms, live / stale / never-issued /
        # duplicate entries, or exactly what the last autoBind returned
        if last_auto and rnd.random() < 0.3:
          items = [dict(mode="pair", o="-", m="-", t=t, id=last_auto + i)
                   for i, t in enumerate(sorted(types))]
          if rnd.random() < 0.3:
            rnd.shuffle(items)
        else:
          items = []
          for _i in range(rnd.choice([0, 1, 2, 2, 2, 3, 3, 4])):
            mode = rnd.choice(["handler", "eid", "pair"])
            it = dict(mode=mode, o="-", m="-", t="-", id=0)
            if mode == "handler" and alive:
              it["o"] = rnd.choice(alive)
              it["m"] = rnd.choice(["h", "h", rnd.choice(types), "o" + rnd.choice(types)])
            else:
              if mode == "handler":
                it["mode"] = mode = "eid"
              it["id"] = rnd.randint(max(1, nsub - 4), nsub + 1)
              if mode == "pair":
                it["t"] = rnd.choice(types)
            items.append(it)
        a, args = "UnsubscribeMany", dict(items=items)
      elif k < 0.583:
        a, args = "ClearAll", dict(x=0)
      elif k < 0.65:
        mode = rnd.choice(MODES)
        args = dict(mode=mode, o="-", m="-", t="-", id=0)
        if mode in ("handler", "handlerT"):
          if not alive:
            continue
          args["o"] = rnd.choice(alive)
          args["m"] = rnd.choice(["h", "h", "h", "h", rnd.choice(types), rnd.choice(types),
                                  "o" + rnd.choice(types)])
        else:
          args["id"] = rnd.randint(max(1, nsub - 5), nsub + 1)
        if mode in ("handlerT", "eidT", "pair"):
          args["t"] = rnd.choice(types)
        a = "Unsubscribe"
      elif k < 0.70:
        cand = [o for o in alive if o not in strong_ever and o in had_sub
                and o not in running]
        if not cand:
          continue
        a, args = "DropOwner", dict(o=rnd.choice(cand))
      elif k < 0.88 and depth < 3:
        t = rnd.choice(alltypes) if rnd.random() < 0.1 else rnd.choice(types)
        a, args = "RaiseBegin", dict(t=t, form=rnd.choice(["inst", "cls"]),
                                     noerr=rnd.random() < 0.4)
      else:
        t = rnd.choice(alltypes) if rnd.random() < 0.1 else rnd.choice(types)
        a, args = "RaiseSimple", dict(t=t, form=rnd.choice(["inst", "cls"]))
      obs = ad.step(a, args)
      wf = isinstance(obs, dict) and "EXC" not in obs and \
          set(obs) == {"k", "o", "m", "res", "halt", "id", "alt", "n", "seq"}
      if not wf:
        exc = obs.get("EXC", "malformed") if isinstance(obs, dict) else "malformed"
        tr.append(dict(a=a, args=args, wf=False, exc=str(exc),
                       obs=dict(k="EXC", o="-", m="-", res=str(exc), halt=False,
                                id=0, alt=False, n=0, seq=[])))
        break
      tr.append(dict(a=a, args=args, obs=obs, wf=True, exc=""))
      # driver bookkeeping (only what it needs to stay inside the spec's
      # enabling conditions; never used for a verdict)
      if a == "Subscribe" and obs["k"] == "sub":
        nsub += 1
        had_sub.add(args["o"])
        if not args["weak"]:
          strong_ever.add(args["o"])
      elif a == "AutoBind" and obs["k"] == "auto":
        last_auto = nsub + 1
        nsub += len(types)
        had_sub.add(args["o"])
        if not args["weak"]:
          strong_ever.add(args["o"])
      elif a == "DropOwner":
        alive.remove(args["o"])
      if obs["k"] == "inv":
        if a == "Return":
          running.pop()
        running.append(obs["o"])
      elif obs["k"] == "end" and a == "Return":
        running.pop()
      elif obs["k"] == "rejected" and a == "Return":
        running.pop()
  finally:
    ad.close()
  return tr


def trace_signature(ev):
  a = ev["a"]
  args = ev["args"]
  sig = {"action": a, "via": "trace"}
  if not ev["wf"]:
    sig["observed"] = "exception:" + ev.get("exc", "")
  else:
    sig["observed"] = ev["obs"]["k"]
  if a == "Unsubscribe":
    sig["mode"] = args["mode"]
  if a == "AutoBind":
    sig["prefix"] = args.get("prefix", "")
    sig["weak"] = args["weak"]
  if a == "UnsubscribeMany":
    sig["modes"] = sorted(set(it["mode"] for it in args["items"]))
  if a == "Subscribe":
    sig["weak"] = args["weak"]
  if a in ("RaiseBegin", "RaiseSimple"):
    sig["form"] = args["form"]
  if a == "Return":
    sig["rv"] = args["rv"]
  return sig


def corrupt(trace):
  """Negative control: flip one observation of an accepted trace."""
  bad = copy.deepcopy(trace)
  for e in bad:
    if e["obs"]["k"] == "inv":
      e["obs"]["o"] = {"o1": "o2", "o2": "o3", "o3": "o1"}[e["obs"]["o"]]
      return bad
  for e in bad:
    if e["wf"]:
      e["obs"]["n"] += 1
      return bad
  return None
