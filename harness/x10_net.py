"""X10 network harness: the real pox.openflow.spanning_forest over real switches.

  SoftwareSwitch (real) --OFConnection/IOWorker (real)--+
                                                         | bytes, held per switch until deliver()
  SpanningForest (real) <-- events -- of_01.Connection (real) <-- OpenFlowNexus (real)
        ^
        +-- LinkEvents: synthetic (raised on a stand-in discovery component with the real LinkEvent / Link
            classes) or produced by the real Discovery from real LLDP frames over simulated wires

* Substrate reused read-only from harness/c19_netsim.py: `Node` (one real SoftwareSwitch with named ports),
  `CtlSock` (controller end of the TCP session), the scheduler/virtual-clock recipe.
* Controller -> switch bytes are TAPPED (every byte the controller writes is kept for decoding by
  harness/rawbytes.py) and, after the handshake, HELD in the socket until `deliver(dpid)`: the OpenFlow
  channel is asynchronous, a disconnect loses what is in flight.  Switch -> controller bytes are delivered
  at once.
* Time: `advance(d)` moves the virtual clock, firing recoco timers at their exact virtual times (the
  component's `Timer(1, _handle_timer)` chain); whether the component's timer fired is read off the identity
  of `SpanningForest.t` (a new Timer object per firing) - the code under test is not wrapped.
* Exceptions inside event handlers (swallowed by revent) are recorded through revent's public hook.

Nothing here decides anything: it drives the real code and hands back what happened.
"""
import select as _select

from harness import poxenv
from harness import rawbytes as rb
from harness import c19_netsim as c19            # substrate (read-only reuse)

core = c19.core

import pox.openflow as ofmod                                  # noqa: E402
import pox.openflow.of_01 as of_01                            # noqa: E402
import pox.openflow.libopenflow_01 as of                      # noqa: E402
import pox.lib.recoco.recoco as recoco                        # noqa: E402
import pox.lib.revent.revent as reventmod                     # noqa: E402
from pox.lib.revent import EventMixin                         # noqa: E402
from pox.lib.ioworker import IOWorker                         # noqa: E402
from pox.datapaths import switch as swmod                     # noqa: E402
from pox.openflow import flow_table as ftmod                  # noqa: E402
from pox.lib.packet.ethernet import ethernet                  # noqa: E402
from pox.lib.addresses import EthAddr                         # noqa: E402
import pox.openflow.discovery as discmod                      # noqa: E402
import pox.openflow.spanning_forest as sfmod                  # noqa: E402

clock = poxenv.install_clock(recoco, of_01, discmod, sfmod, swmod, ftmod)

NO_FLOOD = 1 << 4
NO_FWD = 1 << 5
MASK = NO_FLOOD | NO_FWD
T0 = 1000.0

SimError = c19.SimError
Horizon = c19.Horizon


class StubDiscovery(EventMixin):
  """Stands where core.openflow_discovery stands: source of LinkEvents, owner of send_cycle_time."""
  _eventMixin_events = set([discmod.LinkEvent])

  def __init__(self, send_cycle_time):
    self.send_cycle_time = send_cycle_time


class TapSock(c19.CtlSock):
  def __init__(self, name):
    c19.CtlSock.__init__(self, name)
    self.tapped = b""            # everything the controller ever wrote on this session

  def send(self, data):
    n = c19.CtlSock.send(self, data)
    self.tapped += data[:n]
    return n


class FNet(object):
  def __init__(self, dpids, ports, mode="stable", cycle=5.0, real_discovery=False, link_timeout=None):
    """dpids: list of datapath ids; ports: dict dpid -> list of port numbers the switch starts with."""
    self.dpids = list(dpids)
    self._idx = {d: i + 1 for i, d in enumerate(self.dpids)}
    self.frames = []
    self.host_rx = []
    self.phys = set()            # directed wires (d1, p1, d2, p2) that are up (real-discovery mode)
    self.handler_errors = []
    self.events = []             # event log of the component's inputs (real-discovery mode)
    self.real = real_discovery
    self.mode = mode
    self._reset_controller(mode, cycle, link_timeout)
    self.nodes = {d: c19.Node(self, d, ports[d]) for d in self.dpids}
    self._marks = {}

  def index_of(self, dpid):
    return self._idx[dpid]

  # ---------------------------------------------------------- controller
  def _reset_controller(self, mode, cycle, link_timeout):
    sched = core.scheduler
    hub = sched._selectHub
    self.sched, self.hub = sched, hub
    hub._select_func = self._vselect
    sched._ready.clear()
    for t in list(hub._tasks):
      if isinstance(t, recoco.Timer):
        t._cancelled = True
        del hub._tasks[t]
    keep = []
    while not hub._incoming.empty():
      it = hub._incoming.get(True)
      hub._incoming.task_done()
      if not isinstance(it[0], recoco.Timer):
        keep.append(it)
    for it in keep:
      hub._incoming.put(it)
    clock.now = T0
    self._target = T0
    old = core.components.get("openflow")
    if old is not None:
      try:
        core.removeListener(old._handle_DownEvent)
      except Exception:
        pass
    self.nexus = ofmod.OpenFlowNexus()
    core.components["openflow"] = self.nexus
    core.components["OpenFlowConnectionArbiter"] = ofmod.OpenFlowConnectionArbiter()
    core.components.pop("openflow_discovery", None)
    core.components.pop("SpanningForest", None)
    of_01.Connection.ID = 0
    reventmod.handleEventException = self._on_handler_exception
    if self.real:
      kw = {}
      if link_timeout is not None:
        kw["link_timeout"] = link_timeout
      discmod.launch(**kw)
      self.disc = core.components["openflow_discovery"]
    else:
      self.disc = StubDiscovery(cycle)
      core.components["openflow_discovery"] = self.disc
    # listeners that see the component's inputs BEFORE the component does (event log, real mode)
    self.disc.addListenerByName("LinkEvent", self._on_link_event, priority=1000000)
    sfmod.launch(mode=mode)
    self.sf = core.components.get("SpanningForest")
    if self.sf is None or self.sf.t is None:
      raise SimError("SpanningForest did not start")
    if not self.disc._eventMixin_handlers.get(discmod.LinkEvent):
      raise SimError("spanning_forest did not attach to discovery")
    self._last_t = self.sf.t
    self.ticks = 0

  def _on_handler_exception(self, source, event, args, kw, exc_info):
    self.handler_errors.append(exc_info[0].__name__)

  def _on_link_event(self, e):
    l = e.link
    self.events.append(["add" if e.added else "rem", l.dpid1, l.port1, l.dpid2, l.port2])

  # ---------------------------------------------------------- time
  def _vselect(self, r, w, x, timeout):
    ro, wo, xo = _select.select(list(r), list(w), list(x), 0)
    if ro or wo or xo:
      return ro, wo, xo
    if timeout is None:
      raise Horizon()
    if clock.now + timeout > self._target:
      raise Horizon()
    clock.advance(timeout)
    return [], [], []

  def _run_ready(self):
    busy = False
    while self.sched._ready:
      self.sched.cycle()
      busy = True
      self._after_task()
    return busy

  def _after_task(self):
    if self.sf.t is not self._last_t:
      self._last_t = self.sf.t
      self.ticks += 1
      if self.on_tick is not None:
        self.on_tick()
    elif self.after_task is not None:
      self.after_task()

  on_tick = None
  after_task = None

  def _settle(self):
    for _ in range(100000):
      busy = self._run_ready()
      if self.pump_up():
        busy = True
      if not busy:
        return
    raise SimError("x10 net did not settle")

  def advance(self, d):
    """let virtual time pass; timers fire at their exact virtual times"""
    self._target = clock.now + d
    for _ in range(1000000):
      self._settle()
      try:
        self.hub._select(self.hub._tasks, {})
      except Horizon:
        if not self.sched._ready:
          break
    else:
      raise SimError("advance: too many timer steps")
    self._settle()
    clock.now = self._target

  # ---------------------------------------------------------- bytes
  def _up_node(self, n):
    """switch -> controller bytes of one node; returns True if something moved"""
    moved = False
    while n.con is not None and n.worker is not None and n.worker.send_buf:
      data, n.worker.send_buf = n.worker.send_buf, b""
      n.sock.inq.append(data)
      while n.sock.inq:
        if n.con.read() is False:
          n.con.close()
          break
      moved = True
    return moved

  def pump_up(self):
    """deliver everything the switches wrote (and frames on wires, real-discovery mode)"""
    moved = False
    for _ in range(100000):
      again = False
      for n in list(self.nodes.values()):
        if self._up_node(n):
          again = True
      while self.frames:
        d, p, fr = self.frames.pop(0)
        self._deliver_frame(d, p, fr)
        again = True
      if not again:
        return moved
      moved = True
    raise SimError("pump_up did not reach quiescence")

  def _deliver_frame(self, d, p, fr):
    for l in self.phys:
      if l[0] == d and l[1] == p:
        if l[3] in self.nodes[l[2]].sw.ports:
          self.nodes[l[2]].sw.rx_packet(ethernet(raw=fr), l[3])
        return
    self.host_rx.append((d, p, fr))

  def pending(self, dpid):
    n = self.nodes[dpid]
    return n.con is not None and bool(n.sock.out)

  def deliver(self, dpid):
    """the switch receives everything the controller has written so far (not what the controller writes in
    reaction to what happens then), and answers"""
    n = self.nodes[dpid]
    if n.con is None:
      raise SimError("deliver: not connected")
    data, n.sock.out = n.sock.out, b""
    if data:
      n.worker._push_receive_data(data)
    self._settle()

  # ---------------------------------------------------------- environment
  def switch_up(self, dpid, fresh=False):
    n = self.nodes[dpid]
    if n.con is not None:
      raise SimError("already connected")
    if fresh:
      n = self._reboot(n)
    n.worker = IOWorker()
    n.worker.socket = c19.SwSock()
    ofc = swmod.OFConnection(n.worker)
    n.sw.set_connection(ofc)
    n.sock = TapSock("s%d" % self._idx[dpid])
    n.con = of_01.Connection(n.sock)
    n.hs_len = None
    for _ in range(1000):
      if n.con.connect_time is not None:
        break
      moved = False
      if n.sock.out:
        data, n.sock.out = n.sock.out, b""
        n.worker._push_receive_data(data)
        moved = True
      # what the controller had written when the handshake completed is handshake; the rest is the
      # components' reaction to ConnectionUp
      before = len(n.sock.tapped)
      if self._up_node_hs(n):
        moved = True
      if n.con is not None and n.con.connect_time is not None and n.hs_len is None:
        n.hs_len = before
      if not moved:
        break
    if self.nexus.getConnection(dpid) is not n.con or n.con.connect_time is None:
      raise SimError("handshake did not complete for %x" % dpid)
    self._settle()

  def _up_node_hs(self, n):
    """like _up_node, but one read at a time so that the handshake's end can be located in the tap"""
    moved = False
    while n.con is not None and n.worker.send_buf:
      data, n.worker.send_buf = n.worker.send_buf, b""
      n.sock.inq.append(data)
      while n.sock.inq:
        before = len(n.sock.tapped)
        if n.con.read() is False:
          n.con.close()
          break
        if n.con.connect_time is not None and n.hs_len is None:
          n.hs_len = before
      moved = True
    return moved

  def _reboot(self, old):
    """a switch that restarts comes back with its default port configuration"""
    n = c19.Node(self, old.dpid, [])
    for no, p in sorted(old.sw.ports.items()):
      q = of.ofp_phy_port()
      q.port_no, q.hw_addr, q.name = p.port_no, p.hw_addr, p.name
      q.config = 0
      q.state = p.state
      q.curr = q.advertised = q.supported = q.peer = p.curr
      n.sw.add_port(q)
    n.port_nos = sorted(n.sw.ports)
    self.nodes[old.dpid] = n
    return n

  def switch_down(self, dpid):
    n = self.nodes[dpid]
    if n.con is None:
      raise SimError("not connected")
    n.sock.eof = True
    n.sock.inq = []
    con = n.con
    if con.read() is False:           # what the of_01 loop does on EOF
      con.close()
    n.sw._connection = None
    n.con = None
    n.worker = None
    self._settle()

  def link_event(self, added, d1, p1, d2, p2):
    self.disc.raiseEventNoErrors(discmod.LinkEvent, bool(added), discmod.Link(d1, p1, d2, p2))
    self._settle()

  def _phy(self, dpid, no):
    pp = of.ofp_phy_port()
    pp.port_no = no
    import struct
    pp.hw_addr = EthAddr(struct.pack("!BBHH", 0x02, 0xc1, self._idx[dpid] & 0xffff, no & 0xffff))
    pp.name = "s%d-p%d" % (self._idx[dpid], no)
    pp.config = 0
    pp.curr = pp.advertised = pp.supported = pp.peer = of.OFPPF_10MB_HD
    return pp

  def port_add(self, dpid, no):
    n = self.nodes[dpid]
    n.sw.add_port(self._phy(dpid, no))
    n.port_nos = sorted(n.sw.ports)
    self._settle()

  def port_del(self, dpid, no):
    n = self.nodes[dpid]
    n.sw.delete_port(no)
    n.port_nos = sorted(n.sw.ports)
    self._settle()

  def port_link(self, dpid, no, up):
    n = self.nodes[dpid]
    p = n.sw.ports[no]
    if up:
      p.state &= ~of.OFPPS_LINK_DOWN
    else:
      p.state |= of.OFPPS_LINK_DOWN
    n.sw.send_port_status(p, of.OFPPR_MODIFY)
    self._settle()

  def wire_up(self, l):
    self.phys.add(tuple(l))

  def wire_down(self, l):
    self.phys.discard(tuple(l))

  # ---------------------------------------------------------- projections
  def mark(self):
    """remember how much the controller has written to every session"""
    self._marks = {d: (n.sock, len(n.sock.tapped)) for d, n in self.nodes.items() if n.con is not None}

  def sent_since_mark(self):
    """{dpid: [decoded messages]} the controller wrote since mark() (new sessions: since their handshake)"""
    out = {}
    for d, n in self.nodes.items():
      if n.sock is None:
        continue
      m = self._marks.get(d)
      if m is not None and m[0] is n.sock:
        start = m[1]
      else:
        start = n.hs_len if getattr(n, "hs_len", None) is not None else 0
      if n.con is None and not (m is not None and m[0] is n.sock):
        continue
      data = n.sock.tapped[start:]
      if data:
        out[d] = rb.parse_stream(data)
    return out

  def hw_addr(self, dpid, no):
    p = self.nodes[dpid].sw.ports.get(no)
    return None if p is None else p.hw_addr.toRaw().hex()

  def switch_cfg(self, dpid):
    """NO_FLOOD / NO_FWD bits as they are ON THE SWITCH: {port: bits}"""
    return {no: (p.config & MASK) for no, p in self.nodes[dpid].sw.ports.items()}

  def tree(self):
    """the component's own idea of the tree: [d1, p1, d2, p2] of LinkData marked on_tree"""
    t1 = sorted(list(l.link) for l in self.sf.topo.tree_links)
    t2 = sorted(list(l.link) for l in self.sf.topo.iterlinks() if l.on_tree)
    if t1 != t2:
      raise SimError("tree_links and on_tree flags disagree")
    return t1

  def take_errors(self):
    e, self.handler_errors = self.handler_errors, []
    return e

  def take_events(self):
    e, self.events = self.events, []
    return e

  def close(self):
    for n in self.nodes.values():
      if n.con is not None:
        try:
          n.sock.eof = True
          n.con.close()
        except Exception:
          pass
        n.con = None
