"""X04 substrate: a fresh real recoco Scheduler/SelectHub per behaviour, stepped by the harness under the
virtual clock (same recipe as harness/adapters_c06.py, which is reused for the quiet print/traceback shims
and the thread stand-ins).

Time never moves inside the scheduler here: `run_instant` runs Scheduler.cycle() / SelectHub._select() for as
long as there is something to do AT THE CURRENT INSTANT.  The select() stand-in polls the real pinger fd with
timeout 0; when nothing is readable and select() would have to wait, it raises `WouldWait` instead of waiting -
no hub state has been touched at that point (expired timeouts were handed back before select() is called, and
those hand-backs ping the pinger, so select() then returns at once).  The environment moves the clock
(`clock.advance`) between runs; a timeout that has expired meanwhile is found `expired` by the next hub pass -
so a wake-up is never produced early by the harness, and lateness is whatever the environment chose.
"""
import os
import select as _select
import threading

from harness import poxenv
from harness import adapters_c06 as _c06      # noqa: F401  (quiet recoco.print / traceback, FakeThread)

import pox.lib.recoco.recoco as recoco        # noqa: E402

poxenv.install_clock(recoco)
clock = poxenv.clock


class WouldWait(Exception):
  """select() would block: nothing more to do at this instant."""


class Diverged(Exception):
  """the scheduler did not become quiet within the step budget."""


class VSched(object):
  def __init__(self):
    self.base = clock.now
    orig = recoco.Thread
    recoco.Thread = _c06.FakeThread
    try:
      self.sched = recoco.Scheduler(isDefaultScheduler=True, startInThread=False, threaded_selecthub=False)
    finally:
      recoco.Thread = orig
    recoco.defaultScheduler = self.sched
    self.hub = self.sched._selectHub
    self.hub._select_func = self._vselect

  def _vselect(self, r, w, x, timeout):
    ro, wo, xo = _select.select(list(r), list(w), list(x), 0)
    if ro or wo or xo:
      return ro, wo, xo
    raise WouldWait()

  def now(self):
    v = clock.now - self.base
    return int(v) if float(v).is_integer() else v

  def in_thread(self, direct):
    """context: calls made inside run as if on the scheduler's own thread (Scheduler.schedule takes the
    direct path) or from a foreign thread (a ScheduleTask is queued)."""
    sched = self.sched

    class _Ctx(object):
      def __enter__(self_):
        sched._thread = threading.current_thread() if direct else None

      def __exit__(self_, *a):
        sched._thread = None
    return _Ctx()

  def run_instant(self, stop=None, budget=5000):
    """Run the scheduler at the current instant.  After every task slice `stop()` is consulted: a true value
    ends the run and is returned.  Returns None when nothing is left to do at this instant."""
    self.sched._thread = threading.current_thread()      # cycle() runs on the scheduler's own thread
    try:
      for _ in range(budget):
        if self.sched._ready:
          self.sched.cycle()
          if stop is not None:
            v = stop()
            if v:
              return v
          continue
        try:
          self.hub._select(self.hub._tasks, {})
        except WouldWait:
          return None
    finally:
      self.sched._thread = None
    raise Diverged("scheduler still busy after %d steps at one instant" % budget)

  def close(self):
    for p in [self.hub._pinger] + ([self.sched._callLaterTask._pinger] if self.sched._callLaterTask else []):
      for fd in (p._w, p._r):
        try:
          os.close(fd)
        except Exception:
          pass
      p._w = p._r = -1
