"""X03 adapter: Forwarding.tla actions -> the real components on real switches (harness/x03_net.py).

`World.step(a, args)` performs one action of the specification and returns the observation in
exactly the shape of the spec's `exp` (after `norm`):

  Send    args {h, dst, sh}  obs {hops: [{s, i, pktin, out: [ports], icmp}], tbls: [[pattern] per switch],
                                  bufs: [occupied buffers per switch], storm}
  Move    args {h, s, p}     obs {x: 0}
  Tick    args {d}           obs {tbls, bufs}
  Cut / Restore args {s, p}  obs {x: 0}
  Detect  args {x}           obs {tbls, adj: [[s1,p1,s2,p2]], bufs}
  DetectBusy args {h, d}     obs {again, lost, tbls, adj, bufs}   (21 s with a conversation going on, see the spec)

pattern = {inp, src, dst, shs, out, ito, hto}: a flow-table entry read through OFPST_FLOW on the wire,
abstracted by an independent OpenFlow 1.0 matcher (covers_shape of adapters_c11): wildcard = 0, host
MACs -> host ids, `shs` = the payload shapes the entry admits, `out` = port of its single output action
(99 = FLOOD).  Anything that cannot be abstracted shows up as "?" and fails the comparison.

Concretisation per `variant` (the spec uses the symbols under equality only): MAC families, the
multicast address, payload shapes (a / b are the two directions of one IPv4 UDP or TCP conversation, one
variant larger than miss_send_len; r is a non-IP frame that is its own reverse: raw ethertype,
gratuitous ARP, IPv6; l has the LLDP ethertype), segmentation of the OpenFlow byte streams, dpids.
"""
import struct

from engine.core import Machinery
from harness import rawbytes as rb
from harness import c11_netsim as c11
from harness import x03_net as xn
from harness import x03_gencfg as gc
from harness.adapters_c11 import covers_shape, MAC_FAMILIES, MCASTS, DPIDS, SEGS

UNK, BCAST, MCAST, FLOOD = 90, 91, 92, 99
IP_A, IP_B = "10.0.0.1", "10.0.0.2"
NDP = "012320000001"


def _udp(a, b, sport, dport, n, tos=0):
  return dict(et=0x0800, payload=c11.ipv4_udp(a, b, sport, dport, n, tos=tos),
              fields=dict(dl_vlan=0xffff, dl_vlan_pcp=0, dl_type=0x0800, nw_tos=tos, nw_proto=17,
                          nw_src=a, nw_dst=b, tp_src=sport, tp_dst=dport), soft=())


def _tcp(a, b, sport, dport):
  pl = struct.pack("!HHIIBBHHH", sport, dport, 1, 0, 5 << 4, 0x02, 8192, 0, 0) + b"X03-tcp-payload!"
  pseudo = rb.ip(a) + rb.ip(b) + struct.pack("!BBH", 0, 6, len(pl))
  pl = pl[:16] + struct.pack("!H", rb.csum(pseudo + pl)) + pl[18:]
  hdr = struct.pack("!BBHHHBBH4s4s", 0x45, 0, 20 + len(pl), 3, 0, 64, 6, 0, rb.ip(a), rb.ip(b))
  hdr = hdr[:10] + struct.pack("!H", rb.csum(hdr)) + hdr[12:]
  return dict(et=0x0800, payload=hdr + pl,
              fields=dict(dl_vlan=0xffff, dl_vlan_pcp=0, dl_type=0x0800, nw_tos=0, nw_proto=6,
                          nw_src=a, nw_dst=b, tp_src=sport, tp_dst=dport), soft=())


def _raw(et=0x88b5, payload=b"X03 raw payload"):
  return dict(et=et, payload=payload,
              fields=dict(dl_vlan=0xffff, dl_vlan_pcp=0, dl_type=et, nw_tos=0, nw_proto=0,
                          nw_src="0.0.0.0", nw_dst="0.0.0.0", tp_src=0, tp_dst=0),
              soft=("nw_tos", "nw_proto", "nw_src", "nw_dst", "tp_src", "tp_dst"))


def _garp():
  """gratuitous ARP request: sender and target protocol address equal, so the match is its own reverse"""
  pl = struct.pack("!HHBBH6s4s6s4s", 1, 0x0800, 6, 4, 1, rb.mac("00:00:00:00:00:aa"), rb.ip(IP_A), b"\0" * 6, rb.ip(IP_A))
  return dict(et=0x0806, payload=pl,
              fields=dict(dl_vlan=0xffff, dl_vlan_pcp=0, dl_type=0x0806, nw_tos=0, nw_proto=1,
                          nw_src=IP_A, nw_dst=IP_A, tp_src=0, tp_dst=0), soft=("nw_tos", "tp_src", "tp_dst"))


def _ipv6():
  src, dst = bytes(range(1, 17)), bytes(range(17, 33))
  pl = b"X03 over IPv6."
  udp = struct.pack("!HHHH", 546, 547, 8 + len(pl), 0) + pl
  pseudo = src + dst + struct.pack("!IxxxB", len(udp), 17)
  udp = udp[:6] + struct.pack("!H", rb.csum(pseudo + udp) or 0xffff) + udp[8:]
  return _raw(0x86dd, struct.pack("!IHBB", 0x60000000, len(udp), 17, 64) + src + dst + udp)


def _lldp():
  """a host's LLDP frame, long enough to need no Ethernet padding (the packet library re-serialises LLDP
  without trailing padding: C14's matter, not forwarding)"""
  def tlv(t, v):
    return struct.pack("!H", (t << 9) | len(v)) + v
  return _raw(0x88cc, tlv(1, b"\x07dp1") + tlv(2, b"\x021") + tlv(3, struct.pack("!H", 120)) +
              tlv(6, b"X03 system description, long enough to need no padding") + tlv(0, b""))


# (a, b = a reversed, r)
SHAPE_SETS = [
    (lambda: _udp(IP_A, IP_B, 1000, 2000, 18), lambda: _udp(IP_B, IP_A, 2000, 1000, 18), _raw),
    (lambda: _udp(IP_A, IP_B, 5353, 53, 180), lambda: _udp(IP_B, IP_A, 53, 5353, 180), _garp),     # > miss_send_len
    (lambda: _tcp(IP_A, IP_B, 40000, 80), lambda: _tcp(IP_B, IP_A, 80, 40000), _ipv6),
    (lambda: _udp(IP_A, IP_B, 7, 7, 18, tos=0x10), lambda: _udp(IP_B, IP_A, 7, 7, 18, tos=0x10), lambda: _raw(0x0801, b"r")),
]


def srt(xs):
  return sorted(xs, key=lambda x: rb_canon(x))


def rb_canon(x):
  import json
  return json.dumps(x, sort_keys=True)


def norm(o):
  """canonical form of an observation / expectation: the JSON arrays that stand for sets are sorted"""
  if not isinstance(o, dict):
    return o
  o = dict(o)
  if "hops" in o:
    o["hops"] = srt([dict(h, out=sorted(h["out"])) for h in o["hops"]])
  if "tbls" in o:
    o["tbls"] = [srt([dict(p, shs=sorted(p["shs"])) if isinstance(p.get("shs"), list) else p for p in t]) for t in o["tbls"]]
  if "adj" in o:
    o["adj"] = sorted(list(x) for x in o["adj"])
  return o


def norm_behaviour(b):
  for st in b:
    st["exp"] = norm(st["exp"])
  return b


class World(object):
  def __init__(self, world, nbuf=2, variant=0):
    self.wname = world
    t = gc.world(world)
    self.t = t
    self.comp = t["comp"]
    self.nsw = t["ns"]
    v = variant
    self.variant = v
    k, r = v % 6, v // 6
    self.macf = MAC_FAMILIES[k]
    self.special = {UNK: self.macf(0x63), BCAST: "ff:ff:ff:ff:ff:ff", MCAST: MCASTS[(k + 2 * r) % 6]}
    a, b, rr = SHAPE_SETS[(k + r) % len(SHAPE_SETS)]
    self.shapes = {"a": a(), "b": b(), "r": rr(), "l": _lldp()}
    self.seg = SEGS[(k + 5 * r) % 6]
    dp = DPIDS[(k + r) % 2]          # dpids of at most 48 bits (l2_multi makes an Ethernet address of it, see notes)
    self.nbuf = nbuf
    self.net = xn.Net(self.comp, nsw=self.nsw, nports=3, links=t["links"], noflood=t["noflood"],
                      max_buffers=nbuf, seg=self.seg, dpids=[dp(s) for s in range(1, self.nsw + 1)])
    self.at = dict(t["at"])
    self.hosts = list(t["hosts"])
    self.mac2sym = {}
    for h in range(1, 8):
      self.mac2sym[rb.mac(self.macf(h)).hex()] = h
    for kk, m in self.special.items():
      self.mac2sym[rb.mac(m).hex()] = kk
    if len(self.mac2sym) != 7 + 3:
      raise Machinery("concretisation is not injective")
    if self.comp == "multi":
      both, half = self.net.disc_adjacency()
      want = sorted(sorted([list(a_) + list(b_), list(b_) + list(a_)])[0] for a_, b_ in t["links"].items())
      if both != want or half:
        raise Machinery("discovery did not find the topology at start-up: %r / %r" % (both, half))
      self.net.take_link_events()

  def describe(self):
    return dict(world=self.wname, nbuf=self.nbuf, variant=self.variant, seg=self.seg,
                macs=[self.macf(h) for h in self.hosts], special={str(k): v for k, v in self.special.items()},
                shapes={k: (hex(v["et"]), len(v["payload"])) for k, v in self.shapes.items()})

  # -- concretisation
  def dst_mac(self, d):
    return self.special[d] if d in self.special else self.macf(d)

  def frame(self, h, dst, sh):
    s = self.shapes[sh]
    return c11.frame(self.dst_mac(dst), self.macf(h), s["et"], s["payload"])

  # -- abstraction
  def pattern(self, fl):
    m = fl["match"]
    w = m["wildcards"]
    acts = fl["actions"]
    if (not (w & rb.FW_DL_TYPE)) and m["dl_type"] == 0x88cc and (not (w & rb.FW_DL_DST)) and m["dl_dst"] == NDP \
        and fl["priority"] == 65000 and len(acts) == 1 and acts[0].get("type") == 0 \
        and int(acts[0]["body"][:4], 16) == rb.OFPP_CONTROLLER:
      return None                                  # discovery's own LLDP-to-controller flow
    inp = 0 if (w & rb.FW_IN_PORT) else m["in_port"]
    src = 0 if (w & rb.FW_DL_SRC) else self.mac2sym.get(m["dl_src"], "?")
    dst = 0 if (w & rb.FW_DL_DST) else self.mac2sym.get(m["dl_dst"], "?")
    shs = sorted(k for k, s in self.shapes.items() if covers_shape(m, s))
    out = "?"
    if len(acts) == 1 and acts[0].get("type") == 0 and "body" in acts[0]:
      q = int(acts[0]["body"][:4], 16)
      out = FLOOD if q == rb.OFPP_FLOOD else q
    if fl["priority"] != 32768:
      out = "?prio%d" % fl["priority"]
    return dict(inp=inp, src=src, dst=dst, shs=shs, out=out, ito=fl["idle_timeout"], hto=fl["hard_timeout"])

  def tables(self):
    out = []
    for s in range(1, self.nsw + 1):
      pats = []
      for fl in self.net.table_wire(s):
        p = self.pattern(fl)
        if p is not None:
          pats.append(p)
      out.append(pats)
    return out

  def bufs(self):
    return [self.net.occupancy(s) for s in range(1, self.nsw + 1)]

  def _is_unreach(self, fr, h):
    """ICMP destination unreachable (host), addressed to host h's MAC"""
    try:
      return (fr[0:6] == rb.mac(self.macf(h)) and fr[12:14] == b"\x08\x00" and fr[23] == 1
              and fr[14 + (fr[14] & 0xf) * 4] == 3 and fr[14 + (fr[14] & 0xf) * 4 + 1] == 1)
    except IndexError:
      return False

  # -- actions
  def step(self, a, args):
    if a == "Move":
      self.at[args["h"]] = (args["s"], args["p"])
      return {"x": 0}
    if a == "Tick":
      self.net.advance(args["d"])
      self.net.sweep()
      return norm(dict(tbls=self.tables(), bufs=self.bufs()))
    if a == "Cut":
      self.net.cut((args["s"], args["p"]))
      return {"x": 0}
    if a == "Restore":
      self.net.restore((args["s"], args["p"]))
      return {"x": 0}
    if a == "Detect":
      self.net.advance(21)
      self.net.sweep()
      both, half = self.net.disc_adjacency()
      r = dict(tbls=self.tables(), adj=both, bufs=self.bufs())
      if half:
        r["anomaly"] = ["half-links"]
      return norm(r)
    if a == "DetectBusy":
      h, d = args["h"], args["d"]
      frs = [(h, d, self.frame(h, d, "a")), (d, h, self.frame(d, h, "b"))]
      pktins, lost, anomalies = 0, 0, []
      for k in range(10):                      # a frame every 2 s; the first two only make sure the flows exist
        self.net.advance(2)
        src, dst, fr = frs[k % 2]
        s, p = self.at[src]
        try:
          hops = self.net.inject(s, p, fr)
        except xn.Diverged:
          return {"DIVERGED": 1}
        n = 0
        for hp in hops:
          n += sum(1 for m in hp["s2c"][hp["s"]] if m["type"] == rb.PACKET_IN)
          if hp["extra"] or hp["foreign"]:
            anomalies.append("other-frame-emitted")
        if k >= 2:
          pktins += n
        ts, tp = self.at[dst]
        if not any(hp["s"] == ts and tp in hp["out"] for hp in hops):
          lost += 1
      self.net.advance(1)
      self.net.sweep()
      both, half = self.net.disc_adjacency()
      r = dict(again=1 if 1 <= pktins <= 2 else 100 + pktins, lost=lost, tbls=self.tables(), adj=both, bufs=self.bufs())
      if half:
        anomalies.append("half-links")
      if anomalies:
        r["anomaly"] = sorted(set(anomalies))
      return norm(r)
    if a == "Send":
      s, p = self.at[args["h"]]
      fr = self.frame(args["h"], args["dst"], args["sh"])
      try:
        hops = self.net.inject(s, p, fr)
        storm = 0
      except xn.Diverged:
        return {"DIVERGED": 1}
      obs = []
      anomalies = []
      for hp in hops:
        pktin = sum(1 for m in hp["s2c"][hp["s"]] if m["type"] == rb.PACKET_IN)
        for k, ms in hp["s2c"].items():
          if k != hp["s"] and any(m["type"] == rb.PACKET_IN for m in ms):
            anomalies.append("packet-in-elsewhere")
          if any(m["type"] == rb.ERROR for m in ms):
            anomalies.append("error-from-switch")
        if hp["foreign"]:
          anomalies.append("emission-on-other-switch")
        if len(set(hp["out"])) != len(hp["out"]):
          anomalies.append("duplicate-emission")
        icmp = 0
        for (es, ep, eb) in hp["extra"]:
          if es == hp["s"] and ep == hp["i"] and self._is_unreach(eb, args["h"]) and not icmp:
            icmp = 1
          else:
            anomalies.append("other-frame-emitted")
        obs.append(dict(s=hp["s"], i=hp["i"], pktin=pktin, out=sorted(set(hp["out"])), icmp=icmp))
      r = dict(hops=obs, tbls=self.tables(), bufs=self.bufs(), storm=storm)
      if anomalies:
        r["anomaly"] = sorted(set(anomalies))
      return norm(r)
    raise ValueError(a)


class Adapter(object):
  """engine.core.replay adapter"""

  def __init__(self, world="pairs_T1", nbuf=2, variant=0):
    self.w = World(world, nbuf, variant)

  def step(self, a, args):
    return self.w.step(a, args)

  def signature(self, st, obs):
    sig = {"action": st["a"], "comp": self.w.comp}
    exp = st["exp"]
    if isinstance(obs, dict) and "EXC" in obs:
      sig["observed"] = "exception:" + obs["EXC"]
      return sig
    if isinstance(obs, dict) and "DIVERGED" in obs:
      sig["observed"] = "diverged"
      return sig
    if isinstance(obs, dict):
      sig["fields"] = sorted(k for k in set(exp) | set(obs) if obs.get(k) != exp.get(k))
      if "anomaly" in obs:
        sig["anomaly"] = obs["anomaly"]
    if st["a"] == "Send":
      d = st["args"]["dst"]
      sig["dst"] = {UNK: "unknown-unicast", BCAST: "broadcast", MCAST: "multicast"}.get(d, "host")
      sig["shape"] = st["args"]["sh"]
      sig["spec_case"] = sorted(t for t in st.get("tags", []) if t)
      if isinstance(obs, dict) and "hops" in obs and "hops" in exp and obs["hops"] != exp["hops"]:
        eo = {(h["s"], h["i"]): h for h in exp["hops"]}
        oo = {(h["s"], h["i"]): h for h in obs["hops"]}
        kinds = set()
        for k in set(eo) | set(oo):
          if k not in oo:
            kinds.add("hop-missing")
          elif k not in eo:
            kinds.add("hop-unexpected")
          else:
            for fld in ("pktin", "out", "icmp"):
              if eo[k][fld] != oo[k][fld]:
                kinds.add(fld)
        sig["hop_diff"] = sorted(kinds)
    return sig

  def close(self):
    pass
