"""Frame bytes from an abstract header stack - Python mirror of specs/packet/PktWireLayers.tla.

Uses struct-free arithmetic only and NEVER the POX packet library.  The layout
tables are not copied here: they are printed by TLC from the TLA+ module
(specs/packet/PktWireTables.tla, see `load_layouts`) so the specification stays
the single source of truth; `encode` is cross-checked by props/C14.py against
TLC's own EncStack on every exported case and, for random stacks, by TLC
itself during trace validation (the Feed event).

A stack is a list of layer dicts, outermost first, exactly the JSON TLC prints:
{"p": "ipv4", "v": 4, "hl": 5, ..., "srcip": [1,2,3,4], "opts": []}; wide
fields (kind "b") are lists of byte values.  The innermost layer may be
{"p": "raw", "n", "a", "b"} (pattern bytes) or {"p": "rawb", "data": [...]}.
"""
import json
import os

_LAYOUTS = None


def load_layouts(layouts=None):
  """layouts: dict proto -> [{n, w, k, r}] as printed by PktWireTables (or None to run TLC)."""
  global _LAYOUTS
  if layouts is not None:
    _LAYOUTS = layouts
  elif _LAYOUTS is None:
    from engine import tlc
    r = tlc.run("packet", "PktWireTables", "PktWire_Tables.cfg", workers=1, coverage=False, tag="C14")
    t = r.tagged("L")
    if not t:
      raise tlc.TLCError("PktWireTables printed no layout tables")
    _LAYOUTS = t[0]
  return _LAYOUTS


def layouts():
  return load_layouts()


# --------------------------------------------------------------------------
# RFC 1071

def ocsum(data):
  """one's complement sum of big-endian 16-bit words, odd byte zero-padded on the right"""
  s = 0
  n = len(data)
  for i in range(0, n - 1, 2):
    s += (data[i] << 8) | data[i + 1]
  if n % 2:
    s += data[n - 1] << 8
  while s >> 16:
    s = (s & 0xffff) + (s >> 16)
  return s


def csum(data):
  return 0xffff - ocsum(data)


def pattern(n, a, b):
  return bytes((a + b * i) % 256 for i in range(n))


# --------------------------------------------------------------------------
# table-driven fixed headers

def enc_fixed(lay, L):
  acc = 0
  nb = 0
  for e in lay:
    if e["k"] == "u":
      v = L[e["n"]]
      if not (isinstance(v, int) and 0 <= v < (1 << e["w"])):
        raise ValueError("field %s=%r does not fit %d bits" % (e["n"], v, e["w"]))
      acc = (acc << e["w"]) | v
      nb += e["w"]
    else:
      v = L[e["n"]]
      if len(v) != e["w"] // 8:
        raise ValueError("field %s has %d bytes, wants %d" % (e["n"], len(v), e["w"] // 8))
      for x in v:
        acc = (acc << 8) | x
      nb += e["w"]
  assert nb % 8 == 0
  return acc.to_bytes(nb // 8, "big")


def dec_fixed(lay, b):
  n = sum(e["w"] for e in lay)
  acc = int.from_bytes(b[:n // 8], "big")
  out = {}
  pos = n
  for e in lay:
    pos -= e["w"]
    v = (acc >> pos) & ((1 << e["w"]) - 1)
    out[e["n"]] = v if e["k"] == "u" else list(v.to_bytes(e["w"] // 8, "big"))
  return out


def width(lay):
  return sum(e["w"] for e in lay) // 8


# --------------------------------------------------------------------------
# variable parts

def enc_tcp_opts(opts):
  o = b""
  for x in opts:
    o += bytes([x["k"]]) if x["k"] in (0, 1) else bytes([x["k"], 2 + len(x["d"])]) + bytes(x["d"])
  return o + b"\0" * ((4 - len(o) % 4) % 4)


# Multipath TCP options (mirror of MpFields / OptView in PktWireLayers.tla; cross-checked against TLC's view of every
# exported case by props/C14.py).  Used by the adapter to know which attributes a built option object gets, and to
# name fields in failure signatures - never for a verdict.
def _dss_lens(fl):
  al = 0 if not fl & 1 else 8 if fl & 2 else 4
  dl = 0 if not fl & 4 else 8 if fl & 8 else 4
  return al, dl


def mp_fields(d):
  d = list(d)
  if len(d) < 2:
    return []
  st, lo, n = d[0] >> 4, d[0] & 15, len(d) + 2
  F = lambda name, v: {"n": name, "v": list(v)}
  if st == 0 and n in (12, 20):
    return ([F("subtype", [0]), F("version", [lo]), F("flags", [d[1]]), F("skey", d[2:10])]
            + ([F("rkey", d[10:18])] if n == 20 else []))
  if st == 1 and n in (12, 16, 24):
    h = [F("subtype", [1]), F("flags", [lo]), F("addr", [d[1]])]
    if n == 12:
      return h + [F("rtoken", d[2:6]), F("srand", d[6:10])]
    if n == 16:
      return h + [F("shmac", d[2:10]), F("srand", d[10:14])]
    return h + [F("shmac", d[2:22])]
  if st == 2 and lo == 0:
    fl = d[1]
    al, dl = _dss_lens(fl)
    if (fl & 2 and not fl & 1) or (fl & 8 and not fl & 4) or n != 4 + al + dl + (8 if fl & 4 else 0):
      return []
    out = [F("subtype", [2]), F("flags", [fl])]
    if al:
      out.append(F("ack", [0] * (8 - al) + d[2:2 + al]))
    if dl:
      q = 2 + al + dl
      out += [F("dsn", [0] * (8 - dl) + d[2 + al:q]), F("seq", d[q:q + 4]), F("length", d[q + 4:q + 6]),
              F("csum", d[q + 6:q + 8])]
    return out
  return []


def opt_view(x):
  if "f" in x:
    return x
  f = mp_fields(x["d"]) if x["k"] == 30 else []
  return {"k": x["k"], "d": [] if f else list(x["d"]), "f": f}


def enc_tlvs(tlvs):
  o = b""
  for x in tlvs:
    o += ((x["t"] << 9) | len(x["d"])).to_bytes(2, "big") + bytes(x["d"])
  return o


def enc_exts(es):
  o = b""
  for e in es:
    if e["t"] == 44:
      o += bytes([e["nh"]]) + bytes(e["d"])
    else:
      o += bytes([e["nh"], (2 + len(e["d"])) // 8 - 1]) + bytes(e["d"])
  return o


NAME_TYPES = (2, 5, 12)


DNS_STYLES = (0, 1, 2, 3)


def dns_bytes(L):
  """RFC 1035 4.1 message in the sender's style L["cmp"] (DnsBytes in PktWireLayers.tla): 0 no compression,
  1 a name identical to one written in full becomes a pointer, 2 the longest suffix starting at any label
  written earlier becomes a pointer to its first occurrence, 3 as 2 with the starts of earlier names as the
  only targets"""
  lay = layouts()
  cmp = L["cmp"]
  h = dict(L)
  h.update(qd=len(L["qs"]), an=len(L["ans"]), ns=len(L["auth"]), ar=len(L["add"]))
  s = bytearray(enc_fixed(lay["dns"], h))
  seen = []                                     # (name, offset): the pointer targets remembered so far

  def seen_at(name):
    for nm, at in seen:
      if nm == name:
        return at
    return -1

  def labels(ls):
    return b"".join(bytes([len(l)]) + bytes(l) for l in ls)

  def put_name(name, shift=0):
    n = len(name)
    if cmp == 0:
      k = n
    elif cmp == 1:
      k = 0 if n > 0 and seen_at(name) >= 0 else n
    else:
      k = 0
      while k < n and seen_at(name[k:]) < 0:
        k += 1
    if k == n:
      enc = labels(name) + b"\0"
    else:
      at = seen_at(name[k:])
      enc = labels(name[:k]) + bytes([192 + at // 256, at % 256])
    off = len(s) + shift
    if cmp in (0, 1):
      if k == n and k > 0:
        seen.append((name, off))
    elif cmp == 2:
      for j in range(k):
        seen.append((name[j:], off + len(labels(name[:j]))))
    elif k > 0:
      seen.append((name, off))
    return enc

  for q in L["qs"]:
    s.extend(put_name(q["name"]))
    s.extend(q["qtype"].to_bytes(2, "big") + q["qclass"].to_bytes(2, "big"))
  for r in L["ans"] + L["auth"] + L["add"]:
    s.extend(put_name(r["name"]))
    s.extend(r["type"].to_bytes(2, "big") + r["class"].to_bytes(2, "big") + bytes(r["ttl"]))
    if r["rd"]["k"] == "raw":
      s.extend(len(r["rd"]["d"]).to_bytes(2, "big") + bytes(r["rd"]["d"]))
    else:
      enc = put_name(r["rd"]["d"], 2)
      s.extend(len(enc).to_bytes(2, "big") + enc)
  return bytes(s)


def dns_names(L):
  out = [q["name"] for q in L["qs"]]
  for r in L["ans"] + L["auth"] + L["add"]:
    out.append(r["name"])
    if r["rd"]["k"] == "name":
      out.append(r["rd"]["d"])
  return out


def free_form(stack):
  """FreeForm in PktWireLayers.tla: two different names of the DNS message share a suffix, so the sender may
  compress them in many ways (used to choose styles / to route cases; never for a verdict)"""
  if not stack or stack[-1]["p"] != "dns":
    return False
  ns = dns_names(stack[-1])
  suf = [set(tuple(map(tuple, n[k:])) for k in range(len(n))) for n in ns]
  return any(ns[i] != ns[j] and suf[i] & suf[j] for i in range(len(ns)) for j in range(i + 1, len(ns)))


def styles_of(stack):
  if not stack or stack[-1]["p"] != "dns":
    return (0,)
  return DNS_STYLES if free_form(stack) else (0, 1)


def with_style(stack, c):
  return [dict(L, cmp=c) if L["p"] == "dns" else L for L in stack]


def _dns_walk(body, nq, nrr):
  """(names in wire order, offsets of the pointers met in the message itself) of a DNS message - a plain RFC 1035
  reader used only to describe a rejected serialisation and to place a negative control, never for a verdict"""
  ptrs = []

  def name(i, depth=0, top=True):
    out = []
    while True:
      n = body[i]
      if n >= 192:
        if top:
          ptrs.append(i)
        if depth > 8:
          raise ValueError("pointer loop")
        out += name(((n - 192) << 8) | body[i + 1], depth + 1, False)[0]
        return out, i + 2
      if n > 63:
        raise ValueError("bad label length")
      i += 1
      if n == 0:
        return out, i
      out.append(list(body[i:i + n]))
      i += n

  names = []
  i = 12
  for _ in range(nq):
    nm, i = name(i)
    names.append(nm)
    i += 4
  for _ in range(nrr):
    nm, i = name(i)
    names.append(nm)
    ty = int.from_bytes(body[i:i + 2], "big")
    n = int.from_bytes(body[i + 8:i + 10], "big")
    if ty in NAME_TYPES:
      names.append(name(i + 10)[0])
    i += 10 + n
  return names, ptrs


def dns_pointer_offsets(body):
  h = dec_fixed(layouts()["dns"], body)
  return _dns_walk(body, h["qd"], h["an"] + h["ns"] + h["ar"])[1]


def dns_diagnose(stack, wire):
  """names what is wrong with bytes TLC refused as a serialisation of a free-form stack (for the signature)"""
  try:
    n = len(encode(stack[:-1]))
    body = bytes(wire[n:])
    L = stack[-1]
    try:
      names = _dns_walk(body, len(L["qs"]), len(L["ans"]) + len(L["auth"]) + len(L["add"]))[0]
    except Exception:
      return "names_unreadable"
    if names != dns_names(L):
      return "names_differ"
    around = stack[:-1] + [{"p": "rawb", "data": list(body)}]
    exp = encode(around)
    if exp != bytes(wire):
      i = 0
      while i < min(len(exp), len(wire)) and exp[i] == wire[i]:
        i += 1
      return "enclosing:" + locate(around, i)
    return "message_differs"
  except Exception:
    return "?"


def raw_bytes(L):
  return pattern(L["n"], L["a"], L["b"]) if L["p"] == "raw" else bytes(L["data"])


def hdr(L):
  p = L["p"]
  lay = layouts()
  if p in ("raw", "rawb"):
    return raw_bytes(L)
  if p == "ipv4":
    return enc_fixed(lay["ipv4"], L) + bytes(L["opts"])
  if p == "tcp":
    return enc_fixed(lay["tcp"], L) + enc_tcp_opts(L["opts"])
  if p == "llc":
    o = bytes([L["dsap"], L["ssap"]]) + bytes(L["ctl"])
    if L["snap"] == 1:
      o += bytes(L["oui"]) + L["type"].to_bytes(2, "big")
    return o
  if p == "lldp":
    return enc_tlvs(L["tlvs"])
  if p == "ipv6":
    return enc_fixed(lay["ipv6"], L) + enc_exts(L["ext"])
  if p == "gre":
    w = (L["c"] << 15) | (L["k"] << 13) | (L["sq"] << 12) | (L["recur"] << 8) | L["ver"]
    o = w.to_bytes(2, "big") + L["type"].to_bytes(2, "big")
    if L["c"]:
      o += L["csum"].to_bytes(2, "big") + L["offset"].to_bytes(2, "big")
    if L["k"]:
      o += bytes(L["key"])
    if L["sq"]:
      o += bytes(L["seq"])
    return o
  if p == "igmp3":
    o = bytes([34, 0]) + L["csum"].to_bytes(2, "big") + b"\0\0" + len(L["recs"]).to_bytes(2, "big")
    for r in L["recs"]:
      o += bytes([r["t"], len(r["aux"]) // 4]) + len(r["srcs"]).to_bytes(2, "big") + bytes(r["group"])
      for s in r["srcs"]:
        o += bytes(s)
      o += bytes(r["aux"])
    return o
  if p == "rip":
    return enc_fixed(lay["rip"], L) + b"".join(enc_fixed(lay["ripentry"], e) for e in L["entries"])
  if p == "dns":
    return dns_bytes(L)
  if p == "dhcp":
    o = enc_fixed(lay["dhcp"], L)
    for x in L["opts"]:
      o += b"\0" if x["k"] == 0 else bytes([x["k"], len(x["d"])]) + bytes(x["d"])
    return o + b"\xff"
  if p in ("ns", "na", "rs", "ra"):
    o = enc_fixed(lay[p], L)
    for x in L["opts"]:
      o += bytes([x["t"], (2 + len(x["d"])) // 8]) + bytes(x["d"])
    return o
  return enc_fixed(lay[p], L)


def pseudo(ip, proto, n):
  if ip["p"] == "ipv4":
    return bytes(ip["srcip"]) + bytes(ip["dstip"]) + bytes([0, proto]) + n.to_bytes(2, "big")
  return bytes(ip["srcip"]) + bytes(ip["dstip"]) + n.to_bytes(4, "big") + bytes([0, 0, 0, proto])


def fill(L, inner, prev):
  """the layer with its derived fields (lengths, checksums), given the bytes that follow it"""
  L = dict(L)
  p = L["p"]
  in_ip = prev is not None and prev["p"] in ("ipv4", "ipv6")
  if p == "ipv4":
    L["iplen"] = 4 * L["hl"] + len(inner)
    L["csum"] = 0
    L["csum"] = csum(hdr(L))
  elif p == "udp":
    L["len"] = 8 + len(inner)
    L["csum"] = 0
    if in_ip:
      c = csum(pseudo(prev, 17, L["len"]) + hdr(L) + inner)
      L["csum"] = c or 0xffff
  elif p == "tcp":
    L["off"] = (20 + len(enc_tcp_opts(L["opts"]))) // 4
    L["csum"] = 0
    if in_ip:
      seg = hdr(L) + inner
      L["csum"] = csum(pseudo(prev, 6, len(seg)) + seg)
  elif p in ("icmp", "igmp", "igmp3"):
    L["csum"] = 0
    L["csum"] = csum(hdr(L) + inner)
  elif p == "icmp6":
    L["csum"] = 0
    seg = hdr(L) + inner
    L["csum"] = csum(pseudo(prev, 58, len(seg)) + seg)
  elif p == "ipv6":
    L["plen"] = len(enc_exts(L["ext"])) + len(inner)
  elif p == "gre":
    if L["c"]:
      L["csum"] = 0
      L["csum"] = csum(hdr(L) + inner)
  elif p == "eapol":
    L["bodylen"] = len(inner)
  elif p == "eap":
    L["length"] = 4 + len(inner)
  elif p == "dns":
    L.update(qd=len(L["qs"]), an=len(L["ans"]), ns=len(L["auth"]), ar=len(L["add"]))
  return L


def assemble(stack):
  """(frame bytes, completed stack, [(start, header length) per layer])"""
  inner = b""
  filled = []
  spans = []
  for i in range(len(stack) - 1, -1, -1):
    L = fill(stack[i], inner, stack[i - 1] if i > 0 else None)
    h = hdr(L)
    inner = h + inner
    filled.insert(0, L)
    spans.insert(0, len(h))
  out = []
  at = 0
  for n in spans:
    out.append((at, n))
    at += n
  return inner, filled, out


def encode(stack):
  return assemble(stack)[0]


def apply_edit(stack, e):
  """ApplyEdit of PktWireEdits.tla: the stack after edit e = {li, c, op, i, v}"""
  stack = [dict(L) for L in stack]
  L = stack[e["li"] - 1]
  if e["op"] == "setf":
    L[e["c"]] = e["v"]["x"]
    return stack
  xs = [x for x in L[e["c"]] if not (L["p"] == "dhcp" and x["k"] == 0)]
  i = e["i"] - 1
  if e["op"] == "replace":
    xs[i] = e["v"]
  elif e["op"] == "add":
    xs.insert(i, e["v"])
  else:
    del xs[i]
  L[e["c"]] = xs
  return stack


def pad_variants(stack):
  """the serialisations the oracle accepts for one stack: they differ only in where DHCP pad options go
  (none, or one after every option of odd size) and in how DNS names are compressed (the styles the stack
  admits) - PadVariants in PktWireLayers.tla"""
  out = [stack]
  if any(L["p"] == "dns" for L in stack):
    for c in styles_of(stack):
      if c != stack[-1]["cmp"]:
        out.append([dict(L, cmp=c) if L["p"] == "dns" else L for L in stack])
  if any(L["p"] == "dhcp" for L in stack):
    alt = []
    for L in stack:
      if L["p"] == "dhcp":
        L = dict(L)
        opts = []
        for x in L["opts"]:
          if x["k"] == 0:
            continue
          opts.append(x)
          if len(x["d"]) % 2 == 1:
            opts.append({"k": 0, "d": []})
        L["opts"] = opts
      alt.append(L)
    out.append(alt)
  return out


def pay_len(stack):
  if not stack:
    return 0
  L = stack[-1]
  return L["n"] if L["p"] == "raw" else len(L["data"]) if L["p"] == "rawb" else 0


def locate(stack, offset):
  """name the layer.field that owns byte `offset` of the encoded stack (for failure signatures)"""
  try:
    _, filled, spans = assemble(stack)
  except Exception:
    return "?"
  lay = layouts()
  for L, (at, n) in zip(filled, spans):
    if at <= offset < at + n:
      p = L["p"]
      if p in lay:
        bit = (offset - at) * 8
        pos = 0
        for e in lay[p]:
          if pos <= bit < pos + e["w"] or (pos < bit + 8 <= pos + e["w"]):
            return "%s.%s" % (p, e["n"])
          pos += e["w"]
        return p + ".var"
      return p
  return "beyond"
