"""X14 environment: of_json / the OpenFlow web service closed over bytes.

  harness (the HTTP client)                      JSON-RPC request dictionaries
      |  OFRequestHandler._handle(request)        (the dispatch JSONRPCHandler.do_POST performs per request)
      v
  OFSetTableRequest / OFFlowStatsRequest (real, pox/openflow/webservice.py)
      |  core.callLater(_do_init) -> scheduler (stepped by the harness) -> con.send(flow_mod / barrier / stats request)
      v
  of_01.Connection (real) -- CtlSock --> bytes --> OFConnection / IOWorker (real) --> SoftwareSwitch (real)
  BarrierIn / FlowStatsReceived / ErrorIn / PacketIn  <-- Connection.read <-- bytes the switch wrote

* The web service blocks its HTTP thread in `threading.Event.wait(5)` until the scheduler thread has produced the
  answer.  Here there is one thread: `webservice.threading` is replaced by a shim whose Event.wait() runs the
  harness pump (scheduler cycles + byte pump) until the event is set or nothing moves any more; a wait that
  cannot be satisfied advances the virtual clock by the timeout and returns False (the service's own timeout
  path), so no wall-clock time is ever spent.
* The pump is explicit and staged so that a replayed behaviour decides when the scheduler runs the queued
  `_do_init`, when the switch consumes what the controller wrote and when the controller reads the answers.
* Everything observed is public: decoded bytes on the channel (harness/rawbytes.py), the JSON-RPC response
  (serialised the way do_POST does: json.dumps(default=str)), the switch's table as an OFPST_FLOW reply taken at
  the switch and never forwarded to the controller.
"""
import errno
import json
import socket as _socket

from engine.core import Machinery
from harness import poxenv
from harness import rawbytes as rb

core = poxenv.boot()

import pox.openflow as ofmod                      # noqa: E402
import pox.openflow.of_01 as of_01                # noqa: E402

ofmod.launch()
of_01.DeferredSender.start = lambda self: None
if of_01.deferredSender is None:
  of_01.deferredSender = of_01.DeferredSender()

from pox.lib.ioworker import IOWorker             # noqa: E402
from pox.datapaths import switch as swmod         # noqa: E402
from pox.openflow import flow_table as ftmod      # noqa: E402
from pox.lib.packet.ethernet import ethernet      # noqa: E402
import pox.openflow.libopenflow_01 as oflib       # noqa: E402
import pox.openflow.of_json as ofjson             # noqa: E402
import pox.openflow.webservice as websvc          # noqa: E402

poxenv.install_clock(of_01, swmod, ftmod)

import select as _select                          # noqa: E402
# the hub never blocks: it polls the real descriptors (the pinger pipes) and returns
core.scheduler._selectHub._select_func = lambda r, w, x, t: _select.select(r, w, x, 0)

import threading as _threading

_CURRENT = [None]          # the Env whose pump a blocked Event.wait() runs
_TLS = _threading.local()  # .call = the staged HTTP request this thread serves


class _Event(object):
  """threading.Event for a single-threaded, virtual-time harness."""
  def __init__(self):
    self._flag = False

  def set(self):
    self._flag = True

  def is_set(self):
    return self._flag

  isSet = is_set

  def clear(self):
    self._flag = False

  def wait(self, timeout=None):
    call = getattr(_TLS, "call", None)
    if call is not None:
      # a staged request: the HTTP thread really blocks here; the harness decides when it wakes up and whether
      # the answer is there by then
      if not self._flag:
        call.back.release()
        call.go.acquire()
      if not self._flag and timeout is not None:
        poxenv.clock.advance(timeout)
      return self._flag
    env = _CURRENT[0]
    if not self._flag and env is not None and env.auto_pump:
      env.run_all()
    if not self._flag and timeout is not None:
      poxenv.clock.advance(timeout)          # the service's own timeout elapses - virtually
    return self._flag


class _Threading(object):
  Event = _Event

  def __getattr__(self, name):
    import threading
    return getattr(threading, name)


websvc.threading = _Threading()


class CtlSock(object):
  _fd = 7400

  def __init__(self):
    self.inq = []
    self.out = b""
    self.closed = False
    self.shut = False
    CtlSock._fd += 1
    self._fileno = CtlSock._fd

  def fileno(self):
    return self._fileno

  def setblocking(self, v):
    pass

  def getpeername(self):
    return ("10.9.14.1", 41014)

  def send(self, data):
    if self.closed or self.shut:
      raise _socket.error(errno.EPIPE, "Broken pipe")
    self.out += data
    return len(data)

  def recv(self, n, flags=0):
    if self.inq:
      d = self.inq.pop(0)
      if len(d) > n:
        self.inq.insert(0, d[n:])
        d = d[:n]
      return d
    if self.shut or self.closed:
      return b""
    raise _socket.error(errno.EAGAIN, "Resource temporarily unavailable")

  def shutdown(self, how):
    self.shut = True

  def close(self):
    self.closed = True


class SwSock(object):
  def getpeername(self):
    return ("127.0.0.1", 6633)


class Call(object):
  """One HTTP request served by its own thread (as the web server does), run in lock step with the harness:
  exactly one of the two runs at any time."""
  def __init__(self, env, method, params):
    self.env, self.method, self.params = env, method, params
    self.go = _threading.Semaphore(0)
    self.back = _threading.Semaphore(0)
    self.done = False
    self.result = None
    self.thread = _threading.Thread(target=self._run, daemon=True)

  def _run(self):
    _TLS.call = self
    try:
      self.result = self.env.rpc(self.method, self.params)
    except BaseException as e:       # noqa
      self.result = {"harness-exception": repr(e)}
    finally:
      self.done = True
      self.back.release()

  def start(self):
    """run until the request blocks in get_response() (or finishes)"""
    self.thread.start()
    self.back.acquire()
    return self

  def resume(self):
    """wake the HTTP thread up; returns when it has finished (or blocks again)"""
    if self.done:
      return self.result
    self.go.release()
    self.back.acquire()
    return self.result


def dumps(x):
  """what JSONRPCHandler.do_POST writes for a response"""
  return json.loads(json.dumps(x, default=str))


class Env(object):
  MAX_ROUNDS = 60

  def __init__(self, dpid=1, nports=3, max_entries=None, miss_send_len=128):
    self.clock = poxenv.clock
    self.dpid = dpid
    self.auto_pump = True
    self._fresh_controller()
    kw = {}
    if max_entries is not None:
      kw["max_entries"] = max_entries
    # (SoftwareSwitch has no expiry timer of its own - ExpireMixin is not mixed in - so entries are never swept here)
    self.sw = swmod.SoftwareSwitch(dpid, ports=nports, max_buffers=8, miss_send_len=miss_send_len, **kw)
    self.worker = IOWorker()
    self.worker.socket = SwSock()
    self.ofc = swmod.OFConnection(self.worker)
    self.sw.set_connection(self.ofc)
    self.emitted = []
    self.sw.addListenerByName("DpPacketOut", lambda e: self.emitted.append((e.port.port_no, e.packet.pack())))
    self.sock = CtlSock()
    self.c2s_log = []
    self.s2c_log = []
    self.packet_ins = []
    _CURRENT[0] = self
    self.con = of_01.Connection(self.sock)
    self.run_all()
    if self.nexus.getConnection(dpid) is not self.con or self.con.connect_time is None:
      raise Machinery("X14 env: the switch did not complete the handshake")
    self.c2s_log, self.s2c_log = [], []
    self.con.addListenerByName("PacketIn", lambda e: self.packet_ins.append(e))
    self.handler = object.__new__(websvc.OFRequestHandler)     # no HTTP socket: _handle() is the per-request entry
    self.handler.args = {}

  def _fresh_controller(self):
    old = core.components.get("openflow")
    if old is not None:
      try:
        core.removeListener(old._handle_DownEvent)
      except Exception:
        pass
    self.nexus = ofmod.OpenFlowNexus()
    core.components["openflow"] = self.nexus
    core.components["OpenFlowConnectionArbiter"] = ofmod.OpenFlowConnectionArbiter()
    of_01.Connection.ID = 0
    of_01.Connection._aborted_connections = 0
    of_01.deferredSender.sending = False
    of_01.deferredSender._dataForConnection.clear()
    # a previous behaviour may have ended with a request still queued (core.callLater): drop the stale calls and let
    # the scheduler settle (its CallLaterTask goes back to waiting on its pinger; making a new task per behaviour
    # would leak a pipe each time until select() refuses the descriptor set)
    clt = core.scheduler._callLaterTask
    if clt is not None:
      clt._calls.clear()
    self.cycle()
    oflib.generate_xid = oflib.xid_generator()      # every behaviour starts from a fresh xid counter

  # -- stages of the pump
  def cycle(self):
    """Run what is queued on the cooperative scheduler (core.callLater targets) until it is idle.  Returns the
    number of task steps taken.  (A callLater from another thread needs several passes: the ScheduleTask, the
    CallLaterTask's Select registering with the hub, the hub seeing the pinger, the task running.)"""
    n = 0
    idle = 0
    sched = core.scheduler
    hub = sched._selectHub
    for _ in range(400):
      clt = sched._callLaterTask
      pending = clt is not None and bool(clt._calls)
      try:
        hub._select(hub._tasks, {})
      except Exception as e:       # noqa
        self.last_select_error = repr(e)
      if sched._ready:
        sched.cycle()
        n += 1
        if pending:
          idle = 0
          continue
      idle += 1
      clt = sched._callLaterTask
      if idle >= 6 and (clt is None or not clt._calls):
        return n
    raise Machinery("X14 env: queued calls are not run by the scheduler: ready=%r tasks=%r incoming=%r select=%r clt=%r"
                    % (list(sched._ready), list(hub._tasks), hub._incoming.qsize(), getattr(self, "last_select_error", None),
                       sched._callLaterTask))

  def to_switch(self):
    """The switch consumes what the controller wrote.  Returns the decoded messages."""
    data, self.sock.out = self.sock.out, b""
    if not data:
      return []
    msgs = rb.parse_stream(data)
    self.c2s_log.extend(msgs)
    self.worker._push_receive_data(data)
    return msgs

  def to_controller(self):
    """The controller reads what the switch wrote.  Returns the decoded messages."""
    data, self.worker.send_buf = self.worker.send_buf, b""
    if not data:
      return []
    msgs = rb.parse_stream(data)
    self.s2c_log.extend(msgs)
    self.sock.inq.append(data)
    while self.sock.inq:
      if self.con.read() is False:
        raise Machinery("X14 env: the controller dropped the connection")
    return msgs

  def run_all(self):
    for _ in range(self.MAX_ROUNDS):
      moved = self.cycle() > 0
      moved = bool(self.to_switch()) or moved
      moved = bool(self.to_controller()) or moved
      if not moved:
        return
    raise Machinery("X14 env: control channel still busy after %d rounds" % self.MAX_ROUNDS)

  # -- the same stages, one message at a time (for WebTable.tla); the channel is then a pair of queues of messages
  def take_c2s(self):
    """messages the controller wrote since the last call (bytes, one per message)"""
    data, self.sock.out = self.sock.out, b""
    return rb.split(data) if data else []

  def take_s2c(self):
    data, self.worker.send_buf = self.worker.send_buf, b""
    return rb.split(data) if data else []

  def deliver_to_switch(self, msg):
    self.worker._push_receive_data(msg)

  def deliver_to_controller(self, msg):
    self.sock.inq.append(msg)
    while self.sock.inq:
      if self.con.read() is False:
        raise Machinery("X14 env: the controller dropped the connection")

  # -- the web service
  def rpc(self, method, params, rid=1):
    """One JSON-RPC request, dispatched the way do_POST dispatches it; returns the response as the client would
    decode it."""
    _CURRENT[0] = self
    req = {"method": method, "params": params, "id": rid}
    req = json.loads(json.dumps(req))          # what the service receives is decoded JSON text
    resp = self.handler._handle(req)
    return dumps(resp)

  # -- observations at the switch
  def table_wire(self):
    if self.worker.send_buf or self.sock.out:
      raise Machinery("X14 env: table_wire with a busy channel")
    req = rb.stats_request(rb.ST_FLOW, rb.flow_stats_request_body(), xid=0x7e57)
    self.worker._push_receive_data(req)
    data, self.worker.send_buf = self.worker.send_buf, b""
    msgs = rb.parse_stream(data)
    if len(msgs) != 1 or msgs[0]["type"] != rb.STATS_REPLY or msgs[0]["xid"] != 0x7e57:
      raise Machinery("X14 env: unexpected answer to the flow statistics request")
    return msgs[0]["flows"]

  def rx(self, frame, port):
    self.sw.rx_packet(ethernet(raw=frame), port)
