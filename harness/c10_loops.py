"""C10 harness: drive the REAL I/O loops with scripted byte streams on several connections.

controller side: pox.openflow.of_01.OpenFlow_01_Task.run (generator) with a fake `socket` module
switch side    : pox.lib.ioworker.RecocoIOLoop.run (generator) with RecocoIOWorker + OFConnection

Every feed runs under a deterministic step budget (line events inside the pox package), so a
decoder that stops advancing becomes the observable outcome "diverged".
"""
import errno
import os
import signal
import socket as _socket
import sys

from harness import poxenv
from harness import rawbytes as rb

core = poxenv.boot()
import pox.openflow                       # noqa: E402
import pox.openflow.of_01 as of_01        # noqa: E402
import pox.lib.ioworker as iow            # noqa: E402
from pox.datapaths import switch as swmod  # noqa: E402

if not core.hasComponent("openflow"):
  pox.openflow.launch()
if of_01.deferredSender is None:
  of_01.DeferredSender.start = lambda self: None
  of_01.deferredSender = of_01.DeferredSender()

REPO = os.path.realpath(poxenv.REPO)
RAISE_XID = 66
CLOSE_XID = 67        # the handler of the message with this xid gives the connection up (con.disconnect / close)
RAISE_SET = set()     # further xids whose handler fails (set by the C02 adapter)
BUDGET = 200000


class Diverged(BaseException):
  pass


class Budget(object):
  """Deterministic step budget: line events of code under <repo>/pox are counted; when the count
  exceeds the limit the run is *diverged* (flag `tripped`).  To get control back from code that
  swallows every exception, an interval timer then raises Diverged over and over (a trace function
  may raise only once) until the guarded block is left.  Main thread only."""
  def __init__(self, limit=BUDGET):
    self.limit = limit
    self.n = 0
    self.tripped = False
    self.active = False

  def _local(self, frame, event, arg):
    if event == "line":
      self.n += 1
      if self.n > self.limit and not self.tripped:
        self.tripped = True
        signal.setitimer(signal.ITIMER_REAL, 0.002, 0.002)
    return self._local

  def _global(self, frame, event, arg):
    if frame.f_code.co_filename.startswith(REPO):
      return self._local
    return None

  def _alarm(self, signum, frame):
    # only ever interrupt code of the system under test, never the harness (a raise inside the harness's own
    # unwinding could leave the timer armed); the spinning code is POX code, so a later tick lands there
    if self.active and self.tripped and frame is not None and frame.f_code.co_filename.startswith(REPO):
      raise Diverged()

  def __enter__(self):
    self.n = 0
    self.tripped = False
    self.active = True
    signal.signal(signal.SIGALRM, self._alarm)
    sys.settrace(self._global)
    return self

  def __exit__(self, *a):
    self.active = False
    signal.setitimer(signal.ITIMER_REAL, 0, 0)
    sys.settrace(None)
    # the handler stays installed (it does nothing while inactive): a SIGALRM that was already on its
    # way must not meet the default action, which would kill this worker process
    return False


class FSock(object):
  def __init__(self, name):
    self.name = name
    self.inq = b""
    self.out = bytearray()
    self.closed = False
    self.shut = False
    self.eof = False

  def recv(self, n, flags=0):
    if self.closed:
      raise _socket.error(errno.EBADF, "closed")
    if not self.inq:
      if self.eof:
        return b""
      raise _socket.error(errno.EAGAIN, "again")
    if flags & _socket.MSG_PEEK:
      return self.inq[:n]
    d, self.inq = self.inq[:n], self.inq[n:]
    return d

  def send(self, d, flags=0):
    if self.closed or self.shut:
      raise _socket.error(errno.EPIPE, "pipe")
    self.out += d
    return len(d)

  def shutdown(self, how):
    self.shut = True

  def close(self):
    self.closed = True

  def fileno(self):
    return -1 if self.closed else 200 + ord(self.name[0])

  def setblocking(self, x):
    pass

  def getpeername(self):
    return ("10.2.0.%d" % ord(self.name[0]), 999)

  def take_out(self):
    b = bytes(self.out)
    self.out = bytearray()
    return b


def select_would_fail(sel):
  """What select.select() does with the lists a task hands to the hub: a socket that has been closed (its
  fileno() is negative) makes it raise - and nothing in SelectHub._select catches that, so the hub, and with
  it all I/O of the process, stops.  The scripted loops never call the real select: this is its contract."""
  for lst in getattr(sel, "_args", ())[:3]:
    for s in (lst or ()):
      try:
        if s.fileno() < 0:
          return True
      except Exception:
        return True
  return False


# ---------------------------------------------------------------------------
class ControllerLoop(object):
  """the real OpenFlow_01_Task.run generator with connections A, B, ..."""
  def __init__(self, names):
    self.names = list(names)
    self.socks = {n: FSock(n) for n in names}
    self.delivered = {n: [] for n in names}
    self.cons = {}
    pending = [self.socks[n] for n in names]

    class Listener(object):
      def setsockopt(self, *a):
        pass

      def bind(self, a):
        pass

      def listen(self, n):
        pass

      def setblocking(self, x):
        pass

      def accept(self_):
        return (pending.pop(0), ("peer", 1))

      def fileno(self_):
        return 199

      def close(self_):
        pass

    class FakeSocketModule(object):
      error = _socket.error
      AF_INET = _socket.AF_INET
      SOCK_STREAM = _socket.SOCK_STREAM
      SOL_SOCKET = _socket.SOL_SOCKET
      SO_REUSEADDR = _socket.SO_REUSEADDR
      SHUT_RDWR = _socket.SHUT_RDWR

      @staticmethod
      def socket(*a):
        return self.listener
    self.listener = Listener()
    self.saved = (of_01.socket, of_01.Connection.__init__)
    of_01.socket = FakeSocketModule
    harness = self
    orig_init = of_01.Connection.__init__

    def con_init(con, sock):
      orig_init(con, sock)
      name = sock.name
      harness.cons[name] = con
      def rec(c, m, nm=name):
        harness.delivered[nm].append((m.header_type, m.xid, m.pack()))
        if m.xid == RAISE_XID or m.xid in RAISE_SET:
          raise RuntimeError("handler failure (scripted)")
        if m.xid == CLOSE_XID:
          c.disconnect("handler gives up (scripted)")      # what the handshake handlers do on an unexpected reply
      con.handlers = [rec] * 256
    of_01.Connection.__init__ = con_init
    self.alive = True
    self.died = None
    try:
      self.task = of_01.OpenFlow_01_Task(port=6633, address="0.0.0.0")
      self.gen = self.task.run()
      self.sel = next(self.gen)             # first Select
      for n in names:                        # accept each connection
        self._send(([self.listener], [], []))
        self.socks[n].take_out()             # the controller's hello
    finally:
      of_01.Connection.__init__ = self.saved[1]

  def _send(self, res):
    try:
      self.sel = self.gen.send(res)
      if select_would_fail(self.sel):
        self.alive = False
        self.died = "select:closed-socket-in-list"
        return
    except StopIteration:
      self.alive = False
      self.died = "returned"
    except Diverged:
      raise
    except BaseException as e:   # noqa
      self.alive = False
      self.died = "escaped:" + type(e).__name__

  def feed(self, name, data, eof=False, also=None):
    """make `data` readable on connection `name` and let the loop handle it; returns outcome dict.
    also = (name2, data2): the other connection becomes readable in the SAME select round (listed after `name`)"""
    s = self.socks[name]
    con = self.cons[name]
    before = {n: len(self.delivered[n]) for n in self.names}
    s.inq += data
    s.eof = eof
    s2 = con2 = None
    if also is not None:
      s2, con2 = self.socks[also[0]], self.cons[also[0]]
      s2.inq += also[1]
    out = {"diverged": False}
    b = Budget()
    try:
      with b:
        guard = 0
        while self.alive and guard < 64 and (((s.inq or eof) and not s.closed) or
                                             (s2 is not None and s2.inq and not s2.closed)):
          guard += 1
          ready = [c for c, k in ((con, s), (con2, s2)) if k is not None and not k.closed and (k.inq or (k is s and eof))]
          self._send((ready, [], []))
    except Diverged:
      pass
    if b.tripped:
      out["diverged"] = True
      self.alive = False
      self.died = "diverged"
    out["new"] = {n: self.delivered[n][before[n]:] for n in self.names}
    out["closed"] = {n: bool(self.socks[n].closed or self.cons[n].disconnected) for n in self.names}
    out["wrote"] = {n: self.socks[n].take_out() for n in self.names}
    out["alive"] = self.alive
    out["died"] = self.died
    out["residual"] = {n: len(self.cons[n].buf) for n in self.names}
    return out

  def close(self):
    of_01.socket = self.saved[0]

    class Stopped(object):          # lets the task's loop end when the generator is closed
      running = False

      def __getattr__(self_, n):
        return getattr(core, n)
    real = of_01.core
    of_01.core = Stopped()
    try:
      self.gen.close()
    except BaseException:   # noqa
      pass
    finally:
      of_01.core = real


# ---------------------------------------------------------------------------
class SwitchLoop(object):
  """the real RecocoIOLoop.run generator with one RecocoIOWorker + OFConnection per connection"""
  def __init__(self, names, connecting=False):
    """connecting=True: the workers start in the connecting state (as datapaths.OpenFlowWorker does) and
    create their OFConnection in the connect handler, so the first bytes go through IOWorker._try_connect"""
    self.names = list(names)
    self.loop = iow.RecocoIOLoop()
    self.socks = {}
    self.workers = {}
    self.ofcons = {}
    self.delivered = {n: [] for n in names}
    self.alive = True
    self.died = None
    for n in names:
      s = FSock(n)
      w = self.loop.new_worker(s)

      def mk(worker, nm=n):
        c = swmod.OFConnection(worker)
        def rec(con, m, nm=nm):
          self.delivered[nm].append((m.header_type, m.xid, m.pack()))
          if m.xid == RAISE_XID or m.xid in RAISE_SET:
            raise RuntimeError("handler failure (scripted)")
          if m.xid == CLOSE_XID:
            con.close()                                      # the switch side gives up on its controller connection
        c.set_message_handler(rec)
        self.ofcons[nm] = c
      if connecting:
        w._connecting = True
        w.connect_handler = mk
      else:
        mk(w)
      self.socks[n], self.workers[n] = s, w
    self.gen = self.loop.run()
    self.sel = next(self.gen)
    self._send(([self.loop.pinger] if self._pinged() else [], [], []))      # registers the workers

  def _send(self, res):
    try:
      self.sel = self.gen.send(res)
      if select_would_fail(self.sel):
        self.alive = False
        self.died = "select:closed-socket-in-list"
        return
    except StopIteration:
      self.alive = False
      self.died = "returned"
    except Diverged:
      raise
    except BaseException as e:   # noqa
      self.alive = False
      self.died = "escaped:" + type(e).__name__

  def _pinged(self):
    import select
    return bool(select.select([self.loop.pinger], [], [], 0)[0])

  def feed(self, name, data, eof=False):
    s = self.socks[name]
    w = self.workers[name]
    before = {n: len(self.delivered[n]) for n in self.names}
    s.inq += data
    s.eof = eof
    out = {"diverged": False}
    b = Budget()
    try:
      with b:
        guard = 0
        while self.alive and (s.inq or eof) and not s.closed and guard < 64:
          guard += 1
          if w not in self.loop._workers:
            break
          self._send(([w], [], []))
        if self.alive:
          # let pending commands (close requests) and writes run
          for _ in range(3):
            ws = [x for x in self.loop._workers if x._ready_to_send]
            rl = [self.loop.pinger] if self._pinged() else []
            if not ws and not rl:
              break
            self._send((rl, ws, []))
    except Diverged:
      pass
    if b.tripped:
      out["diverged"] = True
      self.alive = False
      self.died = "diverged"
    out["new"] = {n: self.delivered[n][before[n]:] for n in self.names}
    out["closed"] = {n: bool(self.socks[n].closed or self.workers[n].closed or self.workers[n]._shutdown_send)
                     for n in self.names}
    wrote = {}
    for n in self.names:
      wb = self.socks[n].take_out()
      # bytes still in the worker's send buffer count as written (nothing blocks the socket here)
      wrote[n] = wb
    out["wrote"] = wrote
    out["alive"] = self.alive and bool(core.running)
    out["died"] = self.died
    out["residual"] = {n: len(self.workers[n].receive_buf) for n in self.names}
    return out

  def close(self):
    try:
      self.gen.close()
    except BaseException:   # noqa
      pass
    p = self.loop.pinger
    for fd in (p._w, p._r):
      try:
        os.close(fd)
      except Exception:
        pass
    p._w = p._r = -1


# ---------------------------------------------------------------------------
# message catalogue and fault concretisation

def good(side, kind, xid):
  """a valid message of `kind` travelling towards `side` ('ctl' = to controller, 'sw' = to switch)"""
  pl = bytes((i * 7 + xid) & 0xff for i in range(20))
  if side == "ctl":
    return {
        "echo": lambda: rb.echo_request(b"ab", xid),
        "hello": lambda: rb.hello(xid),
        "barrier": lambda: rb.barrier_reply(xid),
        "pktin": lambda: rb.packet_in(rb.NO_BUFFER, len(pl), 1, 0, pl, xid),
        "portstatus": lambda: rb.port_status(2, rb.phy_port(3, "00:00:00:00:00:03", "p3"), xid),
        "error": lambda: rb.error(1, 1, b"xy", xid),
        "vendor": lambda: rb.vendor(0x2320, b"abcd", xid),
        "features": lambda: rb.features_reply(7, [rb.phy_port(1, "00:00:00:00:00:01", "p1")], xid=xid),
        "stats": lambda: rb.stats_reply(rb.ST_FLOW, rb.flow_stats_entry(actions=rb.a_output(1)), xid=xid),
        "queuecfg": lambda: rb.msg(rb.QUEUE_GET_CONFIG_REPLY, rb.struct.pack("!Hxxxxxx", 1) +
                                   rb.struct.pack("!IHxx", 1, 24) + rb.struct.pack("!HHxxxxHxxxxxx", 1, 16, 5), xid),
    }[kind]()
  return {
      "echo": lambda: rb.echo_request(b"ab", xid),
      "hello": lambda: rb.hello(xid),
      "barrier": lambda: rb.barrier_request(xid),
      "flowmod": lambda: rb.flow_mod(rb.match(), actions=rb.a_output(1) + rb.a_dl_src("00:00:00:00:00:09"), xid=xid),
      "pktout": lambda: rb.packet_out(rb.NO_BUFFER, rb.OFPP_NONE, rb.a_output(2), pl, xid),
      "setconfig": lambda: rb.set_config(0, 100, xid),
      "statsreq": lambda: rb.stats_request(rb.ST_FLOW, rb.flow_stats_request_body(), xid=xid),
      "portmod": lambda: rb.port_mod(1, "00:00:00:00:00:01", 0, 0, 0, xid),
      "vendor": lambda: rb.vendor(0x2320, b"abcd", xid),
  }[kind]()


KINDS = {"ctl": ["vendor", "hello", "echo", "barrier", "pktin", "portstatus", "error", "features", "stats", "queuecfg"],
         "sw": ["hello", "echo", "barrier", "flowmod", "pktout", "setconfig", "statsreq", "portmod", "vendor"]}
# where an embedded (action / entry / property) length field lives: offset of its 2-byte length
INNER = {("sw", "flowmod"): 72 + 2, ("sw", "pktout"): 16 + 2, ("ctl", "stats"): 12, ("ctl", "queuecfg"): 16 + 4 + 8 + 2}
FIXED = {"hello": 8, "echo": 8, "barrier": 8, "pktin": 18, "portstatus": 64, "error": 12, "features": 32, "stats": 12,
         "queuecfg": 16, "flowmod": 72, "pktout": 16, "setconfig": 12, "statsreq": 12, "portmod": 32, "vendor": 12}
WRONG_DIR = {"ctl": rb.FLOW_MOD, "sw": rb.PACKET_IN}


def corrupt(side, kind, xid, fault, param=0):
  """returns (bytes, claimed length, consistent) for fault class `fault`"""
  g = bytearray(good(side, kind, xid))
  n = len(g)

  def setlen(v):
    g[2:4] = rb.struct.pack("!H", v & 0xffff)
  if "+" in fault:                    # two fields of the same header: version/type, then the length
    first, second = fault.split("+")
    c = corrupt(side, kind, xid, second, param)
    if c is None:
      return None
    h = bytearray(c[0])
    if first == "BAD_VERSION":
      h[0] = (0x04, 0x00, 0xff, 0x02)[(param // 4) % 4]
    elif first == "TYPE_UNKNOWN":
      h[1] = (22, 0xff, 23, 0x7f)[(param // 4) % 4]
    else:
      raise ValueError(fault)
    # with an unknown type there is no "fixed part" the length could fall short of
    return bytes(h), c[1], (False if first == "TYPE_UNKNOWN" and c[2] == "short" else c[2])
  if fault in ("OK", "HANDLER_RAISES", "HANDLER_CLOSES"):
    return bytes(g), n, True
  if fault == "MUTATED":              # param seeds 1-3 random byte changes of a valid message
    import random
    r = random.Random(param * 7919 + n)
    for _ in range(1 + r.randrange(3)):
      g[r.randrange(n)] = r.randrange(256)
    return bytes(g), n, False
  if fault == "RANDOM":               # param seeds a fully random byte string
    import random
    r = random.Random(param * 104729 + 3)
    return bytes(r.randrange(256) for _ in range(1 + r.randrange(80))), n, False
  if fault == "BAD_VERSION":
    g[0] = (0x04, 0x00, 0xff, 0x02)[param % 4]
    return bytes(g), n, True
  if fault == "TYPE_UNKNOWN":
    g[1] = (22, 23, 0x7f, 0xff)[param % 4]
    return bytes(g), n, True
  if fault == "TYPE_WRONG_DIR":
    w = bytearray(rb.flow_mod(rb.match(), xid=xid) if side == "ctl" else
                  rb.packet_in(rb.NO_BUFFER, 4, 1, 0, b"abcd", xid))
    return bytes(w), len(w), True
  if fault == "LEN_LT_8":
    v = (0, 4, 7, 1)[param % 4]
    setlen(v)
    return bytes(g), v, False
  if fault == "LEN_LT_NEEDED":       # claims less than the fixed part of this kind (but >= 8)
    v = max(8, FIXED[kind] - 1 - (param % 3))
    if v >= n:
      return None
    setlen(v)
    return bytes(g), v, ("short" if v < FIXED[kind] else False)
  if fault == "LEN_GT_ACTUAL":       # claims more than was sent
    v = n + (1, 8, 3)[param % 3]
    setlen(v)
    return bytes(g), v, False
  if fault == "INNER_LEN_BAD":
    off = INNER.get((side, kind))
    if off is None:
      return None
    v = (0, 4, 7, 0xffff, 12)[param % 5]
    g[off:off + 2] = rb.struct.pack("!H", v)
    return bytes(g), n, True
  if fault == "TRUNCATED":           # cut short, stream ends (EOF)
    cut = 1 + (param % (n - 1))
    return bytes(g[:cut]), n, False
  raise ValueError(fault)


COMPOUND = ["BAD_VERSION+LEN_LT_8", "TYPE_UNKNOWN+LEN_LT_8", "BAD_VERSION+LEN_GT_ACTUAL", "TYPE_UNKNOWN+LEN_GT_ACTUAL",
            "BAD_VERSION+LEN_LT_NEEDED", "TYPE_UNKNOWN+LEN_LT_NEEDED"]
HEADER_FAULTS = ["BAD_VERSION", "TYPE_UNKNOWN", "LEN_LT_8", "LEN_LT_NEEDED", "LEN_GT_ACTUAL"]
FAULTS = ["HANDLER_RAISES", "HANDLER_CLOSES", "BAD_VERSION", "TYPE_UNKNOWN", "TYPE_WRONG_DIR", "LEN_LT_8", "LEN_LT_NEEDED", "LEN_GT_ACTUAL",
          "INNER_LEN_BAD", "TRUNCATED"]
