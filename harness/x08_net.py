"""X08 network harness: the real host_tracker (+ real openflow.discovery) over real switches.

  host frames --> SoftwareSwitch (real) --OFConnection/IOWorker (real)--+
                                                                         | bytes
  host_tracker / Discovery (real) <-- events -- of_01.Connection (real) -+

* N real `SoftwareSwitch`es, each behind a real `OFConnection` on a stub IOWorker, connected byte for byte
  to a real `of_01.Connection` on a scripted socket; a synchronous pump moves the bytes until nothing is in
  flight; everything that crosses a channel is tapped and decoded by harness/rawbytes.py.
* Fresh controller per `Net`: new OpenFlowNexus, `openflow.discovery` and `host_tracker` started through
  their own `launch()` (host_tracker's knobs - timeoutSec / pingLim - go through launch() like on the command
  line).  Discovery runs with a huge link timeout, so that it neither probes nor forgets within a scenario; a
  switch-to-switch link becomes known the way it does in production: an LLDP probe (the frame discovery itself
  would have sent) arrives at the far port and comes up as a PACKET_IN.
* The recoco scheduler is owned by the harness (poxenv): `advance(d)` lets `d` seconds of VIRTUAL time pass
  WITHOUT serving timers that fall due exactly at the new instant, `fire()` serves the timers that are due -
  so the tracker's own recurring `Timer(timerInterval)` is observed firing at exactly its instants.
* Frames are bytes built with struct only; frames leaving switch ports are taken from `DpPacketOut` and
  decoded with struct only.
* `host_tracker.log` is replaced by a recorder (the "Possible duplicate" warning is the only way the code
  makes its entryMove rule visible); exceptions swallowed by revent are recorded.

Nothing here decides anything: it drives the real code and hands back what happened.
"""
import os
import select as _select
import struct

from engine.core import Machinery
from harness import poxenv
from harness import rawbytes as rb

core = poxenv.boot()

import pox.openflow as ofmod                                  # noqa: E402
import pox.openflow.of_01 as of_01                            # noqa: E402
import pox.lib.recoco.recoco as recoco                        # noqa: E402
import pox.lib.revent.revent as reventmod                     # noqa: E402
from pox.lib.ioworker import IOWorker                         # noqa: E402
from pox.lib.util import make_pinger                          # noqa: E402
from pox.datapaths import switch as swmod                     # noqa: E402
from pox.openflow import flow_table as ftmod                  # noqa: E402
from pox.lib.packet.ethernet import ethernet                  # noqa: E402

ofmod.launch()
of_01.DeferredSender.start = lambda self: None
if of_01.deferredSender is None:
  of_01.deferredSender = of_01.DeferredSender()

import pox.openflow.discovery as discmod                      # noqa: E402
import pox.host_tracker as htpkg                              # noqa: E402
import pox.host_tracker.host_tracker as htmod                 # noqa: E402

clock = poxenv.install_clock(recoco, of_01, swmod, ftmod, discmod, htmod)

HT_DEFAULTS = dict(htmod.timeoutSec)
PINGLIM_DEFAULT = htmod.PingCtrl.pingLim
PING_MAC = htmod.DEFAULT_ARP_PING_SRC_MAC
LINK_TIMEOUT = 10 ** 7
NDP_MCAST = "01:23:20:00:00:01"

FAULTS = []


def _hook(source, event, args, kw, exc_info):
  FAULTS.append("%s: %s" % (type(exc_info[1]).__name__, str(exc_info[1])[:120]))


reventmod.handleEventException = _hook


class Horizon(Exception):
  """raised by the select shim when the next timer lies beyond the target"""


class Diverged(Exception):
  """the control loop did not become quiet (code under test)"""


class ChannelLost(Exception):
  """the controller gave up an OpenFlow connection (code under test)"""


class LogRec(object):
  """stands in for host_tracker's module logger"""
  def __init__(self):
    self.recs = []

  def _r(self, lvl, msg, args):
    try:
      s = msg % args if args else msg
    except Exception:
      s = str(msg)
    self.recs.append((lvl, s))

  def debug(self, msg, *a, **k):
    pass

  def info(self, msg, *a, **k):
    self._r("info", msg, a)

  def warning(self, msg, *a, **k):
    self._r("warning", msg, a)

  warn = warning

  def error(self, msg, *a, **k):
    self._r("error", msg, a)

  def exception(self, msg, *a, **k):
    self._r("error", msg, a)

  def take(self):
    r, self.recs = self.recs, []
    return r


class CtlSock(object):
  _fileno = 8000

  def __init__(self, k):
    self.k = k
    self.inq = []
    self.out = b""
    self.closed = False
    self.shut = False
    CtlSock._fileno += 1
    self._fd = CtlSock._fileno

  def fileno(self):
    return self._fd

  def getpeername(self):
    return ("10.9.0.%d" % self.k, 41000 + self.k)

  def setblocking(self, v):
    pass

  def send(self, data):
    if self.closed or self.shut:
      import socket
      raise socket.error(32, "Broken pipe")
    self.out += data
    return len(data)

  def recv(self, n, flags=0):
    if self.inq:
      d = self.inq.pop(0)
      if len(d) > n:
        self.inq.insert(0, d[n:])
        d = d[:n]
      return d
    if self.shut or self.closed:
      return b""
    import socket
    raise socket.error(11, "Resource temporarily unavailable")

  def shutdown(self, how):
    self.shut = True

  def close(self):
    self.closed = True


class SwSock(object):
  def getpeername(self):
    return ("127.0.0.1", 6633)


# ---------------------------------------------------------------- frames (struct only)

def ip_udp_frame(dst_mac, src_mac, src_ip, dst_ip, sport=4000, dport=9, payload_len=18):
  pl = bytes((i * 5 + 1) & 0xff for i in range(payload_len))
  udp_len = 8 + len(pl)
  pseudo = rb.ip(src_ip) + rb.ip(dst_ip) + struct.pack("!BBH", 0, 17, udp_len)
  udp = struct.pack("!HHHH", sport, dport, udp_len, 0) + pl
  c = rb.csum(pseudo + udp) or 0xffff
  udp = struct.pack("!HHHH", sport, dport, udp_len, c) + pl
  hdr = struct.pack("!BBHHHBBH4s4s", 0x45, 0, 20 + udp_len, 1, 0, 64, 17, 0, rb.ip(src_ip), rb.ip(dst_ip))
  hdr = hdr[:10] + struct.pack("!H", rb.csum(hdr)) + hdr[12:]
  return rb.eth(dst_mac, src_mac, 0x0800, hdr + udp)


def arp_frame(eth_dst, eth_src, op, sha, spa, tha, tpa, htype=1):
  body = struct.pack("!HHBBH6s4s6s4s", htype, 0x0800, 6, 4, op, rb.mac(sha), rb.ip(spa), rb.mac(tha), rb.ip(tpa))
  return rb.pad_to(rb.eth(eth_dst, eth_src, 0x0806, body), 60)


def lldp_probe(dpid, port, src_mac, dst=NDP_MCAST, ttl=120):
  """the discovery probe POX sends out of (dpid, port): chassis (local) 'dpid:<hex>', port (SUB_PORT) decimal,
  ttl, system description 'dpid:<hex>', end"""
  def tlv(t, v):
    return struct.pack("!H", (t << 9) | len(v)) + v
  ident = ("dpid:%x" % dpid).encode()
  body = (tlv(1, b"\x07" + ident) + tlv(2, b"\x02" + str(port).encode()) + tlv(3, struct.pack("!H", ttl)) +
          tlv(6, ident) + tlv(0, b""))
  return rb.pad_to(rb.eth(dst, src_mac, 0x88cc, body), 60)


def _mac_s(b):
  return ":".join("%02x" % x for x in b)


def _ip_s(b):
  return ".".join(str(x) for x in b)


def decode_frame(fr):
  """Ethernet frame -> dict (struct only)"""
  d = dict(ed=_mac_s(fr[0:6]), es=_mac_s(fr[6:12]), len=len(fr))
  et = struct.unpack("!H", fr[12:14])[0]
  d["et"] = et
  if et == 0x0806 and len(fr) >= 42:
    ht, pt, hl, pl, op = struct.unpack("!HHBBH", fr[14:22])
    d.update(kind="arp", htype=ht, ptype=pt, hlen=hl, plen=pl, op=op, sha=_mac_s(fr[22:28]), spa=_ip_s(fr[28:32]),
             tha=_mac_s(fr[32:38]), tpa=_ip_s(fr[38:42]), trailer=len(fr) - 42)
  else:
    d["kind"] = "other"
  return d


# ---------------------------------------------------------------- the network

class Node(object):
  pass


class Net(object):
  MAX_ROUNDS = 200

  def __init__(self, nsw=2, nports=3, max_buffers=2, miss_send_len=128, consts=None, dpids=None):
    """consts: keyword arguments of host_tracker.launch (arpAware, arpSilent, arpReply, timerInterval,
    entryMove, pingLim)"""
    self.nsw = nsw
    self.nports = nports
    self.dpids = dpids or list(range(1, nsw + 1))
    self.s_of = {d: i + 1 for i, d in enumerate(self.dpids)}
    self.emitted = []
    self.seen = []                      # PacketIns that reached a listener AFTER the tracker
    self.host_events = []
    del FAULTS[:]
    self._target = clock.now
    self._fresh_controller(consts or {})
    self.t0 = clock.now                 # the tracker (and its Timer) was created now
    self.nodes = {}
    for s in range(1, nsw + 1):
      n = Node()
      n.s = s
      n.dpid = self.dpids[s - 1]
      n.sw = swmod.SoftwareSwitch(n.dpid, ports=nports, max_buffers=max_buffers, miss_send_len=miss_send_len)
      n.sw.addListenerByName("DpPacketOut", self._on_out(s))
      n.c2s_raw = n.s2c_raw = b""
      n.con = None
      n.up = False
      self.nodes[s] = n
    self.setup = {}
    for s in range(1, nsw + 1):
      self.setup[s] = self.connect(s)

  # -------------------------------------------------------------- controller
  def _fresh_controller(self, consts):
    sched = core.scheduler
    hub = sched._selectHub
    self.sched, self.hub = sched, hub
    if getattr(hub, "_x08_pid", None) != os.getpid():
      # a forked worker inherits the hub's wake-up pipe and would share it with its siblings: own pipe
      old_pinger, hub._pinger = hub._pinger, make_pinger()
      hub._x08_old_pinger = old_pinger
      hub._x08_pid = os.getpid()
    hub._select_func = self._vselect
    sched._ready.clear()
    for t in list(hub._tasks):
      if isinstance(t, recoco.Timer):
        t._cancelled = True
        del hub._tasks[t]
    keep = []
    while not hub._incoming.empty():
      it = hub._incoming.get(True)
      hub._incoming.task_done()
      if not isinstance(it[0], recoco.Timer):
        keep.append(it)
    for it in keep:
      hub._incoming.put(it)
    old = core.components.get("openflow")
    if old is not None:
      try:
        core.removeListener(old._handle_DownEvent)
      except Exception:
        pass
    self.nexus = ofmod.OpenFlowNexus()
    core.components["openflow"] = self.nexus
    core.components["OpenFlowConnectionArbiter"] = ofmod.OpenFlowConnectionArbiter()
    of_01.Connection.ID = 0
    of_01.deferredSender.sending = False
    of_01.deferredSender._dataForConnection.clear()
    for name in ("openflow_discovery", "host_tracker"):
      core.components.pop(name, None)
    htmod.timeoutSec.clear()
    htmod.timeoutSec.update(HT_DEFAULTS)
    htmod.PingCtrl.pingLim = PINGLIM_DEFAULT
    self.log = LogRec()
    htmod.log = self.log
    htpkg.log = self.log
    discmod.launch(link_timeout=LINK_TIMEOUT)
    self.disc = core.components["openflow_discovery"]
    for k in consts:
      if k not in HT_DEFAULTS and k != "pingLim":
        raise Machinery("unknown host_tracker option " + k)
    htpkg.launch(**{k: str(v) for k, v in consts.items()})     # command-line values are strings
    self.comp = core.components["host_tracker"]
    bad = [m for lvl, m in self.log.take() if lvl != "info"]
    if bad:
      raise Machinery("host_tracker.launch complained about its options: %r" % bad)
    self.comp.addListener(htmod.HostEvent, self._on_host)
    # a listener that runs after the tracker: tells whether the PacketIn was halted
    self.nexus.addListenerByName("PacketIn", self._after, priority=-100000)

  def _after(self, event):
    self.seen.append(self.s_of.get(event.dpid, 0))

  def _on_host(self, e):
    kind = "join" if e.join else "leave" if e.leave else "move"
    ent = e.entry
    rec = dict(k=kind, mac=str(ent.macaddr), dpid=ent.dpid, port=ent.port, nd=0, np=0)
    if e.move:
      rec["nd"], rec["np"] = e.new_dpid, e.new_port
    self.host_events.append(rec)

  def _on_out(self, s):
    def h(e):
      self.emitted.append((s, e.port.port_no, e.packet.pack()))
    return h

  # -------------------------------------------------------------- connections
  def connect(self, s):
    """switch s (re)connects: hello / features / ... / ConnectionUp; returns what crossed the channel"""
    n = self.nodes[s]
    if n.up:
      raise Machinery("switch %d is connected" % s)
    n.worker = IOWorker()
    n.worker.socket = SwSock()
    n.ofc = swmod.OFConnection(n.worker)
    n.sock = CtlSock(s)
    n.sw.set_connection(n.ofc)
    n.con = of_01.Connection(n.sock)
    n.up = True
    self._settle()
    if self.nexus.getConnection(n.dpid) is not n.con or n.con.connect_time is None:
      raise Machinery("x08_net: handshake of switch %d did not complete" % s)
    return self.take()

  def disconnect(self, s):
    """the TCP connection of switch s ends (EOF at the controller), as the of_01 loop handles it"""
    n = self.nodes[s]
    if not n.up:
      raise Machinery("switch %d is not connected" % s)
    n.sock.shut = True
    if n.con.read() is not False:
      raise Machinery("EOF not reported by Connection.read()")
    n.con.close()
    n.up = False
    n.worker.send_buf = b""
    self._settle()
    return self.take()

  # -------------------------------------------------------------- time
  def _vselect(self, r, w, x, timeout):
    ro, wo, xo = _select.select(list(r), list(w), list(x), 0)
    if not (ro or wo or xo) and not self.hub._incoming.empty():
      self.hub._pinger.ping()
      ro, wo, xo = _select.select(list(r), list(w), list(x), 0)
    if ro or wo or xo:
      return ro, wo, xo
    if timeout is None:
      raise Horizon()
    if self._strict:
      if clock.now + timeout >= self._target:
        raise Horizon()
    elif clock.now + timeout > self._target:
      raise Horizon()
    clock.advance(timeout)
    return [], [], []

  _strict = False

  def _settle(self):
    for _ in range(10000):
      busy = False
      while self.sched._ready:
        self.sched.cycle()
        busy = True
      if self._pump():
        busy = True
      if not busy:
        return
    raise Machinery("x08_net: did not settle")

  def _run_timers(self):
    for _ in range(100000):
      self._settle()
      try:
        self.hub._select(self.hub._tasks, {})
      except Horizon:
        if not self.sched._ready:
          break
    else:
      raise Machinery("x08_net: too many timer steps")
    self._settle()

  def advance(self, d):
    """d seconds of virtual time pass; timers due strictly before the new instant fire at their instants,
    timers due exactly at the new instant are left to fire()"""
    self._target = clock.now + d
    self._strict = True
    try:
      self._run_timers()
    finally:
      self._strict = False
    clock.now = self._target

  def fire(self):
    """serve every timer that is due now"""
    self._target = clock.now
    self._run_timers()

  def timer_due(self):
    """seconds until the tracker's own Timer fires next"""
    return self.comp._t._next - clock.now

  @property
  def now(self):
    return clock.now - self.t0

  # -------------------------------------------------------------- bytes
  def _pump(self):
    moved = False
    for _ in range(self.MAX_ROUNDS):
      again = False
      for n in self.nodes.values():
        if not n.up:
          continue
        if n.sock.out:
          data, n.sock.out = n.sock.out, b""
          n.c2s_raw += data
          n.worker._push_receive_data(data)
          again = True
        if n.worker.send_buf:
          data, n.worker.send_buf = n.worker.send_buf, b""
          n.s2c_raw += data
          n.sock.inq.append(data)
          while n.sock.inq:
            if n.con.read() is False:
              raise ChannelLost("controller dropped the connection of switch %d" % n.s)
          again = True
      if not again:
        return moved
      moved = True
    raise Diverged("control channels still busy after %d rounds" % self.MAX_ROUNDS)

  def take(self):
    """everything that happened since the last take()"""
    c2s, s2c = {}, {}
    for s, n in self.nodes.items():
      c2s[s] = rb.parse_stream(n.c2s_raw)
      s2c[s] = rb.parse_stream(n.s2c_raw)
      n.c2s_raw = n.s2c_raw = b""
    em, self.emitted = self.emitted, []
    seen, self.seen = self.seen, []
    he, self.host_events = self.host_events, []
    faults = list(FAULTS)
    del FAULTS[:]
    return dict(c2s=c2s, s2c=s2c, emitted=em, seen=seen, events=he, log=self.log.take(), faults=faults)

  def inject(self, s, port, frame):
    n = self.nodes[s]
    n.sw.rx_packet(ethernet(raw=frame), port)
    if not n.up:
      n.worker.send_buf = b""           # nobody is listening
    self._settle()
    return self.take()

  # -------------------------------------------------------------- projections
  def table(self):
    """host_tracker's tables: mac -> (dpid, port, age, {ip -> (hasARP, age, pending, age of the last ping)})"""
    out = {}
    now = clock.now
    for mac, e in self.comp.entryByMAC.items():
      ips = {}
      for ipa, ie in e.ipAddrs.items():
        ips[str(ipa)] = (bool(ie.hasARP), now - ie.lastTimeSeen, ie.pings.pending, now - ie.pings.lastTimeSeen,
                         ie.interval)
      out[str(mac)] = (e.dpid, e.port, now - e.lastTimeSeen, ips, str(e.macaddr), e.interval)
    return out

  def nonedge(self):
    return sorted([s, p] for s in range(1, self.nsw + 1) for p in range(1, self.nports + 1)
                  if not self.disc.is_edge_port(self.nodes[s].dpid, p))

  def port_mac(self, s, p):
    return str(self.nodes[s].sw.ports[p].hw_addr)

  def close(self):
    try:
      self.comp._t.cancel()
    except Exception:
      pass
