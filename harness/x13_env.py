"""X13 substrate: the REAL RecocoIOLoop task running on a fresh real recoco Scheduler / SelectHub that the harness
steps (harness/x04_sched.VSched, virtual clock), with RecocoIOWorker / RecocoServerWorker / PersistentIOWorker /
BackoffWorker objects on scripted sockets.

How the loop is driven without touching it
  * select(): SelectHub._select_func is a stand-in.  It polls the real pinger pipes with timeout 0 and reports a
    scripted worker as ready only when the current step says so (`arm`).  The loop's own pinger is reported only
    when the step allows a wake-up (`allow_wake`), and at most once per step - delaying a wake-up is scheduler
    latency, nothing the code could notice.  What the loop ASKED select for is recorded (`asked`): that is the
    observation "who is selected for reading / writing / errors".
  * one slice of the loop task = [select returns -> _do_exception* -> _do_recv* -> _do_send* -> pending commands ->
    next Select].  The spec has one action per element of that list, so the harness takes a state snapshot at each
    of them: the per-instance attributes _do_exception/_do_recv/_do_send of every worker are thin wrappers that
    record (kind, worker, snapshot BEFORE the call) and then call the class's method; the loop's
    `_pending_commands` is a deque subclass whose __len__ (the first thing the top of the loop evaluates) records the
    snapshot "all of this round's workers served".  Neither changes what the code does.
  * sockets: FSock (recv / send / shutdown / close scripted, every call logged), LSock (listening: accept),
    FakeSocketModule stands in for the `socket` module inside pox.lib.ioworker.workers (server bind/listen, the
    reconnecting workers' connect_ex).
"""
import collections
import errno
import os
import select as _select
import socket as _socket

from harness import poxenv

core = poxenv.boot()
from harness.x04_sched import VSched, WouldWait, clock      # noqa: E402
import pox.lib.ioworker as iow                               # noqa: E402
import pox.lib.ioworker.workers as wmod                      # noqa: E402

ERRNO = {"reset": errno.ECONNRESET, "enoent": errno.ENOENT, "again": errno.EAGAIN, "refused": errno.ECONNREFUSED}


def _err(name):
  return _socket.error(ERRNO[name], "scripted " + name)


class FSock(object):
  """a scripted stream socket"""
  kind = "stream"

  def __init__(self, name):
    self.name = name
    self.inq = b""            # bytes queued for reading
    self.eof = False          # the peer has closed
    self.serr = None          # error the next recv raises (one shot)
    self.nshutrd = 0
    self.nclose = 0
    self.out = bytearray()    # bytes accepted by send
    self.send_script = []     # outcomes of the next send calls: full | part | eagain | fatal
    self.log = []             # (op, outcome)
    self.connect_result = 0
    self.connected_to = None
    self.blocking = True

  def fileno(self):
    return 10000 + (self.name if isinstance(self.name, int) else 0)

  def setblocking(self, b):
    self.blocking = bool(b)

  def getpeername(self):
    return ("10.13.0.%d" % (self.name if isinstance(self.name, int) else 1), 4000)

  def connect_ex(self, addr):
    self.connected_to = addr
    self.log.append(("connect_ex", self.connect_result))
    return self.connect_result

  def recv(self, n, flags=0):
    op = "peek" if flags & _socket.MSG_PEEK else "recv"
    if self.nclose:
      self.log.append((op, "ebadf"))
      raise _socket.error(errno.EBADF, "closed")
    if self.serr:
      e, self.serr = self.serr, None
      self.log.append((op, e))
      raise _err(e)
    if self.inq:
      d = self.inq[:n]
      if op == "recv":
        self.inq = self.inq[n:]
      self.log.append((op, "data"))
      return d
    if self.eof or self.nshutrd:
      self.log.append((op, "eof"))
      return b""
    self.log.append((op, "again"))
    raise _err("again")

  def send(self, data, flags=0):
    if self.nclose:
      self.log.append(("send", "ebadf"))
      raise _socket.error(errno.EBADF, "closed")
    o = self.send_script.pop(0) if self.send_script else "full"
    self.log.append(("send", o))
    if o == "full":
      self.out += data
      return len(data)
    if o == "part":
      self.out += data[:1]
      return 1
    if o == "eagain":
      raise _err("again")
    raise _socket.error(errno.EPIPE, "scripted fatal")

  def shutdown(self, how):
    if how in (_socket.SHUT_RD, _socket.SHUT_RDWR):
      self.nshutrd += 1
    self.log.append(("shutdown", how))

  def close(self):
    self.nclose += 1


class LSock(FSock):
  """a scripted listening socket"""
  kind = "listen"

  def __init__(self, name):
    FSock.__init__(self, name)
    self.acceptq = []
    self.bound = None
    self.backlog = None
    self.reuse = False

  def setsockopt(self, level, opt, val):
    if level == _socket.SOL_SOCKET and opt == _socket.SO_REUSEADDR and val:
      self.reuse = True

  def bind(self, addr):
    self.bound = addr

  def listen(self, n):
    self.backlog = n

  def getsockname(self):
    return self.bound

  def accept(self):
    if self.serr:
      e, self.serr = self.serr, None
      self.log.append(("accept", e))
      raise _err(e)
    if self.nshutrd or self.nclose:
      self.log.append(("accept", "einval"))
      raise _socket.error(errno.EINVAL, "not listening")
    if not self.acceptq:
      self.log.append(("accept", "again"))
      raise _err("again")
    c = self.acceptq.pop(0)
    self.log.append(("accept", "ok"))
    return c, c.getpeername()


class FakeSocketModule(object):
  """stands in for the `socket` module inside pox.lib.ioworker.workers"""
  error = _socket.error
  AF_INET = _socket.AF_INET
  SOCK_STREAM = _socket.SOCK_STREAM
  SOL_SOCKET = _socket.SOL_SOCKET
  SO_REUSEADDR = _socket.SO_REUSEADDR
  SHUT_RD = _socket.SHUT_RD
  SHUT_WR = _socket.SHUT_WR
  SHUT_RDWR = _socket.SHUT_RDWR
  MSG_PEEK = _socket.MSG_PEEK
  MSG_DONTWAIT = getattr(_socket, "MSG_DONTWAIT", 0)

  def __init__(self):
    self.next = []            # sockets to hand out, in order
    self.made = []

  def socket(self, *a):
    s = self.next.pop(0)
    self.made.append(s)
    return s


class ObsDeque(collections.deque):
  """RecocoIOLoop._pending_commands with an observation point: the top of the loop begins with len(...)"""
  hook = None

  def __len__(self):
    if self.hook is not None:
      self.hook()
    return collections.deque.__len__(self)


class Env(object):
  def __init__(self, nslots, bufsize=None):
    self.N = nslots
    self.vs = VSched()
    self.saved = (core.scheduler, wmod.socket)
    core.scheduler = self.vs.sched          # core.callDelayed / callLater of the reconnecting workers
    self.sockmod = FakeSocketModule()
    wmod.socket = self.sockmod
    self.loop = iow.RecocoIOLoop()
    if bufsize is not None:
      self.loop._BUF_SIZE = bufsize
    dq = ObsDeque()
    dq.hook = self._on_top
    self.loop._pending_commands = dq
    self.vs.hub._select_func = self._vselect
    self.workers = {}         # slot -> worker object
    self.socks = {}           # slot -> scripted socket
    self.slot_of = {}         # id(worker) -> slot
    self.cnt = {}             # slot -> counters
    self.asked = None
    self.armed = None
    self.allow_wake = False
    self.allow_all = False    # Reconn adapter: every real pinger may wake its task
    self.script_error = None
    self.calls = []           # this slice: dicts kind, w, pre (snapshot), and what happened
    self.cur = None
    self.top_snap = None
    self.plan = {}
    self.on_rx = None
    with self.vs.in_thread(True):
      self.loop.start(self.vs.sched)

  # ---- select stand-in
  def _vselect(self, r, w, x, timeout):
    r, w, x = list(r), list(w), list(x)
    fake = lambda o: isinstance(o, iow.IOWorker)     # noqa: E731
    real = [o for o in r if not fake(o)]
    if not (self.allow_wake or self.allow_all):
      real = [o for o in real if o is not self.loop.pinger]
    ro = _select.select(real, [], [], 0)[0] if real else []
    if self.loop.pinger in r:
      self.asked = ([o for o in r if fake(o)], [o for o in w if fake(o)], [o for o in x if fake(o)], timeout)
      if self.armed is not None:
        a, self.armed = self.armed, None
        for lst, asked in zip(a, (r, w, x)):
          for o in lst:
            if o not in asked:
              self.script_error = "select was told to return a worker the loop did not select on"
        self.allow_wake = False
        return (ro + [o for o in a[0] if o in r], [o for o in a[1] if o in w], [o for o in a[2] if o in x])
    if self.loop.pinger in ro:
      self.allow_wake = False
    if ro:
      return ro, [], []
    raise WouldWait()

  # ---- observation points inside a slice
  def _on_top(self):
    if self.top_snap is None:
      self._finish_call()
      self.top_snap = self.snapshot()

  def _finish_call(self):
    self.cur = None

  def _wrap(self, worker):
    env = self

    def mk(kind, name):
      orig = getattr(type(worker), name)

      def hooked(loop):
        env._finish_call()
        slot = env.slot_of.get(id(worker), -1)
        sock = env.socks.get(slot)
        rec = dict(kind=kind, w=slot, pre=env.snapshot(), rx=None, raised=False, log0=len(sock.log) if sock else 0,
                   child=None)
        env.calls.append(rec)
        env.cur = rec
        return orig(worker, loop)
      return hooked
    worker._do_exception = mk("x", "_do_exception")
    worker._do_recv = mk("r", "_do_recv")
    worker._do_send = mk("w", "_do_send")

  # ---- workers
  def free_slot(self):
    for s in range(1, self.N + 1):
      if s not in self.workers:
        return s
    return None

  def adopt(self, worker, sock, slot=None):
    slot = slot or self.free_slot()
    if slot is None:
      raise RuntimeError("no free slot")
    self.workers[slot] = worker
    self.socks[slot] = sock
    sock.name = slot
    self.slot_of[id(worker)] = slot
    self.cnt[slot] = dict(nrx=0, nclose=0, nconn=0, hsaw="-")
    self._wrap(worker)
    return slot

  def install_handlers(self, slot, close_raises=False):
    env = self
    w = self.workers[slot]

    def rx(worker):
      env.cnt[slot]["nrx"] += 1
      saw = list(worker.peek())
      if env.cur is not None and env.cur["w"] == slot:
        env.cur["rx"] = saw
      if env.on_rx:
        env.on_rx(slot, worker, saw)

    def closed(worker):
      env.cnt[slot]["nclose"] += 1
      sk = env.socks[slot]
      env.cnt[slot]["hsaw"] = "open" if (sk.nshutrd == 0 and sk.nclose == 0 and worker.closed) else "shut"
      if close_raises:
        raise RuntimeError("close handler failure (scripted)")

    def connected(worker):
      env.cnt[slot]["nconn"] += 1
    w.rx_handler = rx
    w.close_handler = closed
    w.connect_handler = connected

  # ---- running the scheduler
  def pump(self):
    """run the scheduler at the current instant until nothing is left to do"""
    self.calls = []
    self.cur = None
    self.top_snap = None
    self.vs.run_instant()
    self._finish_call()
    self.allow_wake = False

  def loop_dead(self):
    return self.loop.gen.gi_frame is None

  def pinged(self):
    try:
      return bool(_select.select([self.loop.pinger], [], [], 0)[0])
    except (OSError, ValueError):
      return False

  def snapshot(self):
    ws = []
    for s in range(1, self.N + 1):
      w = self.workers.get(s)
      if w is None:
        ws.append(dict(kind="none", conn=False, closed=False, nclose=0, sclosed=0, shutrd=0, rbuf=[], sbuf=0,
                       inq=[], nrx=0, nconn=0, member=False, hsaw="-"))
        continue
      sk = self.socks[s]
      c = self.cnt[s]
      rb = w.receive_buf
      ws.append(dict(kind="server" if isinstance(w, wmod.TCPServerWorkerBase) else "plain",
                     conn=bool(w._connecting), closed=bool(w.closed), nclose=c["nclose"], sclosed=sk.nclose,
                     shutrd=sk.nshutrd, rbuf=list(rb) if isinstance(rb, (bytes, bytearray)) else ["NOT-BYTES"],
                     sbuf=len(w.send_buf), inq=list(sk.inq), nrx=c["nrx"], nconn=c["nconn"],
                     member=w in self.loop._workers, hsaw=c["hsaw"]))
    return dict(ws=ws, npend=collections.deque.__len__(self.loop._pending_commands), pinged=self.pinged())

  def asked_slots(self):
    if self.asked is None:
      return [], [], []
    return tuple(sorted(self.slot_of.get(id(o), -1) for o in lst) for lst in self.asked[:3])

  def close(self):
    core.scheduler, wmod.socket = self.saved
    try:
      self.loop.gen.close()
    except BaseException:      # noqa
      pass
    p = self.loop.pinger
    for fd in (p._w, p._r):
      try:
        os.close(fd)
      except Exception:
        pass
    p._w = p._r = -1
    self.vs.close()
