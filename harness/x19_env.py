"""X19 environment: the topology entity registry and the OpenFlow topology bridge on scripted connections.

  scripted peers ("switches", bytes from harness/rawbytes.py: hello / features reply / barrier reply /
      |            port status / packet-in / barrier reply / flow removed)
      v
  of_01.Connection (real, one per TCP session, CtlSock)  -- Connection.read() --> real unpackers, real handler
      |                                                                          tables, real event machinery
      v  ConnectionUp / ConnectionDown / PortStatus / PacketIn / ... on a fresh OpenFlowNexus and on the connection
  Discovery (real, core.openflow_discovery)  --LinkEvent-->  OpenFlowTopology (real, started by its launch())
      v                                                        |  creates / re-attaches OpenFlowSwitch entities
  pox.topology.Topology (real, core.topology)  <---------------+  addEntity / removeEntity

* A connection is lost the way it is lost in a running controller: the socket reads EOF and the harness does
  what OpenFlow_01_Task does (`if con.read() is False: con.close()`).
* Time is virtual (poxenv.clock inside of_01 / discovery / openflow.topology).  The two kinds of timers of the
  area (the 30 s reconnect timer of a switch entity, discovery's recurring link-expiry check and probe timers)
  are harness objects (`HTimer`) that record their callback; the harness fires them when the replayed
  behaviour says that the time has passed.  recoco.Timer itself is the subject of X04.
* Exceptions swallowed by revent.raiseEventNoErrors are recorded through the documented replaceable hook
  `revent.handleEventException`.
* Everything is observed through public API: events delivered to listeners, getEntityByID / getEntitiesOfType /
  len of the registry, the switch entity's `ports`, `connected`, the OpenFlowPort's `entities`.
"""
import errno
import io
import socket as _socket
import sys

from engine.core import Machinery
from harness import poxenv
from harness import rawbytes as rb

core = poxenv.boot()

import pox.openflow as ofmod                      # noqa: E402
import pox.openflow.of_01 as of_01                # noqa: E402

ofmod.launch()
of_01.DeferredSender.start = lambda self: None
if of_01.deferredSender is None:
  of_01.deferredSender = of_01.DeferredSender()

import pox.lib.revent.revent as reventmod         # noqa: E402
import pox.topology.topology as topomod           # noqa: E402
import pox.openflow.discovery as discmod          # noqa: E402
import pox.openflow.topology as oftopo            # noqa: E402
import pox.openflow.libopenflow_01 as oflib       # noqa: E402

poxenv.install_clock(of_01, discmod, oftopo)

EXC = []          # exceptions swallowed by raiseEventNoErrors since the last take


def _on_handler_exception(source, event, args, kw, exc_info):
  ev = event if isinstance(event, type) else type(event)
  EXC.append("%s:%s" % (getattr(ev, "__name__", str(ev)), exc_info[0].__name__))


class HTimer(object):
  """Stands in for recoco.Timer inside pox.openflow.topology and pox.openflow.discovery."""
  armed = []

  def __init__(self, t, callback, *a, **kw):
    self.t = t
    self.callback = callback
    self.cancelled = False
    self.recurring = kw.get("recurring", False)
    HTimer.armed.append(self)

  def cancel(self):
    self.cancelled = True


class CtlSock(object):
  _fd = 9000

  def __init__(self):
    self.inq = []
    self.out = b""
    self.closed = False
    self.shut = False
    CtlSock._fd += 1
    self._fileno = CtlSock._fd

  def fileno(self):
    return self._fileno

  def setblocking(self, v):
    pass

  def getpeername(self):
    return ("10.9.19.1", 41019)

  def send(self, data):
    if self.closed or self.shut:
      raise _socket.error(errno.EPIPE, "Broken pipe")
    self.out += data
    return len(data)

  def recv(self, n, flags=0):
    if self.inq:
      d = self.inq.pop(0)
      if len(d) > n:
        self.inq.insert(0, d[n:])
        d = d[:n]
      return d
    if self.shut or self.closed:
      return b""
    raise _socket.error(errno.EAGAIN, "Resource temporarily unavailable")

  def shutdown(self, how):
    self.shut = True

  def close(self):
    self.closed = True


def hw_of(dpid, port):
  return "02:19:00:00:%02x:%02x" % (dpid & 0xff, port & 0xff)


def port_name(dpid, port):
  return "s%d-eth%d" % (dpid, port)


def phy(dpid, port, st):
  """description of port `port` of switch `dpid`; st = the value of its state field"""
  return rb.phy_port(port, hw_of(dpid, port), port_name(dpid, port), config=0, state=st)


class Peer(object):
  """One TCP session of a scripted switch with the controller."""

  def __init__(self, env, dpid):
    self.env = env
    self.dpid = dpid
    self.sock = CtlSock()
    self.con = of_01.Connection(self.sock)
    self.rdpos = 0
    self.events = []

  def feed(self, data):
    self.sock.inq.append(data)
    while self.sock.inq:
      if self.con.read() is False:
        self.con.close()
        return False
    return True

  def written(self):
    data = self.sock.out[self.rdpos:]
    self.rdpos = len(self.sock.out)
    return rb.parse_stream(data)

  def handshake(self, ports):
    """ports: {number: state}.  hello, features reply, barrier reply: ConnectionUp is raised by the last."""
    self.feed(rb.hello())
    self.feed(rb.features_reply(self.dpid, ports=[phy(self.dpid, p, st) for p, st in sorted(ports.items())],
                                n_buffers=8, xid=0x19))
    xs = [m["xid"] for m in self.written() if m["type"] == rb.BARRIER_REQUEST]
    if not xs:
      raise Machinery("the controller sent no barrier request after the features reply")
    self.feed(rb.barrier_reply(xid=xs[-1]))
    if self.con.connect_time is None or self.con.disconnected:
      raise Machinery("handshake did not complete")

  def eof(self):
    self.sock.inq = []
    self.sock.shut = True
    if self.con.read() is False:
      self.con.close()
    else:
      raise Machinery("controller did not notice EOF")


class Env(object):
  """Fresh controller: nexus, arbiter, Topology, Discovery, OpenFlowTopology."""

  def __init__(self):
    reventmod.handleEventException = _on_handler_exception
    oftopo.Timer = HTimer
    discmod.Timer = HTimer
    self.clock = poxenv.clock
    old = core.components.get("openflow")
    if old is not None:
      try:
        core.removeListener(old._handle_DownEvent)
      except Exception:
        pass
    self.nexus = ofmod.OpenFlowNexus()
    core.components["openflow"] = self.nexus
    core.components["OpenFlowConnectionArbiter"] = ofmod.OpenFlowConnectionArbiter()
    of_01.Connection.ID = 0
    of_01.Connection._aborted_connections = 0
    of_01.deferredSender.sending = False
    of_01.deferredSender._dataForConnection.clear()
    try:
      core.scheduler._ready.clear()
    except Exception:
      pass
    del core._waiters[:]
    oflib.generate_xid = oflib.xid_generator()
    topomod.Entity._all_ids.clear()
    topomod.Entity._tb.clear()
    topomod.Entity._next_id = 101
    HTimer.armed = []
    del EXC[:]
    self.topology = topomod.Topology()
    core.components["topology"] = self.topology
    core.components.pop("openflow_discovery", None)
    core.components.pop("openflow_topology", None)
    self.discovery = discmod.Discovery()
    core.components["openflow_discovery"] = self.discovery
    oftopo.launch()          # the component's own entry point
    self.oft = core.components["openflow_topology"]
    if getattr(self.oft, "topology", None) is not self.topology:
      raise Machinery("OpenFlowTopology did not bind to the fresh topology component")
    self.expiry = [t for t in HTimer.armed if t.callback == self.discovery._expire_links]
    if len(self.expiry) != 1:
      raise Machinery("discovery's link-expiry timer not found")

  def quiet(self, fn, *a, **kw):
    """pox.topology prints a traceback on an id clash: keep stdout clean"""
    old = sys.stdout
    sys.stdout = io.StringIO()
    try:
      return fn(*a, **kw)
    finally:
      sys.stdout = old

  def take_exc(self):
    e = list(EXC)
    del EXC[:]
    return e

  def reconnect_timers(self):
    """live reconnect timers: [(entity, timer)]"""
    out = []
    for t in HTimer.armed:
      if t.cancelled or t.recurring:
        continue
      owner = getattr(t.callback, "__self__", None)
      if isinstance(owner, oftopo.OpenFlowSwitch) and t.callback.__name__ == "_timer_ReconnectTimeout":
        out.append((owner, t))
    return out

  def fire(self, timer):
    timer.cancelled = True          # a one-shot timer that has fired is over
    return self.quiet(timer.callback)

  def link_timeout(self):
    """more than the link timeout passes; discovery's periodic check runs"""
    self.clock.advance(self.discovery._link_timeout + 1)
    self.expiry[0].callback()
