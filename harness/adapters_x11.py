"""X11 adapter: DhcpClient.tla actions -> the real OFDHCPClient behind a real of_01.Connection / SoftwareSwitch.

step(a, args) performs one spec action on the real code and returns the observation in the JSON shape of the
spec's `exp`:  {st, lst, nfl, of, tx, evs, fault, fired}

  st     client.state (public property); "GONE" when no client object exists
  lst    a PacketIn handler of the client is registered on the nexus
  nfl    number of DHCP flows in the switch's flow table
  of     controller->switch messages of this step: addU/addB/delU/delB (the client's unicast / broadcast DHCP flow,
         every field checked), po (PACKET_OUT to the client's port); anything else is named
  tx     DHCP frames the switch emitted (decoded with struct; every fixed field checked): type, secs, and for a
         REQUEST the offer it names (server id + requested address)
  evs    events raised by the client, in order
  fault  "-" or the type of the exception that escaped (constructor) / was swallowed (revent, scheduler)
  fired  which of the client's timers had its callback called ("Run" steps)

Transaction ids: the spec speaks of D / R / oldD / oldR / bogus; the adapter keeps the xids of the DISCOVERs and
REQUESTs it has seen on the wire (each must be new) and concretises from there.
"""
import struct

from engine.core import Machinery
from harness import rawbytes as rb
from harness import x11_net as xn

dc = xn.dc

from pox.lib.addresses import EthAddr, IPAddr      # noqa: E402
from pox.openflow import PacketIn                  # noqa: E402

NETS = ["10.0.0", "192.168.7", "172.16.200", "10.255.255", "100.64.1"]
STATE_NAME = {"<NEW>": "NEW", "<ERROR>": "ERROR", "<IDLE>": "IDLE"}


class World(object):
  """concretisation of the spec's symbols for one behaviour"""
  def __init__(self, variant):
    self.variant = variant
    net = NETS[variant % len(NETS)]
    self.net_prefix = net
    ip = lambda h: "%s.%d" % (net, h)       # noqa: E731
    self.srv = {"s1": ip(1), "s2": ip(2)}
    self.smac = {"s1": "00:00:00:00:aa:01", "s2": "00:00:00:00:aa:02"}
    self.addr = {"a1": ip(50), "a2": ip(51)}
    self.other_addr = ip(99)
    mask = "255.255.255.0"
    # offer id -> (server, address, subnet mask | None, routers, dns servers, lease time | None)
    self.offers = {
        "o1": ("s1", "a1", mask, [ip(254)], ["8.8.8.8", "8.8.4.4"], 600),
        "o2": ("s2", "a2", None, [], [], None),
        "o3": ("s1", "a2", "255.255.0.0", [ip(253), ip(254)], [], 86400),
    }
    self.other_mac = "00:00:00:00:00:77"
    self.eth_mode = variant % 3            # port_eth: True (port MAC) / None (dpid MAC) / explicit
    self.explicit_mac = "00:00:00:0c:11:e7"


def _state(c):
  s = c.state
  return STATE_NAME.get(s, s)


class Adapter(object):
  def __init__(self, DT=2, OT=2, RT=2, TT=8, alias=True, int_clock=True, variant=0, seed=0):
    self.T = dict(DT=DT, OT=OT, RT=RT, TT=TT)
    self.kw = dict(alias=alias, int_clock=int_clock)
    self.variant0 = variant + seed
    self.net = None
    self.client = None
    self.evs = []
    self.dec = "defer"
    self.pick = 0
    self.disc_xids = []
    self.req_xids = []
    self.nrx = 0

  def _boot(self, variant):
    """the world is built at the first step: the concretisation (network, MACs, port_eth mode, dpid) is named by
    that step's `variant` argument (not compared, not part of the spec)"""
    v = self.variant0 + variant
    self.w = World(v)
    self.net = xn.Net(nports=2, dpid=1 + v % 3, **self.kw)
    self.dpid = self.net.dpid

  def close(self):
    if self.net is not None:
      self.net.close()

  # ------------------------------------------------------------------ events
  def _ident_offer(self, o):
    """which of the spec's offers a DHCPOffer object is (address, server and every option must agree)"""
    for oid, (s, a, mask, routers, dns, lease) in self.w.offers.items():
      if str(o.address) == self.w.addr[a] and str(o.server) == self.w.srv[s]:
        probs = []
        if (None if o.subnet_mask is None else str(o.subnet_mask)) != mask:
          probs.append("mask")
        if [str(x) for x in o.routers] != routers:
          probs.append("routers")
        if [str(x) for x in o.dns_servers] != dns:
          probs.append("dns")
        return oid if not probs else "?%s:%s" % (oid, "+".join(probs))
    return "?%s@%s" % (o.address, o.server)

  def _on_offer(self, e):
    self.evs.append({"e": "Offer", "o": self._ident_offer(e), "n": 0, "acc": 0, "os": []})
    if self.dec == "accept":
      e.accept()
    elif self.dec == "reject":
      e.reject()

  def _on_offers(self, e):
    pre = 0
    for i, o in enumerate(e.offers):
      if o is e.accepted:
        pre = i + 1
        break
    self.evs.append({"e": "Offers", "o": "-", "n": len(e.offers), "acc": pre,
                     "os": [self._ident_offer(o) for o in e.offers]})
    if 1 <= self.pick <= len(e.offers):
      e.accept(e.offers[self.pick - 1])

  def _on_leased(self, e):
    self.evs.append({"e": "Leased", "o": self._ident_offer(e.lease), "n": 0, "acc": 0, "os": []})

  def _on_error(self, e):
    self.evs.append({"e": "Error", "o": "-", "n": 0, "acc": 0, "os": []})

  def _adopt(self, c):
    self.client = c
    self.net.client = c
    c.addListenerByName("DHCPOffer", self._on_offer)
    c.addListenerByName("DHCPOffers", self._on_offers)
    c.addListenerByName("DHCPLeased", self._on_leased)
    c.addListenerByName("DHCPClientError", self._on_error)

  def _find_ghost(self):
    """a client whose constructor raised may live on behind its timer / its PacketIn handler"""
    for t in self.net.timers:
      o = getattr(t._x11_cb, "__self__", None)
      if isinstance(o, dc.DHCPClientBase):
        return o
    for h in self._packetin_handlers():
      o = getattr(h, "__self__", None)
      if isinstance(o, dc.DHCPClientBase):
        return o
    return None

  def _packetin_handlers(self):
    hs = getattr(self.net.nexus, "_eventMixin_handlers", {}).get(PacketIn, [])
    return [h[1] for h in hs]

  # ------------------------------------------------------------------ observation
  def _client_mac(self):
    c = self.client
    if c is not None and isinstance(getattr(c, "port_eth", None), EthAddr):
      return str(c.port_eth)
    return None

  def _expected_mac(self):
    m = self.w.eth_mode
    if m == 0:
      return str(self.net.sw.ports[1].hw_addr)          # the switch's address of port 1
    if m == 1:
      return "00:00:00:00:00:%02x" % self.dpid          # the "dpid MAC"
    return self.w.explicit_mac

  def _classify_of(self, msgs, handshake=False):
    out = []
    mac = rb.mac(self._expected_mac()).hex()
    for m in msgs:
      if m["type"] == rb.FLOW_MOD:
        mt = m["match"]
        wc = mt["wildcards"]
        # exact on in_port, dl_dst, dl_type, nw_proto, tp_src, tp_dst; everything else wildcarded (an address
        # is fully wildcarded by any bit count >= 32)
        exact = rb.FW_IN_PORT | rb.FW_DL_DST | rb.FW_DL_TYPE | rb.FW_NW_PROTO | rb.FW_TP_SRC | rb.FW_TP_DST
        flags = rb.FW_IN_PORT | rb.FW_DL_VLAN | rb.FW_DL_SRC | rb.FW_DL_DST | rb.FW_DL_TYPE | rb.FW_NW_PROTO | \
            rb.FW_TP_SRC | rb.FW_TP_DST | rb.FW_DL_VLAN_PCP | rb.FW_NW_TOS
        wc_ok = (wc & flags) == (flags & ~exact) and (wc >> 8) & 0x3f >= 32 and (wc >> 14) & 0x3f >= 32
        dhcp = (wc_ok and mt["in_port"] == 1 and mt["dl_type"] == 0x0800 and
                mt["nw_proto"] == 17 and mt["tp_src"] == 67 and mt["tp_dst"] == 68 and m["priority"] == 0x8001 and
                m["idle_timeout"] == 0 and m["hard_timeout"] == 0 and m["buffer_id"] == rb.NO_BUFFER)
        which = "U" if mt["dl_dst"] == mac else "B" if mt["dl_dst"] == "ff" * 6 else "?"
        if dhcp and which != "?" and m["command"] == rb.FC_ADD and \
           m["actions"] == [dict(type=0, len=8, body=struct.pack("!HH", rb.OFPP_CONTROLLER, 0xffff).hex())]:
          out.append("add" + which)
        elif dhcp and which != "?" and m["command"] == rb.FC_DELETE_STRICT and m["actions"] == []:
          out.append("del" + which)
        elif handshake and m["command"] == rb.FC_DELETE and not dhcp:
          continue                                      # the nexus clears the table when a switch connects
        else:
          out.append("flow_mod?cmd=%d,wc=%#x,dst=%s,prio=%#x" % (m["command"], wc, mt["dl_dst"], m["priority"]))
      elif m["type"] == rb.PACKET_OUT:
        acts = m["actions"]
        ok = (m["buffer_id"] == rb.NO_BUFFER and len(acts) == 1 and acts[0].get("type") == 0 and
              acts[0].get("len") == 8 and acts[0]["body"][:4] == "0001")
        out.append("po" if ok else "po?%s" % acts)
      elif handshake and m["name"] in ("HELLO", "FEATURES_REQUEST", "STATS_REQUEST", "SET_CONFIG", "BARRIER_REQUEST",
                                       "GET_CONFIG_REQUEST", "ECHO_REPLY"):
        continue
      else:
        out.append(m["name"])
    return out

  def _decode_tx(self, emits):
    out = []
    mac = self._expected_mac()
    for port, frame in emits:
      try:
        d = xn.parse_dhcp_frame(frame)
      except ValueError as e:
        out.append({"t": "?undecodable:%s" % e, "secs": 0, "o": "-"})
        continue
      probs = []
      if port != 1:
        probs.append("port%d" % port)
      if d["eth_dst"] != b"\xff" * 6:
        probs.append("eth_dst")
      if d["eth_src"] != rb.mac(mac):
        probs.append("eth_src")
      if d["ip_src"] != 0 or d["ip_dst"] != 0xffffffff:
        probs.append("ip")
      if (d["sport"], d["dport"]) != (68, 67):
        probs.append("udp_ports")
      if (d["op"], d["htype"], d["hlen"], d["hops"]) != (1, 1, 6, 0):
        probs.append("bootp_head")
      if not d["flags"] & 0x8000:
        probs.append("broadcast_flag")
      if d["chaddr"] != rb.mac(mac) + b"\0" * 10:
        probs.append("chaddr")
      if d["ciaddr"] or d["yiaddr"] or d["giaddr"]:
        probs.append("addrs")
      opts = d["options"]
      mt = opts.get(53, b"")
      typ = xn.MT_NAME.get(mt[0], "T%d" % mt[0]) if len(mt) == 1 else "notype"
      o = "-"
      if typ == "DISCOVER":
        if set(opts) != {53, 55} or sorted(opts[55]) != [1, 3, 6]:
          probs.append("options")
        if d["siaddr"]:
          probs.append("siaddr")
        if d["xid"] in self.disc_xids or d["xid"] in self.req_xids:
          probs.append("xid_reused")
        self.disc_xids.append(d["xid"])
      elif typ == "REQUEST":
        if set(opts) != {53, 54, 50} or len(opts[54]) != 4 or len(opts[50]) != 4:
          probs.append("options")
        else:
          srv, addr = xn.ip_str(struct.unpack("!I", opts[54])[0]), xn.ip_str(struct.unpack("!I", opts[50])[0])
          o = "?%s@%s" % (addr, srv)
          for oid, (s, a, _m, _r, _d, _l) in self.w.offers.items():
            if self.w.srv[s] == srv and self.w.addr[a] == addr:
              o = oid
          if xn.ip_str(d["siaddr"]) != srv:
            probs.append("siaddr")
        if d["xid"] in self.disc_xids or d["xid"] in self.req_xids:
          probs.append("xid_reused")
        self.req_xids.append(d["xid"])
      else:
        probs.append("type")
      out.append({"t": typ if not probs else "?%s:%s" % (typ, "+".join(probs)), "secs": d["secs"], "o": o})
    return out

  def _nflows(self):
    n = 0
    for e in self.net.flows():
      m = e.match
      if m.tp_src == 67 and m.tp_dst == 68 and m.nw_proto == 17:
        n += 1
      else:
        n += 100          # a flow that is none of the client's
    return n

  def _obs(self, fault="-", fired="-", handshake=False):
    r = self.net.take()
    faults = ([fault] if fault != "-" else []) + r["faults"]
    c = self.client
    lst = any(getattr(h, "__self__", None) is c for h in self._packetin_handlers()) if c is not None else False
    evs, self.evs = self.evs, []
    self.last_emits = list(r["emits"])
    return {"st": _state(c) if c is not None else "GONE", "lst": lst, "nfl": self._nflows(),
            "of": self._classify_of(r["c2s"], handshake), "tx": self._decode_tx(r["emits"]), "evs": evs,
            "fault": "-" if not faults else "+".join(faults), "fired": fired}

  def _settle(self):
    """Nothing may be due when the spec does not say so: run the scheduler at this instant; a timer callback
    that runs here was not expected by the spec."""
    got = self.net.run_instant()
    if got:
      return {"unexpected_timer": got}
    return None

  # ------------------------------------------------------------------ frames of the scripted server
  def _xid(self, x):
    if x == "D":
      return self.disc_xids[-1]
    if x == "oldD":
      return self.disc_xids[-2]
    if x == "R":
      return self.req_xids[-1]
    if x == "oldR":
      return self.req_xids[-2]
    used = set(self.disc_xids) | set(self.req_xids)
    v = (max(used) + 0x01010101) & 0xffffffff if used else 0x5eed5eed
    while v in used:
      v = (v + 1) & 0xffffffff
    return v

  def _reply_frame(self, typ, xid, s, yi, ch, opts=None, op=2, sport=67, dport=68, dst_ip=None, with_type=True,
                   payload_cut=None):
    self.nrx += 1
    me = self._expected_mac()
    chaddr = me if ch == "me" else self.w.other_mac
    o = []
    if with_type:
      o.append((53, bytes([xn.MT[typ]])))
    o.append((54, rb.ip(self.w.srv[s])))
    if opts is not None and typ != "NAK":
      _s, _a, mask, routers, dns, lease = opts
      if lease is not None:
        o.append((51, struct.pack("!I", lease)))
      if mask is not None:
        o.append((1, rb.ip(mask)))
      if routers:
        o.append((3, b"".join(rb.ip(r) for r in routers)))
      if dns:
        o.append((6, b"".join(rb.ip(r) for r in dns)))
    b = xn.bootp(op, xid, 0x8000, chaddr, o, yiaddr=xn.ip_int(yi) if yi else 0, siaddr=xn.ip_int(self.w.srv[s]))
    if payload_cut:
      b = b[:payload_cut]
    # both flows the client installs are used: broadcast and unicast destination in turn; the destination
    # address is the limited broadcast or 0.0.0.0 (both are "to us" for the client)
    eth_dst = xn.BCAST_MAC if (self.nrx + self.w.variant) % 2 == 0 else me
    if dst_ip is None:
      dst_ip = "255.255.255.255" if (self.nrx // 2 + self.w.variant) % 2 == 0 else "0.0.0.0"
    return xn.dhcp_frame(self.w.smac[s], eth_dst, xn.ip_int(self.w.srv[s]), xn.ip_int(dst_ip), b, sport=sport,
                         dport=dport)

  # ------------------------------------------------------------------ the actions
  def step(self, a, args):
    if self.net is None:
      self._boot((args or {}).get("variant", 0))
    if a == "Create":
      w = self.w
      port = {"name": "%012x.1" % self.dpid, "bad": "nosuch0", "int": 1}[args["port"]]
      eth = {0: True, 1: None, 2: EthAddr(w.explicit_mac)}[w.eth_mode]
      kw = dict(port_eth=eth, auto_accept=args["auto"], install_flows=args["fl"],
                discovery_timeout=self.T["DT"], offer_timeout=self.T["OT"], request_timeout=self.T["RT"],
                total_timeout=self.T["TT"])
      fault = "-"
      try:
        c = dc.OFDHCPClient(self.dpid, port, **kw)
      except Exception as e:      # noqa - the constructor of the code under test raised: an observation
        fault = type(e).__name__
        c = self._find_ghost()
      if c is not None:
        self._adopt(c)
      self.evs = []
      return self._obs(fault=fault)
    if a == "SwitchUp":
      self.net.connect()
      if self.client is None:
        g = self._find_ghost()
        if g is not None:
          self._adopt(g)
      return self._obs(handshake=True)
    if a == "Tick":
      pre = self._settle()          # the spec lets time pass only when no timer is due
      if pre is not None:
        return pre
      self.net.advance(1)
      return self._obs()
    if a == "Run":
      self.pick = args["pick"]
      got = self.net.run_instant(one=True)
      self.pick = 0
      if len(got) != 1:
        return dict(self._obs(), fired="none" if not got else "+".join(got))
      return self._obs(fired=got[0])
    if a == "RxOffer":
      self.dec, self.pick = args["dec"], args["pick"]
      s, ad = self.w.offers[args["o"]][:2]
      f = self._reply_frame("OFFER", self._xid(args["x"]), s, self.w.addr[ad], args["ch"], opts=self.w.offers[args["o"]])
      self.net.inject(1, f)
      self.dec, self.pick = "defer", 0
      return self._obs()
    if a in ("RxAck", "RxNak"):
      c = self.client
      req = getattr(c, "requested", None) if c is not None else None
      if req is not None:
        oid = self._ident_offer(req)
        spec = self.w.offers.get(oid, self.w.offers["o1"])
      else:
        spec = self.w.offers["o1"]
      s = spec[0]
      yi = self.w.addr[spec[1]] if args.get("ya", "req") == "req" else self.w.other_addr
      if a == "RxNak":
        yi = None
      f = self._reply_frame("ACK" if a == "RxAck" else "NAK", self._xid(args["x"]), s, yi, args["ch"], opts=spec)
      self.net.inject(1, f)
      return self._obs()
    if a == "RxJunk":
      self.net.inject(*self._junk(args["k"]))
      return self._obs()
    raise Machinery("unknown action %r" % a)

  def _junk(self, k):
    """a frame that is NOT a reply for the client, but differs from one the client would take right now in
    exactly one respect"""
    c = self.client
    st = _state(c) if c is not None else "GONE"
    if st == "REQUESTING" and self.req_xids:
      typ, xid = "ACK", self.req_xids[-1]
    else:
      typ, xid = "OFFER", (self.disc_xids[-1] if self.disc_xids else 0x0badf00d)
    spec = self.w.offers["o1"]
    s, yi = spec[0], self.w.addr[spec[1]]
    kw = {}
    port = 1
    if k == "op":
      kw["op"] = 1
    elif k == "notype":
      kw["with_type"] = False
    elif k == "sport":
      kw["sport"] = 1067
    elif k == "dport":
      kw["dport"] = 1068
    elif k == "unicast":
      kw["dst_ip"] = yi
    elif k == "inport":
      port = 2
    elif k == "discover":
      typ = "DISCOVER"
    elif k == "request":
      typ = "REQUEST"
    elif k == "short":
      kw["payload_cut"] = 100
    elif k == "arp":
      me = self._expected_mac()
      body = struct.pack("!HHBBH", 1, 0x0800, 6, 4, 2) + rb.mac(self.w.smac[s]) + rb.ip(self.w.srv[s]) + \
          rb.mac(me) + rb.ip(yi)
      return 1, rb.pad_to(rb.eth(me, self.w.smac[s], 0x0806, body), 60)
    else:
      raise Machinery("unknown junk kind %r" % k)
    return port, self._reply_frame(typ, xid, s, yi, "me", opts=spec, **kw)

  # ------------------------------------------------------------------ second scenario: the real DHCPD as server
  SERVER_DPID = 9

  def enable_e2e(self):
    """A real DHCPD (pox/proto/dhcpd.py) serves the client through a second real switch whose port 1 is wired to
    the client's port.  The offers it can make are o1 / o3 of the spec (its address, the two pool addresses, the
    options it is configured with and the client asks for)."""
    import pox.proto.dhcpd as dhcpdmod
    from harness import poxenv
    poxenv.install_clock(dhcpdmod)
    if self.net is None:
      self._boot(0)
    w = self.w
    ip = lambda h: "%s.%d" % (w.net_prefix, h)       # noqa: E731
    del dhcpdmod.DHCPD._servers[:]
    pool = dhcpdmod.SimpleAddressPool(network=w.net_prefix + ".0/24", first=50, count=2)
    self.dhcpd = dhcpdmod.DHCPD(ip_address=w.srv["s1"], router_address=ip(254), dns_address="8.8.8.8", pool=pool,
                                dpid=self.SERVER_DPID)
    opts = ("255.255.255.0", [ip(254)], ["8.8.8.8"], 3600)
    w.offers = {"o1": ("s1", "a1") + opts, "o3": ("s1", "a2") + opts, "o2": w.offers["o2"]}
    self.srv_chan = self.net.add_switch(self.SERVER_DPID)
    self.net.connect_chan(self.srv_chan)
    self.net.take()
    self.inflight = []

  def e2e_forward(self):
    """what the client's switch emitted on port 1 reaches the server's switch; the server's answers are in flight"""
    ch = self.srv_chan
    for port, frame in self.last_emits:
      if port == 1:
        ch.sw.rx_packet(xn.ethernet(raw=frame), 1)
        self.net._pump()
    self.last_emits = []
    got, ch.emits = ch.emits, []
    self.inflight.extend(f for p, f in got if p == 1)
    # the server's control traffic is not the client's: forget what the tap of the client's channel saw (nothing)
    return len(got)

  def e2e_classify(self, frame):
    """spec action and arguments for a server frame about to reach the client"""
    d = xn.parse_dhcp_frame(frame)
    typ = xn.MT_NAME.get(d["options"].get(53, b"\0")[0], "?")
    xid = d["xid"]
    if self.disc_xids and xid == self.disc_xids[-1]:
      x = "D"
    elif len(self.disc_xids) > 1 and xid == self.disc_xids[-2]:
      x = "oldD"
    elif self.req_xids and xid == self.req_xids[-1]:
      x = "R"
    elif len(self.req_xids) > 1 and xid == self.req_xids[-2]:
      x = "oldR"
    else:
      x = "bogus"          # the xid of a message before the last two: as dead as one never used
    ch = "me" if d["chaddr"][:6] == rb.mac(self._expected_mac()) else "other"
    yi = xn.ip_str(d["yiaddr"])
    if typ == "OFFER":
      srv = xn.ip_str(struct.unpack("!I", d["options"].get(54, b"\0\0\0\0"))[0])
      o = None
      for oid, spec in self.w.offers.items():
        if self.w.srv[spec[0]] == srv and self.w.addr[spec[1]] == yi:
          o = oid
      if o is None:
        raise Machinery("the server offered %s from %s: not an offer of the model" % (yi, srv))
      return "RxOffer", dict(x=x, o=o, ch=ch)
    if typ == "ACK":
      req = getattr(self.client, "requested", None)
      ya = "req" if (req is None or str(req.address) == yi) else "other"
      return "RxAck", dict(x=x, ch=ch, ya=ya)
    if typ == "NAK":
      return "RxNak", dict(x=x, ch=ch)
    raise Machinery("the server sent a %s" % typ)

  def e2e_deliver(self, frame, dec="defer", pick=0):
    self.dec, self.pick = dec, pick
    self.net.inject(1, frame)
    self.dec, self.pick = "defer", 0
    return self._obs()

  # ------------------------------------------------------------------ replay hooks
  def accept_alt(self, obs, step):
    """Several timers due at the same instant: the spec leaves open which one is served first (args.alts)."""
    if step["a"] != "Run" or not isinstance(obs, dict):
      return False
    f = obs.get("fired")
    return f != step["exp"]["fired"] and f in step["args"].get("alts", [])

  def signature(self, st, obs):
    sig = {"action": st["a"]}
    exp = st["exp"]
    if not isinstance(obs, dict):
      sig["observed"] = "not-a-dict"
      return sig
    if "EXC" in obs:
      sig["observed"] = "exception:" + obs["EXC"]
      return sig
    if "unexpected_timer" in obs:
      sig["observed"] = "unexpected_timer:" + "+".join(obs["unexpected_timer"])
      return sig
    sig["fields"] = sorted(k for k in exp if obs.get(k) != exp[k])
    sig["exp_st"] = exp.get("st")
    sig["obs_st"] = obs.get("st")
    if "fault" in sig["fields"]:
      sig["exp_fault"], sig["obs_fault"] = exp.get("fault"), obs.get("fault")
    if "fired" in sig["fields"]:
      sig["exp_fired"], sig["obs_fired"] = exp.get("fired"), obs.get("fired")
    if st["a"].startswith("Rx"):
      sig["x"] = st["args"].get("x", st["args"].get("k"))
    return sig
