"""C08 adapter: Rendezvous.tla actions -> a real pox.core.POXCore.

Every behaviour gets a FRESH POXCore (installed as pox.core.core, scheduler
owned by the harness, pox.core.time virtual so that _quit()'s polling loop
costs no wall time and steps the scheduler).  The catalog (components, which
of them raise events, waiters, what each waiter's callback does) is exported
by TLC from the spec's constants and passed in as `catalog`.

Observation after every public call (same JSON shape as the spec's `exp`):
  logs  : [the callback/lifecycle log of this call]   (spec: set of allowed logs)
  comps : which catalog components core.hasComponent() reports
  wired : [[sink, c, pos]] an event raised NOW on component c's object reaches
          the sink's _handle_<c>_Ev exactly once ([sink, c, "xN"] if N times);
          pos = where, relative to two reference listeners the harness put on c
          beforehand with priorities +5 / -5: "hi" (before both), "mid"
          (between), "lo" (after both) - the public face of the priority the
          sink's listener was subscribed with
  attrs : [[sink, c]] sink._<c>_ is the registered object

The listen_args of a declaration (spec: args.la, entries [c, p, w]; c = "*" is
the None key) become {name: {"priority": number, "weak": bool}} with the keys
the entry leaves out ("-") left out; the concrete numbers of a priority class
vary with `style`.  Action Drop: the harness forgets its only reference to the
sink (and collects garbage); what is still delivered afterwards is observed.

How the names of a declaration are handed over (spec: args.f):
  "fresh" a collection made for this call - list / tuple / set / str and, chosen
          by `style`, a list naming a component twice, a sequence that only has
          __len__/__getitem__, an iterable that only has __iter__, frozenset,
          dict, dict keys view, a str subclass, the argument left out (no names)
  "once"  a one-shot iterator: generator, map, iter(list), filter, dict
          iterator, itertools.chain
  "k1"..  a mutable collection the CALLER owns (list / set / dict / UserList /
          deque by `style`), changed by the spec's Mutate action after (and
          before) declarations through it and re-used for further declarations
"""
import collections
import functools
import gc
import hashlib
import io
import itertools
import json
import select
import sys
import zlib

from engine.core import Machinery
from harness import poxenv

REPO = poxenv.REPO

import logging                                   # noqa: E402
logging.disable(logging.CRITICAL)

import pox.lib.recoco.recoco as _recoco          # noqa: E402
_recoco.Scheduler.runThreaded = lambda self, daemon=False: None
import pox.core as pcore                         # noqa: E402
from pox.lib.revent import Event, EventMixin     # noqa: E402

# concrete component names: underscores and digits exercise the handler-name
# parsing of listen_to_dependencies (_handle_<component>_<Event>)
NAMES = {"a": "alpha", "b": "of_beta", "c": "Gamma9", "d": "d", "e": "e_x_y"}
LIFE = [("GoingUp", pcore.GoingUpEvent), ("Up", pcore.UpEvent),
        ("GoingDown", pcore.GoingDownEvent), ("Down", pcore.DownEvent)]


# priority classes (spec: "hi" / "mid" / "lo") -> concrete priorities, relative
# to the reference listeners at +REF_PRIO and -REF_PRIO
REF_PRIO = 5
PRIO = {"hi": (10, 6, 1000), "mid": (0, 3, -4), "lo": (-10, -6, -1000)}
POS = {0: "hi", 1: "mid", 2: "lo"}

BUDGET = 64      # callbacks per public call; legitimate maximum is waiters + 4


class Ev(Event):
  """The event every source component raises."""
  def __init__(self, origin):
    Event.__init__(self)
    self.origin = origin


class SourceComponent(EventMixin):
  _eventMixin_events = set([Ev])

  def __init__(self, sym, name):
    self.sym = sym
    self._core_name = name


class PlainComponent(object):
  def __init__(self, sym, name):
    self.sym = sym
    self._core_name = name


class ScriptedFailure(RuntimeError):
  pass


# Objects handed to core are not all "ordinary": the property is about names
# being registered, not about what kind of object a component, a callback or
# a sink is.  Flavours of unusual (but legal) dunder behaviour:
FLAVOURS = ("plain", "empty", "false", "eq-all", "eq-none")


def _flavour_ns(fl):
  """class namespace entries giving instances the unusual behaviour `fl`"""
  if fl == "empty":          # a container-like object that is empty: falsy through __len__
    return {"__len__": lambda self: 0}
  if fl == "false":          # falsy through __bool__
    return {"__bool__": lambda self: False}
  if fl == "eq-all":         # equal to everything, unhashable
    return {"__eq__": lambda self, other: True, "__ne__": lambda self, other: False,
            "__hash__": None}
  if fl == "eq-none":        # equal to nothing, not even itself; constant hash
    return {"__eq__": lambda self, other: False, "__ne__": lambda self, other: True,
            "__hash__": lambda self: 7}
  return {}


def flavoured(base, fl):
  return type("%s_%s" % (base.__name__, fl.replace("-", "_")), (base,), _flavour_ns(fl))


class CallableWaiter(object):
  """A callback that is an object with __call__ (and no __name__)."""
  def __init__(self, fn):
    self.fn = fn

  def __call__(self):
    return self.fn()


class GetitemSeq(object):
  """A sequence in the old protocol: __len__ and __getitem__ only (no __iter__)."""
  def __init__(self, names):
    self._names = list(names)

  def __len__(self):
    return len(self._names)

  def __getitem__(self, i):
    return self._names[i]


class IterOnly(object):
  """A re-iterable collection that only has __iter__ (no __len__, no indexing)."""
  def __init__(self, names):
    self._names = list(names)

  def __iter__(self):
    return iter(list(self._names))


class StrName(str):
  """A component name that is an instance of a str subclass."""


ONCE_KINDS = ("generator", "map", "iter", "filter", "dictiter", "chain")
OWN_KINDS = ("list", "set", "dict", "userlist", "deque")


def one_shot(kind, names):
  """a one-shot iterator over names: what it yields is gone once consumed"""
  names = list(names)
  if kind == "generator":
    return (n for n in names)
  if kind == "map":
    return map(str, names)
  if kind == "iter":
    return iter(names)
  if kind == "filter":
    return filter(None, names)
  if kind == "dictiter":
    return iter(dict.fromkeys(names))
  if kind == "chain":
    return itertools.chain(names[:1], names[1:])
  raise ValueError(kind)


class OwnedCollection(object):
  """A mutable collection the caller keeps: `obj` is what is handed to core,
  `view` is the harness's own record of what the caller put into it (the spec's
  coll[k]); the two are never reconciled - if core changes the caller's object
  the consequences show in what later declarations through it do."""
  def __init__(self, kind):
    self.kind = kind
    self.view = set()
    self.obj = {"list": list, "set": set, "dict": dict, "userlist": collections.UserList,
                "deque": collections.deque}[kind]()

  def add(self, name, front=False):
    self.view.add(name)
    o = self.obj
    if self.kind == "set":
      o.add(name)
    elif self.kind == "dict":
      o[name] = True
    elif self.kind == "deque":
      o.appendleft(name) if front else o.append(name)
    else:
      o.insert(0, name) if front else o.append(name)

  def remove(self, name):
    self.view.discard(name)
    o = self.obj
    if self.kind == "set":
      o.discard(name)
    elif self.kind == "dict":
      o.pop(name, None)
    elif len(o) == 1 and name in o:
      o.clear()
    else:
      while name in o:
        o.remove(name)


_clock = poxenv.clock
_current = [None]


def _on_sleep(d):
  ad = _current[0]
  if ad is None:
    return
  sch = ad.core.scheduler
  hub = sch._selectHub
  for _ in range(6):
    hub._select(hub._tasks, {})
    while sch.cycle():
      pass


_clock.on_sleep = _on_sleep
_count = [0]
_frozen = [False]


def _freeze_once():
  """POXCore._quit() calls gc.collect() repeatedly: keep the (large, static)
  heap of a replay worker out of the collector's way."""
  if not _frozen[0]:
    _frozen[0] = True
    gc.collect()
    gc.freeze()


def fresh_core():
  """A new POXCore that owns a new (unstarted) scheduler."""
  _recoco.defaultScheduler = None
  old = sys.stdout
  sys.stdout = io.StringIO()
  try:
    core = pcore.POXCore(threaded_selecthub=False, handle_signals=False)
  finally:
    sys.stdout = old
  hub = core.scheduler._selectHub
  hub._select_func = lambda r, w, x, t: select.select(r, w, x, 0)
  pcore.core = core
  pcore.time = _clock
  return core


class Adapter(object):
  def __init__(self, catalog, style=0, noisy=False, own=None, vary=False):
    _freeze_once()
    self.cat = catalog
    self.style = style
    self.comps = sorted(catalog["comps"])
    self.sources = set(catalog["sources"])
    self.kind = catalog["kind"]
    self.script = catalog["script"]
    self.handles = catalog["handles"]
    self.core = self._make_core()
    _current[0] = self
    self.name = {c: NAMES[c] for c in self.comps}
    self.objs = {c: flavoured(SourceComponent if c in self.sources else PlainComponent,
                              self._flavour(i))(c, self.name[c])
                 for i, c in enumerate(self.comps)}
    # reference listeners of known priority on every event-raising component
    self.refs_run = 0
    for c in self.comps:
      if c in self.sources:
        self.objs[c].addListener(Ev, self._ref_listener, priority=REF_PRIO)
        self.objs[c].addListener(Ev, self._ref_listener, priority=-REF_PRIO)
    self.pos = {}
    self.dropped = set()
    self.la_of = {}           # sink -> the listen_args it was declared with (for signatures)
    self.log = []
    self.declared = set()
    self.sinks = {}
    self.counts = {}
    self.cr = catalog.get("cr") or {"on": "none", "p": []}
    self.cr_done = False
    self.held = {}            # owner -> kept deferral
    self.outstanding = set()  # owners whose deferral the harness has not called yet
    self.upprog = []
    self.up_ran = False
    self.going_up_event = None
    self.requit = False
    self.last_container = None
    self.last_callback = None
    # collections the caller owns (spec: Colls / coll)
    # (kind of the i-th one: `own[i]` if given, else chosen by the style; with `vary` it is chosen when the
    # collection is first used, by the operations made so far - see _coll)
    self.vary = vary
    self.hh = 0               # hash of the operations made so far (only used with `vary`)
    self.coll_names = sorted(catalog.get("colls", ()))
    self.colls = {}
    if not vary:
      for k in self.coll_names:
        self._coll(k, own)
    self.form_of = {}         # waiter -> how its names were handed over (for signatures)
    self.via = {}             # waiter -> collection it was declared through
    self.fired_ws = set()
    self.calls = 0
    self.diverged = False
    for nm, cls in LIFE[1:]:
      self.core.addListener(cls, self._life_handler(nm))
    if self.cr["on"] != "none":
      self.core.addListener(pcore.ComponentRegistered, self._cr_handler)
    if noisy:
      # a ComponentRegistered listener that fails must not disturb rendezvous
      def bad(event):
        raise ScriptedFailure("ComponentRegistered listener failure")
      self.core.addListener(pcore.ComponentRegistered, bad)

  def _make_core(self):
    return fresh_core()

  def _coll(self, k, own=None):
    """the caller's collection k (made on first use)"""
    if k not in self.colls:
      i = self.coll_names.index(k)
      kind = own[i] if own and i < len(own) else \
          OWN_KINDS[(self.style + self.style // 5 + i + self.hh) % len(OWN_KINDS)]
      self.colls[k] = OwnedCollection(kind)
    return self.colls[k]

  def _flavour(self, i):
    """which unusual behaviour the i-th component / waiter object has"""
    return FLAVOURS[(self.style + self.style // 5 + i) % len(FLAVOURS)]

  # ---- observation helpers
  def snapshot(self):
    return [c for c in self.comps if self.core.hasComponent(self.name[c])]

  def _budget(self):
    """Divergence guard: POXCore swallows every exception a callback raises, so
    a run-away recursion cannot be unwound by raising; past the budget the
    scripted callbacks become no-ops (the code then terminates by itself) and
    the step's observation is DIVERGED, which no spec action produces."""
    self.calls += 1
    if self.calls > BUDGET:
      self.diverged = True
    return not self.diverged

  def _life_handler(self, nm):
    def handler(event):
      if not self._budget():
        return
      if nm == "GoingUp":
        self.going_up_event = event
      self.log.append({"k": "life", "n": nm, "s": self.snapshot()})
      if nm == "Up" and not self.up_ran:
        self.up_ran = True        # a second Up is logged, the program is not repeated
        self._run_prog(self.upprog, "up")
      if nm == "GoingDown" and self.requit:
        self.core.quit()
    return handler

  def _ref_listener(self, event):
    self.refs_run += 1

  def _probe(self):
    self.counts = {}
    self.pos = {}
    if self.dropped:
      gc.collect()
    for c in self.comps:
      if c in self.sources:
        self.refs_run = 0
        self.objs[c].raiseEvent(Ev(c))
        if self.refs_run != 2:
          raise Machinery("reference listeners on %s ran %d times" % (c, self.refs_run))
    wired = []
    for (s, hc, oc), n in sorted(self.counts.items()):
      if hc != oc:
        wired.append([s, hc, "from-" + oc])
      elif n == 1:
        wired.append([s, hc, POS[self.pos[(s, hc, oc)]]])
      else:
        wired.append([s, hc, "x%d" % n])
    return wired

  def _attrs(self):
    out = []
    for s in sorted(self.sinks):
      sink, short = self.sinks[s]
      for c in self.comps:
        an = self.name[c] if short else "_%s_" % self.name[c]
        if an in sink.__dict__:
          if sink.__dict__[an] is self.objs[c]:
            out.append([s, c])
          else:
            out.append([s, c, "wrong-object"])
    return out

  def observe(self):
    log, self.log = self.log, []
    if self.diverged:
      return {"DIVERGED": self.calls}
    return {"logs": [log], "comps": self.snapshot(), "wired": self._probe(),
            "attrs": self._attrs()}

  # ---- scripted callbacks
  def _run_prog(self, prog, owner, event=None):
    """Run a handler program (spec: ApplyOp) re-entrantly, from inside core."""
    for op in prog:
      k = op["k"]
      if k == "reg":
        self._register(op["c"])
      elif k == "cwr":
        if op["w"] not in self.declared:
          self._call_when_ready(op["w"], op["d"], "fresh")
      elif k == "acq":
        self.held[owner] = self._take_deferral(event)
        self.outstanding.add(owner)
      elif k == "sync":
        self._take_deferral(event)()
      elif k == "relprev":
        i = int(owner[1:])
        for j in range(1, i):
          o = "g%d" % j
          if o in self.outstanding:
            self.outstanding.discard(o)
            self.held[o]()
            break
      elif k == "raise":
        raise ScriptedFailure("scripted failure in the program of " + owner)
      else:
        raise ValueError(k)

  def _take_deferral(self, event=None):
    event = event or self.going_up_event
    if event is not None:
      return event.get_deferral()
    return self.core._get_go_up_deferral()     # before goUp() there is no event yet

  def _cr_handler(self, event):
    if self.cr_done or event.name != self.name[self.cr["on"]]:
      return
    if not self._budget():
      return
    self.cr_done = True
    self.log.append({"k": "cr", "n": self.cr["on"], "s": self.snapshot()})
    self._run_prog(self.cr["p"], "cr")

  def _fired(self, w):
    if not self._budget():
      return
    self.fired_ws.add(w)
    self.log.append({"k": "fire", "n": w, "s": self.snapshot()})
    self._run_prog(self.script[w], w)

  def _register(self, c):
    v = (self.style + self.comps.index(c)) % 2
    if v == 0:
      self.core.register(self.name[c], self.objs[c])
    else:
      self.core.register(self.objs[c])        # name taken from _core_name

  def _container(self, names, idx, allow_str=True, form="fresh", who=None, allow_omit=False):
    """The object that hands the component names over to core (spec: args.f).
    Returns (object,) or () when the argument is left out."""
    if form in self.coll_names:
      oc = self._coll(form)
      if oc.view != set(names):
        raise Machinery("collection %s holds %r, the spec says %r" % (form, sorted(oc.view), sorted(names)))
      self.last_container = "own:" + oc.kind
      self.via[who] = form
      return (oc.obj,)
    if form == "once":
      kind = ONCE_KINDS[(self.style + self.style // 6 + idx + self.hh) % len(ONCE_KINDS)]
      self.last_container = "once:" + kind
      return (one_shot(kind, names),)
    if form != "fresh":
      raise Machinery("unknown form %r" % (form,))
    v = (self.style + idx) % 4
    u = (self.style // 4 + idx) % 3
    if v == 3 and len(names) == 1 and allow_str:
      if u == 1:
        self.last_container = "strsub"
        return (StrName(names[0]),)
      if u == 2:
        self.last_container = "dict"
        return ({names[0]: None},)
      self.last_container = "str"
      return (names[0],)
    if v == 1:
      if u == 1:
        self.last_container = "iteronly"
        return (IterOnly(names),)
      self.last_container = "tuple"
      return (tuple(names),)
    if v == 2:
      if u == 1:
        self.last_container = "frozenset"
        return (frozenset(names),)
      if u == 2:
        self.last_container = "keysview"
        return (dict.fromkeys(names).keys(),)
      self.last_container = "set"
      return (set(names),)
    if u == 1 and names:
      self.last_container = "duplist"
      return (list(names) + [names[0]],)
    if u == 2:
      self.last_container = "getitemseq"
      return (GetitemSeq(names),)
    if v == 3 and not names and allow_omit:
      self.last_container = "omitted"
      return ()
    self.last_container = "list"
    return (list(names),)

  def _call_when_ready(self, w, deps, form="fresh"):
    self.declared.add(w)
    names = [self.name[c] for c in sorted(deps)]
    if (self.style // 4) % 2:
      names.reverse()
    wi = sorted(self.kind).index(w)
    comps = self._container(names, wi, form=form, who=w, allow_omit=True)
    self.form_of[w] = self.last_container
    v = (self.style + wi) % 4
    if v == 3:
      fl = self._flavour(wi + 2)
      self.last_callback = "object-" + fl
      self.core.call_when_ready(flavoured(CallableWaiter, fl)(lambda: self._fired(w)), *comps)
    elif v == 0:
      self.last_callback = "method"
      self.core.call_when_ready(self._fired, *comps, args=(w,))
    elif v == 1:
      self.last_callback = "partial"
      self.core.call_when_ready(functools.partial(self._fired, w), *comps)
    else:
      self.last_callback = "lambda"
      self.core.call_when_ready(lambda: self._fired(w), *comps, name="waiter-" + w)

  def _make_sink(self, s):
    ad = self
    ns = {}
    for c in self.handles[s]:
      def h(this, event, c=c):
        k = (s, c, event.origin)
        ad.counts[k] = ad.counts.get(k, 0) + 1
        ad.pos[k] = ad.refs_run
      ns["_handle_%s_Ev" % self.name[c]] = h

    def met(this):
      ad._fired(s)
    ns["_all_dependencies_met"] = met
    ns["_handle_Ev"] = lambda this, event: None      # no component: must be ignored
    ns.update(_flavour_ns(self._flavour(sorted(self.kind).index(s) + 1)))
    return type("Sink_" + s, (object,), ns)()

  def _listen_args(self, s, la):
    """spec listen_args (entries [c, p, w]) -> the dict handed to core (a new one
    for every declaration, nested dicts not shared)"""
    out = {}
    si = sorted(self.kind).index(s)
    for i, e in enumerate(sorted(la, key=lambda e: e["c"])):
      d = {}
      if e["p"] != "-":
        d["priority"] = PRIO[e["p"]][(self.style + si + i) % 3]
      if e["w"] != "-":
        d["weak"] = e["w"] == "y"
      out[None if e["c"] == "*" else self.name[e["c"]]] = d
    return out

  def _drop(self, s):
    """the caller forgets the sink: the harness holds no other reference to it"""
    self.sinks.pop(s)
    self.dropped.add(s)

  def _listen(self, s, expl, form="fresh", la=()):
    self.declared.add(s)
    self.la_of[s] = la
    sink = self._make_sink(s)
    short = (self.style // 2) % 2 == 1
    self.sinks[s] = (sink, short)
    names = [self.name[c] for c in sorted(expl)]
    if (self.style // 4) % 2:
      names.reverse()
    kw = {}
    if names or self.style % 2 or form != "fresh":
      kw["components"] = self._container(names, sorted(self.kind).index(s), form=form, who=s)[0]
    else:
      self.last_container = "None"
    self.form_of[s] = self.last_container
    if short:
      kw["short_attrs"] = True
      kw["attrs"] = False
    if la or (self.style // 3) % 2:
      kw["listen_args"] = self._listen_args(s, la)
    self.core.listen_to_dependencies(sink, **kw)
    del sink

  # ---- GoingUp handlers
  def _going_up_handler(self, i, prog):
    def handler(event):
      if self._budget():
        self._run_prog(prog, "g%d" % i, event)
    return handler

  # ---- the spec's actions
  def step(self, a, args):
    self.calls = 0
    if self.vary:
      # which concrete kind of iterator / collection an operation uses depends (reproducibly) on the
      # operations made before it, so that one replay run spreads all kinds over the state graph
      self.hh = zlib.crc32(_canon([self.hh, a, args]).encode()) % 30030
    if a == "Register":
      self._register(args["c"])
    elif a == "CallWhenReady":
      self._call_when_ready(args["w"], args["deps"], args.get("f", "fresh"))
    elif a == "ListenTo":
      self._listen(args["w"], args["deps"], args.get("f", "fresh"), args.get("la") or ())
    elif a == "Drop":
      self._drop(args["w"])
    elif a == "Mutate":
      self._mutate(args["f"], args["o"], args["c"])
    elif a == "GoUp":
      self.upprog = args["up"]
      for i, prog in enumerate(args["hs"]):
        self.core.addListener(pcore.GoingUpEvent, self._going_up_handler(i + 1, prog))
      self.core.addListener(pcore.GoingUpEvent, self._life_handler("GoingUp"))
      try:
        self._go_up()
      except ScriptedFailure:
        pass              # the Up handler's program ends in "raise": goUp() may propagate it
    elif a == "GetDeferral":
      o = "l%d" % (1 + len([x for x in self.held if x.startswith("l")]))
      self.held[o] = self._take_deferral()
      self.outstanding.add(o)
    elif a == "Release":
      o = args["o"]
      if o in self.outstanding:
        self.outstanding.discard(o)
        try:
          self.held[o]()
        except ScriptedFailure:
          pass            # ... and so may the deferral that lets Up happen
      else:
        # called again: must not have any effect (an exception is fine)
        try:
          self.held[o]()
        except Exception:
          pass
    elif a == "Quit":
      self.requit = bool(args["re"])
      self._quit()
      self.requit = False
    else:
      raise ValueError(a)
    return self.observe()

  def coll_syms(self, k):
    """what the caller has put into its collection k (symbols of the catalog)"""
    return sorted(c for c in self.comps if self.name[c] in self._coll(k).view)

  def _mutate(self, k, o, c):
    """The caller changes a collection of its own; no call into core."""
    oc = self._coll(k)
    if o == "add":
      oc.add(self.name[c], front=bool((self.style // 3) % 2))
    elif o == "del":
      oc.remove(self.name[c])
    else:
      raise Machinery("unknown mutation %r" % (o,))
    for w, kk in self.via.items():
      if kk == k and w not in self.fired_ws and not self.form_of[w].endswith("+" + o):
        self.form_of[w] += "+" + o       # e.g. own:list+add: changed after w was declared through it

  def _go_up(self):
    self.core.goUp()

  def _quit(self):
    self.core.quit()

  def close(self):
    _current[0] = None
    self.core = None
    self.sinks = {}
    self.objs = {}
    _count[0] += 1
    if _count[0] % 50 == 0:
      gc.collect()

  # ---- comparison
  def normalize(self, obs, st):
    """One observed log against the SET of logs the spec allows: a conforming
    observation is returned in the exported form of the expectation."""
    exp = st["exp"] if isinstance(st, dict) and "a" in st and "exp" in st else st
    if isinstance(obs, dict) and "logs" in obs and isinstance(exp, dict) and "logs" in exp:
      m = _match(obs, exp)
      if m is not None:
        return m
    return obs

  def accept_alt(self, obs, st):
    """The spec is nondeterministic at this step (merge_alternatives): is the
    observation another outcome it permits?  (engine: behaviour 'diverted')"""
    exp = st.get("exp") or {}
    if not (isinstance(obs, dict) and "logs" in obs):
      return False
    return any(_match(obs, json.loads(a)) is not None for a in exp.get("alt", ()))

  def signature(self, st, obs):
    a = st["a"]
    args = st.get("args") or {}
    exp = st.get("exp") or {}
    sig = {"action": a}
    if a in ("CallWhenReady", "ListenTo"):
      sig["deps"] = len(args.get("deps", []))
      sig["container"] = self.last_container
    if a == "CallWhenReady":
      sig["callback"] = self.last_callback
    if a == "Mutate":
      sig["container"] = "own:" + self.colls[args["f"]].kind if args.get("f") in self.colls else "?"
      sig["op"] = args.get("o")
    if a == "GoUp":
      sig["handlers"] = "+".join(".".join(op["k"] for op in p) or "none" for p in args.get("hs", [])) or "-"
      sig["up"] = ".".join(op["k"] for op in args.get("up", [])) or "none"
    if isinstance(obs, dict) and "EXC" in obs:
      sig["observed"] = "exception:" + obs["EXC"]
      return sig
    if isinstance(obs, dict) and "DIVERGED" in obs:
      sig["observed"] = "diverged"
      return sig
    if not isinstance(obs, dict) or "logs" not in obs:
      sig["observed"] = "malformed"
      return sig
    sig["fields"] = sorted(k for k in exp if k != "alt" and obs.get(k) != exp[k])
    if "wired" in sig["fields"]:
      sig.update(wiring_diff(exp["wired"], obs.get("wired") or [], self.la_of, self.dropped))
    olog = obs["logs"][0] if len(obs["logs"]) == 1 else []
    elogs = exp.get("logs", [[]])
    ofire = sorted(e["n"] for e in olog if e["k"] == "fire")
    efire = sorted(e["n"] for e in elogs[0] if e["k"] == "fire")
    sig["fired_extra"] = sorted(set(x for x in ofire if ofire.count(x) > efire.count(x)))
    sig["fired_missing"] = sorted(set(x for x in efire if efire.count(x) > ofire.count(x)))
    # how the waiters concerned had their component names handed over
    decl = sorted(set(self.form_of.get(w, "?") for w in sig["fired_extra"] + sig["fired_missing"]))
    if decl:
      sig["decl"] = decl
    sig["observed_life"] = [e["n"] for e in olog if e["k"] == "life"]
    sig["expected_life"] = [e["n"] for e in elogs[0] if e["k"] == "life"]
    return sig


def la_class(la):
  """what kind of listen_args: which options are given, for one component / all"""
  if not la:
    return "none"
  out = set()
  for e in la:
    who = "all" if e["c"] == "*" else "one"
    if e["p"] != "-":
      out.add(who + ":priority")
    if e["w"] != "-":
      out.add(who + ":weak")
  return "+".join(sorted(out))


def wiring_diff(ewired, owired, la_of, dropped):
  """classify a difference in the listener wiring: per (sink, component) what the
  spec expects -> what was observed ("-" = not delivered)"""
  e = {(x[0], x[1]): (x[2] if len(x) > 2 else "?") for x in ewired}
  o = {(x[0], x[1]): (x[2] if len(x) > 2 else "?") for x in owired}
  diff = sorted(set("%s->%s" % (e.get(k, "-"), o.get(k, "-")) for k in set(e) | set(o) if e.get(k) != o.get(k)))
  sinks = sorted(set(k[0] for k in set(e) | set(o) if e.get(k) != o.get(k)))
  return {"wiring": diff, "listen_args": sorted(set(la_class(la_of.get(s, ())) for s in sinks)),
          "sink_dropped": any(s in dropped for s in sinks)}


def _match(obs, exp):
  """obs (one log) against exp (set of allowed logs): exp itself if it conforms."""
  if len(obs["logs"]) != 1 or obs["logs"][0] not in exp["logs"]:
    return None
  for k in ("comps", "wired", "attrs"):
    if obs.get(k) != exp.get(k):
      return None
  return exp


def _canon(x):
  return json.dumps(x, sort_keys=True, separators=(",", ":"))


def merge_alternatives(behs):
  """Where the spec allows several outcomes for the same action after the same
  history (Release after a quit overtook a deferred start-up), annotate every
  such step with all of them (exp["alt"] = sorted canonical JSON of each)."""
  alts = {}
  keyed = []
  for b in behs:
    h = hashlib.sha1()
    keys = []
    for st in b:
      h2 = h.copy()
      h2.update(_canon([st["a"], st.get("args")]).encode())
      k = h2.hexdigest()
      e = _canon(st["exp"])
      alts.setdefault(k, set()).add(e)
      keys.append(k)
      h = h2
      h.update(e.encode())
    keyed.append(keys)
  n = 0
  for b, keys in zip(behs, keyed):
    for st, k in zip(b, keys):
      if len(alts[k]) > 1:
        st["exp"]["alt"] = sorted(alts[k])
        n += 1
  return n


def canon_behaviour(beh):
  """Sort the JSON arrays that stand for TLA+ sets (TLC prints them in its own order)."""
  for st in beh:
    args = st.get("args") or {}
    if "deps" in args:
      args["deps"] = sorted(args["deps"])
    if "la" in args:
      args["la"] = sorted(args["la"], key=lambda e: e["c"])
    for prog in list(args.get("hs", ())) + [args.get("up", ())]:
      for op in prog:
        op["d"] = sorted(op["d"])
    exp = st.get("exp") or {}
    if "logs" in exp:
      for lg in exp["logs"]:
        for e in lg:
          e["s"] = sorted(e["s"])
      exp["logs"] = sorted(exp["logs"], key=lambda lg: repr(lg))
      exp["comps"] = sorted(exp["comps"])
      exp["wired"] = sorted(exp["wired"])
      exp["attrs"] = sorted(exp["attrs"])
  return beh


def canon_catalog(cat):
  cat = dict(cat)
  cat["comps"] = sorted(cat["comps"])
  cat["sources"] = sorted(cat["sources"])
  cat["handles"] = {w: sorted(v) for w, v in cat["handles"].items()}
  cat["script"] = {w: [dict(op, d=sorted(op["d"])) for op in v] for w, v in cat["script"].items()}
  cat["cr"] = dict(cat["cr"], p=[dict(op, d=sorted(op["d"])) for op in cat["cr"]["p"]])
  cat["forms"] = sorted(cat.get("forms", ["fresh"]))
  cat["colls"] = sorted(cat.get("colls", []))
  cat["drop"] = bool(cat.get("drop", False))
  return cat
