"""X10 end-to-end histories: the real Discovery component feeds the real SpanningForest.

Real SoftwareSwitches are cabled by simulated directed wires; the real LLDPSender's packet_outs leave the
switches as real LLDP frames, arrive at the neighbour, come back as packet_ins, and the real Discovery raises the
LinkEvents (link timeouts included) that spanning_forest consumes.  One harness operation (deliver bytes to a
switch, let a time unit pass, take a session down) therefore produces a SEQUENCE of inputs of the component; the
recorder cuts the history at every input:

  LinkEv      a listener on Discovery with a higher priority than the component's sees the event first
  ConnDown    a ConnectionDown listener that runs after Discovery's (priority 0xffffffff) and before the component's
  Tick        the component's timer has fired (identity of SpanningForest.t) when a scheduler task ends
  the rest    are harness operations themselves (Disconnect = the operation that takes the session away)

and attributes to each the bytes the controller wrote to the switches until the next cut.  The result is a history
in the vocabulary of specs/forest/Forest.tla for TLC to validate.  Nothing is judged here.
"""
import random

from engine.core import Machinery

ARGS0 = dict(s=0, fresh=False, add=False, l=[0, 0, 0, 0], dir="", p=0, k="")
OBS0 = dict(sent=[], tree=[], err="", cfg=[], tick=False)


def ev(a, args, obs):
  A = dict(ARGS0)
  A.update(args or {})
  O = dict(OBS0)
  O.update(obs)
  return dict(a=a, args=A, obs=O)


class Recorder(object):
  def __init__(self, ad):
    self.ad = ad
    self.net = ad.net
    self.tr = []
    self.cur = None
    self.batch_pending = set()
    net = self.net
    net.disc.addListenerByName("LinkEvent", self._on_link, priority=999999)
    net.nexus.addListenerByName("ConnectionDown", self._on_down, priority=1)
    net.on_tick = self._on_tick
    net.after_task = self._after_task
    net.mark()

  # ---- cuts
  def begin(self, a, args, fin=None):
    self.end()
    self.cur = (a, args, fin)

  def end(self):
    if self.cur is None:
      o = self.ad.collect()
      if o["sent"] or o["err"]:
        raise Machinery("x10 e2e: bytes written outside any input of the component: %r" % (o,))
      self.net.mark()
      return
    a, args, fin = self.cur
    self.cur = None
    o = self.ad.collect()
    if a == "Deliver":
      if o["sent"] or o["err"]:
        o = dict(err="ADAPTER: bytes written during Deliver")
      else:
        o = dict(cfg=fin())
    for x in o.get("sent", []):
      self.batch_pending.add(x[0])
    self.tr.append(ev(a, args, o))
    self.net.mark()

  def _on_link(self, e):
    l = e.link
    u = l.uni
    self.begin("LinkEv", dict(add=bool(e.added), l=self.ad.al(list(u)), dir="uv" if tuple(l) == tuple(u) else "vu"))

  def _on_down(self, e):
    self.begin("ConnDown", dict(s=self.ad.sw_of[e.dpid]))

  def _on_tick(self):
    # the component's timer task has just ended: what was written since the last cut is the timer's
    if self.cur is not None:
      raise Machinery("x10 e2e: an input of the component was open across a timer task")
    self.cur = ("Tick", {}, None)
    self.end()

  def _after_task(self):
    self.end()


class World(object):
  """4 switches in a ring with both diagonals (ports 1-3), port 4 of every switch faces a host"""
  CABLES = [[1, 1, 2, 1], [2, 2, 3, 1], [3, 2, 4, 1], [1, 2, 4, 2], [1, 3, 3, 3], [2, 3, 4, 3]]

  def __init__(self, seed, mode, P, W, link_timeout):
    from harness.adapters_x10 import Adapter
    self.ad = Adapter(n=4, ports={str(s): [1, 2, 3, 4] for s in (1, 2, 3, 4)}, mode=mode, P=P, W=W, seed=seed,
                      real=True, link_timeout=link_timeout)
    if abs(self.ad.net.disc.send_cycle_time / 4.0 - W * self.ad.unit) > 1e-9:
      raise Machinery("x10 e2e: W does not match discovery's send_cycle_time")
    self.net = self.ad.net
    self.rec = Recorder(self.ad)
    self.conn = set()
    self.down = set()          # (s, p) whose link is down

  def wire(self, l, direction, up):
    a = (self.ad.d(l[0]), self.ad.q(l[1]), self.ad.d(l[2]), self.ad.q(l[3]))
    b = (a[2], a[3], a[0], a[1])
    w = a if direction == "uv" else b
    (self.net.wire_up if up else self.net.wire_down)(w)

  def up(self, s, fresh):
    self.rec.begin("ConnUp", dict(s=s, fresh=fresh))
    self.net.switch_up(self.ad.d(s), fresh=fresh)
    self.rec.end()
    self.conn.add(s)

  def downsw(self, s):
    self.rec.begin("Disconnect", dict(s=s))
    self.net.switch_down(self.ad.d(s))
    self.rec.end()
    self.conn.discard(s)
    self.rec.batch_pending.discard(s)

  def deliver(self, s):
    d = self.ad.d(s)
    if s in self.rec.batch_pending:
      self.rec.batch_pending.discard(s)
      pof = self.ad.port_of
      self.rec.begin("Deliver", dict(s=s), fin=lambda: sorted([pof.get(p, 0), c]
                                                             for p, c in self.net.switch_cfg(d).items()))
    else:
      self.rec.end()
    self.net.deliver(d)
    self.rec.end()

  def advance(self):
    self.rec.end()
    t0 = self.net.ticks
    i = len(self.rec.tr)
    self.rec.tr.append(ev("Advance", {}, {}))
    self.net.advance(self.ad.unit)
    self.rec.end()
    fired = self.net.ticks - t0
    if fired > 1:
      raise Machinery("x10 e2e: timer fired twice in a unit")
    self.rec.tr[i]["obs"]["tick"] = bool(fired)

  def port_link(self, s, p, up):
    self.rec.begin("PortEv", dict(s=s, p=p, k="up" if up else "down"))
    self.net.port_link(self.ad.d(s), self.ad.q(p), up)
    self.rec.end()


def drive_e2e(arg):
  seed, mode, P, W, link_timeout, nops = arg
  rnd = random.Random(seed)
  random.seed(seed)
  w = World(seed, mode, P, W, link_timeout)
  cables = [c for c in World.CABLES if rnd.random() < 0.85]
  wired = set()
  for c in cables:
    for dr in ("uv", "vu"):
      w.wire(c, dr, True)
      wired.add((tuple(c), dr))
  order = [1, 2, 3, 4]
  rnd.shuffle(order)
  ops = 0
  calm = 0

  def flush():
    for s in sorted(w.conn):
      if w.net.pending(w.ad.d(s)):
        w.deliver(s)

  for s in order:
    w.up(s, False)
    flush()
    for _ in range(rnd.randint(0, 3)):
      w.advance()
      flush()
  while ops < nops:
    ops += 1
    r = rnd.random()
    if calm > 0:
      calm -= 1
      w.advance()
      flush()
      continue
    if r < 0.55:
      w.advance()
      if rnd.random() < 0.85:
        flush()
    elif r < 0.62:
      calm = rnd.randint(4, 10) * P
    elif r < 0.72 and cables:                    # one direction of a cable fails / is repaired
      c = rnd.choice(cables)
      dr = rnd.choice(["uv", "vu"])
      if (tuple(c), dr) in wired:
        w.wire(c, dr, False)
        wired.discard((tuple(c), dr))
      else:
        w.wire(c, dr, True)
        wired.add((tuple(c), dr))
    elif r < 0.80:
      off = [s for s in (1, 2, 3, 4) if s not in w.conn]
      if off and rnd.random() < 0.7:
        w.up(rnd.choice(off), rnd.random() < 0.3)
      elif len(w.conn) > 1:
        w.downsw(rnd.choice(sorted(w.conn)))
    elif r < 0.88 and cables:                    # a port's link goes down / comes back (both directions of the cable)
      c = rnd.choice(cables)
      s, p = (c[0], c[1]) if rnd.random() < 0.5 else (c[2], c[3])
      if (s, p) in w.down:
        w.port_link(s, p, True)
        w.down.discard((s, p))
        if not any((x, y) in w.down for x, y in ((c[0], c[1]), (c[2], c[3]))):
          for dr in ("uv", "vu"):
            w.wire(c, dr, True)
            wired.add((tuple(c), dr))
      else:
        for dr in ("uv", "vu"):
          w.wire(c, dr, False)
          wired.discard((tuple(c), dr))
        w.port_link(s, p, False)
        w.down.add((s, p))
    else:
      flush()
  w.rec.end()
  tr = list(w.rec.tr)
  w.rec.tr = []            # the teardown below is not part of the history
  w.net.on_tick = w.net.after_task = None
  try:
    w.ad.close()
  except Exception:
    pass
  return tr
