"""X09 adapters: Destream.tla / Messenger.tla actions -> the real pox.messenger code (harness/x09_env.py)."""
import json
import random

from engine.core import Machinery
from harness import x09_env as E
from harness import x09_msgs as XM

_BY_VALUE = {json.dumps(json.loads(t), sort_keys=True): k for k, t in XM.TEXTS.items()}


def _dmsg_id(msg):
  return _BY_VALUE.get(json.dumps(msg, sort_keys=True, default=str), "?" + json.dumps(msg, sort_keys=True, default=str)[:40])


class DestreamAdapter(object):
  """One connection, one stream of JSON objects cut into the chunks the spec chose.
  via = "mem": the text goes straight into Connection._rx_raw (a Connection subclass on a stream transport)
  via = "tcp": the text is what a scripted socket returns to the real TCPConnection.run loop
               (text-mode socket: see x09_env, D2/D3)"""

  def __init__(self, via="mem", seed=0):
    self.via = via
    self.rnd = random.Random(seed)
    self.w = None
    self.text = ""
    self.pos = 0

  def step(self, a, args):
    if a == "Stream":
      self.text = "".join(XM.TEXTS[it] if it != "_" else self.rnd.choice(XM.WS) for it in args["items"])
      self.w = E.World(mtag=_dmsg_id)
      if self.via == "mem":
        self.w.open_mem(1)
      else:
        self.w.tcp_listen()
        if self.w.tcp_accept(1) is None:
          raise Machinery("x09: no TCP connection: %s %s" % (self.w.tcp_state, self.w.stderr[-300:]))
      self.w.take_events()
      self.w.take_out()
      return {"x": 0}
    if a == "Rx":
      k = args["k"]
      chunk = self.text[self.pos:self.pos + k]
      if XM.shape(chunk) != list(args["cls"]):
        raise Machinery("x09: concretisation out of step with the spec at %d: %r vs %r" % (self.pos, chunk, args["cls"]))
      self.pos += k
      con = self.w.cons[1]
      fed = self.w.feed(1, chunk)
      ev = self.w.take_events()
      out = self.w.take_out()
      msgs = [e["m"] for e in ev if e["e"] == "MessageReceived" and e["on"] == "C"]
      obs = {"msgs": msgs, "buf": len(con._buf.lstrip()) if isinstance(con._buf, str) else len(con._buf)}
      # the same dispatches seen from the other two sides: the default channel got each message once, in order,
      # and each one was answered once on this connection
      onchan = [e["m"] for e in ev if e["e"] == "MessageReceived" and e["on"] == "H" and e["ch"] == ""]
      other = [e for e in ev if e["e"] != "MessageReceived"]
      replies = [E.msg_obs(json.loads(t)) for c, texts in out for t in texts]
      want = [XM.expected_reply(m) if m in XM.TEXTS else None for m in msgs]
      if onchan != msgs or replies != want or other or not fed:
        obs["inconsistent"] = {"onchan": onchan, "replies": replies, "other": other, "fed": fed}
      if not con.is_connected or (self.via == "tcp" and con.x09_task != "running"):
        obs["connection"] = "closed" if not con.is_connected else con.x09_task
      return obs
    raise ValueError(a)

  def signature(self, st, obs):
    sig = {"spec": "Destream", "action": st["a"], "via": self.via}
    exp = st["exp"]
    if isinstance(obs, dict) and "EXC" in obs:
      sig["observed"] = "exception:" + obs["EXC"]
    elif isinstance(obs, dict) and "msgs" in exp:
      sig["expected_msgs"] = len(exp["msgs"])
      sig["observed_msgs"] = len(obs.get("msgs", []))
      sig["fields"] = sorted(k for k in set(exp) | set(obs) if obs.get(k) != exp.get(k))
    return sig

  def close(self):
    if self.w is not None:
      self.w.close()


# =====================================================================================================
# Messenger.tla

def concrete_msg(m):
  """spec message [k, n, r1, r2] -> the JSON object a client sends"""
  k, n = m["k"], m["n"]
  if k == "join":
    return {"CHANNEL": "", "cmd": "join_channel", "channel": n}
  if k == "joinp":
    return {"CHANNEL": "", "cmd": "join_channel", "channel": n, "temporary": False}
  if k == "leave":
    return {"CHANNEL": "", "cmd": "leave_channel", "channel": n}
  if k == "new":
    return {"CHANNEL": "", "cmd": "new_channel", "XID": 9}
  if k in ("invite", "invitex"):
    d = {"CHANNEL": "", "cmd": "invite", "bot": "probe" if k == "invite" else "nosuchbot"}
    if n != "-":
      d["channel"] = n
    return d
  if k == "say":
    return {"CHANNEL": n, "msg": "hi", "XID": 5}
  if k == "odd":
    return {"CHANNEL": n, "foo": "bar"}
  if k == "test":
    return {"CHANNEL": "", "test": "abc", "XID": 3}
  if k == "nlon":
    return {"CHANNEL": "", "newlines": True}
  if k == "nloff":
    return {"CHANNEL": "", "newlines": False}
  if k == "bogus":
    return {"CHANNEL": "", "cmd": "frobnicate"}
  raise ValueError(k)


def tag(m):
  return "%s:%s" % (m["k"], m["n"])


def sort_blocks(ev):
  """Connection._close walks the registry (a dict) and leaves channel after channel; the spec walks the names in
  sorted order.  The order of the CHANNELS within one close is not something the property fixes: the blocks of
  events of one close (each starts with ChannelLeave of that connection on another channel, the run ends with
  its ConnectionClosed) are put into name order.  Nothing else is reordered."""
  ev = list(ev)
  for i, e in enumerate(ev):
    if e["e"] != "ConnectionClosed":
      continue
    c = e["c"]
    # walk back over the blocks of this close
    blocks = []
    j = i
    while j > 0:
      ch = ev[j - 1]["ch"]
      k = j
      while k > 0 and ev[k - 1]["ch"] == ch and ev[k - 1]["on"] in ("H", "N", "B") and \
          not (ev[k - 1]["e"] == "ChannelLeave" and ev[k - 1]["c"] != c) and ev[k - 1]["e"] not in \
          ("MessageReceived", "ChannelJoin", "ChannelCreate", "bot_join", "bot_unhandled", "MissingChannel"):
        k -= 1
      if k == j or not (ev[k]["e"] == "ChannelLeave" and ev[k]["c"] == c):
        break
      blocks.insert(0, ev[k:j])
      j = k
    if len(blocks) > 1:
      blocks.sort(key=lambda b: b[0]["ch"])
      ev[j:i] = [x for b in blocks for x in b]
  return ev


class MessengerAdapter(object):
  def __init__(self, NC=2, kind="mem", dev=(), watched=(), seed=0):
    self.NC = NC
    self.kind = kind
    self.dev = set(dev)
    self.rnd = random.Random(seed)
    self.tags = {}
    self.w = E.World(select_shim="D0" not in self.dev, session_shim="D1" not in self.dev,
                     lenient_send="D2" not in self.dev, text_recv="D3" not in self.dev,
                     watched=watched, mtag=self._mtag)
    self.failed = set()
    self.shut_seen = {}

  def _mtag(self, msg):
    key = json.dumps(msg, sort_keys=True, default=str)
    return self.tags.get(key, "?" + key[:60])

  # ---- observation
  def _out_record(self, idx, text):
    nl = text.endswith("\n")
    body = text[:-1] if nl else text
    try:
      d = json.loads(body)
    except ValueError:
      return {"ch": "?", "k": "?", "v": "not-json:" + body[:40], "x": 0, "nl": nl}
    if isinstance(d, dict) and d.get("cmd") == "welcome" and set(d) == {"CHANNEL", "cmd", "session_id"}:
      con = self.w.cons.get(idx)
      sid = d["session_id"]
      others = [c._session_id for i, c in self.w.cons.items() if i != idx]
      if not isinstance(sid, str) or con is None or sid != con._session_id:
        v = "sid-not-the-connections:" + repr(sid)[:40]
      elif not sid.isalnum():
        v = "sid-not-alphanumeric:" + sid[:40]
      elif sid in others:
        v = "sid-duplicate"
      else:
        v = "sid-ok"
      return {"ch": d["CHANNEL"], "k": "welcome", "v": v, "x": 0, "nl": nl}
    r = E.msg_obs(d)
    r["nl"] = nl
    return r

  def _cst(self, idx):
    if idx in self.failed:
      return "failed"
    con = self.w.cons.get(idx)
    if con is None:
      return "none"
    if not con.is_connected:
      return "closed"
    if self.kind == "tcp" and con.x09_task.startswith("died"):
      return "stuck"
    return "open"

  def _observe(self, r):
    w = self.w
    if self.kind == "tcp":
      # a socket that was shut down reads EOF: the connection's receive loop ends
      for idx, sock in w.socks.items():
        con = w.cons.get(idx)
        if con is not None and sock.shut and con.x09_task == "running":
          w.tcp_feed(idx, E.EOF)
          if con.x09_task == "running":
            r = r + "+task-of-%d-survives-shutdown" % idx
    ev = sort_blocks(w.take_events())
    outs = dict(w.take_out())
    out = [[self._out_record(c, t) for t in outs.get(c, [])] for c in range(1, self.NC + 1)]
    extra = sorted(set(outs) - set(range(1, self.NC + 1)))
    proj = w.project()
    chans = [{"n": n, "t": proj[n][0], "m": proj[n][1]} for n in sorted(proj)]
    tr = w.tcp_transport if self.kind == "tcp" else w.mem_transport
    tmem = sorted(w.cidx(c) for c in tr._connections) if tr is not None else []
    shut = []
    for idx, sock in sorted(w.socks.items()):
      if sock.shut and not self.shut_seen.get(idx, 0):      # shut down for the first time (a repeated shutdown() of
        shut.append(idx)                                    # a closed connection's socket is not an observation)
      self.shut_seen[idx] = sock.shut
    if self.kind == "mem":
      lsn = "listening"
    else:
      lsn = {"none": "none", "listening": "listening"}.get(w.tcp_state, "dead")
    obs = {"ev": ev, "out": out, "chans": chans, "cst": [self._cst(c) for c in range(1, self.NC + 1)],
           "tmem": tmem, "shut": shut, "lsn": lsn, "r": r}
    if extra:
      obs["out_extra"] = extra
    return obs

  def _exc_name(self):
    lines = [l for l in self.w.stderr.strip().splitlines() if l and not l.startswith(" ")]
    self.w.stderr = ""
    return lines[-1].split(":")[0] if lines else "-"

  # ---- actions
  def step(self, a, args):
    w = self.w
    r = "-"
    if a == "Listen":
      w.tcp_listen()
      if w.tcp_state != "listening":
        r = self._exc_name()
    elif a == "Open":
      c = args["c"]
      if self.kind == "mem":
        try:
          con = w.open_mem(c)
          r = "ses:%d" % con._session_num
        except TypeError:
          self.failed.add(c)
          r = "TypeError"
      else:
        con = w.tcp_accept(c)
        if con is None:
          self.failed.add(c)
          r = self._exc_name()
        else:
          r = "ses:%d" % con._session_num
    elif a == "Rx":
      c = args["c"]
      ms = args["ms"]
      draws = []
      texts = []
      for m in ms:
        d = concrete_msg(m)
        self.tags[json.dumps(d, sort_keys=True)] = tag(m)
        if m["r1"]:
          if draws:
            raise Machinery("x09: two name-generating commands in one chunk are not scripted")
          draws = [m["r1"]] + ([m["r2"]] if m["r2"] else [])
        seps = self.rnd.choice([(",", ":"), (", ", ": "), (" ,", " : ")])
        texts.append(json.dumps(d, separators=seps))
      text = texts[0]
      for t in texts[1:]:
        text += self.rnd.choice(["", "", " ", "\n", "\r\n", "\t "]) + t
      text = self.rnd.choice(["", "", " ", "\n"]) + text + self.rnd.choice(["", "", "\n", " "])
      # every object of the batch ends in the LAST chunk handed over: the first cut is inside the first object
      cut = self.rnd.randrange(0, len(texts[0])) if self.rnd.random() < 0.7 else 0
      con = w.cons[c]
      with E.ScriptedRandint(draws):
        if cut:
          w.feed(c, text[:cut])
        fed = w.feed(c, text[cut:])
      if self.kind == "tcp" and con.x09_task.startswith("died"):
        r = con.x09_task[5:]
      elif not fed:
        r = "not-fed"
    elif a == "PeerClose":
      if not w.tcp_feed(args["c"], E.EOF if args["how"] == "eof" else E.ERR):
        r = "not-fed"
    elif a == "Close":
      w.cons[args["c"]].close()
    elif a == "ChanSend":
      ch = w.nexus.get_channel(args["n"], create=False)
      if ch is None:
        r = "nochan"
      else:
        ch.send({"hello": "x"})
        r = "sent"
    elif a == "ConSend":
      r = "TRUE" if w.cons[args["c"]].send({"note": "x"}) else "FALSE"
    elif a == "SetSend":
      w.socks[args["c"]].send_mode = args["mode"]
    else:
      raise ValueError(a)
    return self._observe(r)

  def signature(self, st, obs):
    sig = {"spec": "Messenger", "action": st["a"], "kind": self.kind}
    exp = st["exp"]
    if st["a"] == "Rx":
      sig["msgs"] = "/".join(m["k"] for m in st["args"]["ms"])
    if isinstance(obs, dict) and "EXC" in obs:
      sig["observed"] = "exception:" + obs["EXC"]
      return sig
    sig["fields"] = sorted(k for k in set(exp) | set(obs) if obs.get(k) != exp.get(k))
    if "ev" in sig["fields"]:
      eo = [e["e"] + "@" + e["on"] for e in obs.get("ev", [])]
      ee = [e["e"] + "@" + e["on"] for e in exp.get("ev", [])]
      sig["missing_events"] = sorted(set(ee) - set(eo))
      sig["extra_events"] = sorted(set(eo) - set(ee))
    if "r" in sig["fields"]:
      sig["r"] = "%s/%s" % (exp.get("r"), obs.get("r"))
    return sig

  def close(self):
    self.w.close()


def norm_exp(beh):
  """TLC prints sets in its own order: sort what the adapter sorts"""
  for st in beh:
    e = st["exp"]
    if "chans" in e:
      for c in e["chans"]:
        c["m"] = sorted(c["m"])
      e["chans"] = sorted(e["chans"], key=lambda c: c["n"])
      e["tmem"] = sorted(e["tmem"])
      e["shut"] = sorted(e["shut"])
  return beh
