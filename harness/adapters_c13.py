"""C13 adapter: SwitchRPC.tla actions -> real SoftwareSwitch over OpenFlow bytes.

Every controller message is built with harness.rawbytes (struct only), pushed
through OFConnection.read, and everything the switch writes is decoded by the
independent parser and put into the JSON shape of the spec's messages.
"""
import random
import struct

from engine.core import Machinery
from harness import rawbytes as rb
from harness.swharness import Harness

PNONE, PALL, ABSENT, BADACT = 65535, 65532, 9, 65000
FRAME_LEN = 60
ET_OF = {"f1": 0x88b5, "f2": 0x88b6, "f3": 0x88b8, "miss": 0x0801}
ET_BADFLOW = 0x88b7       # the flow whose action list the switch must refuse ("addbad")
OUT_OF = {"f1": 2, "f2": 1}       # f3: the reserved port given as ResOut
STYPE = {"DESC": 0, "FLOW": 1, "AGGREGATE": 2, "TABLE": 3, "PORT": 4, "QUEUE": 5,
         "VENDOR": 0xffff}
STNAME = {v: k for k, v in STYPE.items()}
XID_POOL = [0, 1, 2, 0x7fffffff, 0x80000000, 0xfffffffe, 0xffffffff]
ECHO_SIZES = [1, 8, 64, 300, 65527]   # 65527 + header = the largest OpenFlow message
PROBE_XID = 0x0c130000        # xids of the harness's own probes
LONG_EXTRA = [1, 4, 8, 56]    # trailing bytes of a "long" message (by seed)


def tname(t):
  """OpenFlow type byte -> the spec's name of a controller message type."""
  return rb.TYPE_NAMES[t] if t < len(rb.TYPE_NAMES) else "UNDEFINED"


def frames(data):
  """the framed messages in a byte string built by encode() (length fields are
  always consistent with the bytes sent - only wrong for the message type)."""
  return rb.split(data)


def frame(k):
  return rb.pad_to(rb.eth("00:00:00:00:00:99", "00:00:00:00:00:0a", ET_OF[k]), FRAME_LEN)


def fmatch(m):
  if m == "all":
    return rb.match()
  if m == "f1x":      # f1's match made more specific: selects no flow of the model
    return rb.match(wildcards=rb.FW_ALL & ~(rb.FW_DL_TYPE | rb.FW_IN_PORT), dl_type=ET_OF["f1"], in_port=1)
  return rb.match(wildcards=rb.FW_ALL & ~rb.FW_DL_TYPE, dl_type=ET_OF[m])


class Adapter(object):
  def __init__(self, NP=2, NB=1, MaxEntries=2, seed=0, probe=False, ResOut=0xfffd):
    self.out_of = dict(OUT_OF, f3=ResOut)
    self.NP, self.NB, self.probe = NP, NB, probe
    self.seed, self.started = seed, False
    rnd = random.Random(seed)
    self.rnd = rnd
    self.dpid = rnd.choice([1, 0x7fff, 0x0000ffffffffffff, 0x00007f0000000001 + rnd.randrange(1 << 20)])
    self.h = Harness(dpid=self.dpid, ports=NP, max_buffers=NB, miss_send_len=128,
                     max_entries=MaxEntries)
    # xid symbols -> boundary values, injective, per behaviour
    pool = list(XID_POOL) + [rnd.randrange(3, 0x7ffffffe) for _ in range(3)]
    rnd.shuffle(pool)
    self.xpool = pool
    self.xmap = {}
    self.xrev = {}
    self.badcmd = rnd.choice([5, 9, 0xffff, 0x0100, 0x0103, 0xff01, 0x0204])    # (also: a valid command in the low byte only)
    self.badstat = rnd.choice([6, 7, 0x1234, 0xfffe])
    self.badtype = rnd.choice([22, 23, 100, 255])
    self.echo_b1 = rnd.randbytes(rnd.choice(ECHO_SIZES))
    # snapshot of the switch state at the moment a BARRIER_REPLY is written
    self.snaps = []
    self.snap_error = None
    w = self.h.worker
    orig = w.send

    def send(data, _orig=orig):
      try:
        for m in rb.split(data):
          if m[1] == rb.BARRIER_REPLY:
            self.snaps.append(self._snap())
      except rb.ParseError:
        pass
      except Exception as e:        # the harness cannot read the switch: not a verdict
        self.snap_error = "%s: %s" % (type(e).__name__, e)
      return _orig(data)
    w.send = send
    # handshake (a switch may greet on connect or on the first HELLO)
    self.h.send(rb.hello(xid=0x51))
    self.h.take_bytes()
    self.h.take_emitted()
    self.bind = {}       # concrete buffer id -> slot (outstanding)
    self.lastid = {}     # slot -> last concrete id bound to it
    self.reqs = []
    self.pending = []    # messages written by the controller, not yet handed to the switch
                         # (args.more: they share one receive buffer with the next message)
    self.burst = []      # spec actions of the burst being assembled / last delivered
    self.lrnd = random.Random("len|%s" % seed)

  # ---- helpers -----------------------------------------------------------
  def _snap(self):
    sw = self.h.sw
    return {"ml": sw.miss_send_len, "fl": sw.config_flags, "nflows": len(sw.table),
            "down": [bool(sw.ports[p].config & rb.PC_PORT_DOWN) for p in range(1, self.NP + 1)]}

  def _x(self, sym):
    if sym not in self.xmap:
      v = self.xpool[len(self.xmap) % len(self.xpool)]
      self.xmap[sym] = v
      self.xrev[v] = sym
    return self.xmap[sym]

  def _xs(self, v):
    return self.xrev.get(v, "?%08x" % v)

  def _hw(self, p):
    return self.h.sw.ports[p].hw_addr.toRaw()

  def _concrete(self, s):
    """concrete buffer id for spec slot s (outstanding, stale or never issued)."""
    for c, sl in self.bind.items():
      if sl == s:
        return c
    if s in self.lastid:
      return self.lastid[s]
    used = set(self.bind) | set(self.lastid.values())
    if s > self.NB:
      return max([self.NB] + list(used)) + (s - self.NB)
    return max([0] + list(used)) + s

  def _flowname(self, e):
    m = e["match"]
    for f, et in ET_OF.items():
      if f == "miss":
        continue
      if (m["dl_type"] == et and not (m["wildcards"] & rb.FW_DL_TYPE)
          and e["priority"] == 0x8000 and e["table_id"] == 0
          and len(e["actions"]) == 1 and e["actions"][0].get("type") == 0
          and e["actions"][0].get("body", "")[:4] == "%04x" % self.out_of[f]):
        return f
    return "?%04x" % m["dl_type"]

  def _msg(self, raw):
    """one message written by the switch -> spec shape (None: not compared)."""
    t = raw[1]
    xid = struct.unpack_from("!I", raw, 4)[0]
    name = rb.TYPE_NAMES[t] if t < len(rb.TYPE_NAMES) else "T%d" % t
    try:
      m = rb.parse(raw)
    except (rb.ParseError, struct.error) as e:
      return {"t": "MALFORMED", "type": name, "xid": self._xs(xid), "why": str(e)[:60]}
    if raw[0] != 1:
      return {"t": "MALFORMED", "type": name, "xid": self._xs(xid), "why": "version %d" % raw[0]}
    x = self._xs(xid)
    if t in (rb.PORT_STATUS, rb.FLOW_REMOVED):
      return None                       # notifications: other properties
    if t == rb.PACKET_IN:
      c = m["buffer_id"]
      if c == rb.NO_BUFFER:
        buf = 0
      elif c in self.bind:
        buf = "DUPLICATE-ID"
      else:
        free = [s for s in range(1, self.NB + 1) if s not in self.bind.values()]
        buf = free[0] if free else "ID-BEYOND-POOL"
        if free:
          self.bind[c] = buf
          self.lastid[buf] = c
      return {"t": "PACKET_IN", "buf": buf, "port": m["in_port"]}
    if t == rb.ERROR:
      # what the error quotes: a message of the burst just delivered, with the xid the
      # error carries, at least its first 64 bytes and nothing beyond it (compared on
      # the 8-byte header: type, length, xid); reported as that message's type
      d = m["data"]
      qs = [q for q in self.reqs
            if len(d) >= min(64, len(q)) and d[:8] == q[:8] and len(d) <= len(q)
            and struct.unpack_from("!I", q, 4)[0] == xid]
      return {"t": "ERROR", "xid": x, "et": m["etype"], "code": m["code"],
              "data": tname(qs[0][1]) if qs else "bad:%s" % d[:8].hex()}
    if t == rb.ECHO_REPLY:
      b = m["body"]
      return {"t": "ECHO_REPLY", "xid": x,
              "body": "" if b == b"" else ("b1" if b == self.echo_b1 else "?" + b[:8].hex())}
    if t == rb.FEATURES_REPLY:
      return {"t": "FEATURES_REPLY", "xid": x,
              "dpid": "ok" if m["datapath_id"] == self.dpid else "bad:%x" % m["datapath_id"],
              "nbuf": m["n_buffers"],
              "ports": sorted(({"no": p["port_no"], "down": bool(p["config"] & rb.PC_PORT_DOWN)}
                               for p in m["ports"]), key=lambda p: p["no"])}
    if t == rb.GET_CONFIG_REPLY:
      return {"t": "GET_CONFIG_REPLY", "xid": x, "flags": m["flags"], "ml": m["miss_send_len"]}
    if t == rb.BARRIER_REPLY:
      st = self.snaps.pop(0) if self.snaps else "no-snapshot"
      if m["body"]:
        st = "barrier-with-body"
      return {"t": "BARRIER_REPLY", "xid": x, "st": st}
    if t == rb.QUEUE_GET_CONFIG_REPLY:
      return {"t": "QUEUE_GET_CONFIG_REPLY", "xid": x, "port": m["port"], "nq": m["queues_len"]}
    if t == rb.STATS_REPLY:
      st = m["stype"]
      r = {"t": "STATS_REPLY", "xid": x, "st": STNAME.get(st, "T%d" % st), "more": m["flags"]}
      if st == rb.ST_DESC:
        r["body"] = [{"desc": "ok"}]
      elif st == rb.ST_FLOW:
        r["body"] = sorted(({"f": self._flowname(e), "pk": e["packet_count"],
                             "by": e["byte_count"]} for e in m["flows"]),
                           key=lambda e: e["f"])
      elif st == rb.ST_AGGREGATE:
        r["body"] = [{"pk": m["packet_count"], "by": m["byte_count"], "n": m["flow_count"]}]
      elif st == rb.ST_TABLE:
        r["body"] = [{"id": tb["table_id"], "active": tb["active_count"],
                      "look": tb["lookup_count"], "mat": tb["matched_count"]}
                     for tb in m["tables"]]
      elif st == rb.ST_PORT:
        r["body"] = sorted(({"no": p["port_no"], "rx": p["rx_packets"], "tx": p["tx_packets"],
                             "rxb": p["rx_bytes"], "txb": p["tx_bytes"]} for p in m["ports"]),
                           key=lambda p: p["no"])
      elif st == rb.ST_QUEUE:
        r["body"] = [{"q": i} for i in range(m["queues"])]
      else:
        r["body"] = [{"raw": m["body"][:8].hex()}]
      return r
    return {"t": name, "xid": x}

  def _collect(self, escaped=None):
    out = []
    data = self.h.take_bytes()
    try:
      raws = rb.split(data)
    except rb.ParseError as e:
      raws = []
      out.append({"t": "GARBAGE", "why": str(e)[:60]})
    for raw in raws:
      m = self._msg(raw)
      if m is not None:
        out.append(m)
    if escaped:
      out.append({"t": "ESCAPED", "exc": escaped})
    w = self.h.worker
    if w.closed or w._shutdown_send:
      out.append({"t": "CLOSED"})
    return out

  def _send(self, data):
    """push one controller message; exceptions out of POX become observations"""
    self.reqs = frames(data)
    esc = None
    try:
      self.h.worker._push_receive_data(data)
    except Exception as e:          # the switch let an internal failure escape
      esc = type(e).__name__
      self.h.worker.receive_buf = b""
    return self._collect(esc)

  # ---- concretisation of the spec's actions ------------------------------
  def encode(self, a, args):
    """bytes of the controller message for spec action a(args)."""
    x = self._x(args["xid"]) if args.get("xid", "-") != "-" else 0
    if a == "Hello":
      return rb.hello(xid=x)
    if a == "EchoReq":
      return rb.echo_request(self.echo_b1 if args["body"] == "b1" else b"", xid=x)
    if a == "EchoReply":
      return rb.echo_reply(b"xyz", xid=x)
    if a == "FeaturesReq":
      return rb.features_request(xid=x)
    if a == "GetConfigReq":
      return rb.get_config_request(xid=x)
    if a == "SetConfig":
      return rb.set_config(flags=args["flags"], miss_send_len=args["ml"], xid=x)
    if a == "BarrierReq":
      return rb.barrier_request(xid=x)
    if a == "Vendor":
      return rb.vendor(0x00002320, b"\0\0\0\x0a", xid=x)
    if a == "BadType":
      return rb.msg(self.badtype, b"abcd", xid=x)
    if a == "BadLen":
      return self.badlen(args["k"], x)
    if a == "PacketOut":
      act = args["act"]
      ab = (b"" if act == 0 else rb.a_vendor(0x00002320, b"\0" * 8) if act == BADACT
            else rb.a_output(act, 0))
      if args["src"] == "data":
        return rb.packet_out(buffer_id=rb.NO_BUFFER, in_port=rb.OFPP_NONE, actions=ab,
                             data=frame("miss"), xid=x)
      if args["src"] == "both":
        return rb.packet_out(buffer_id=self._concrete(args["slot"]), in_port=rb.OFPP_NONE, actions=ab,
                             data=frame("miss"), xid=x)
      return rb.packet_out(buffer_id=self._concrete(args["slot"]), in_port=rb.OFPP_NONE,
                           actions=ab, xid=x)
    if a == "FlowMod":
      cmd, f = args["cmd"], args["f"]
      buf = rb.NO_BUFFER if args["buf"] == "none" else self._concrete(args["slot"])
      kw = dict(match_bytes=fmatch(f), actions=rb.a_output(self.out_of[f], 0xffff if self.out_of[f] == rb.OFPP_CONTROLLER else 0),
                buffer_id=buf, xid=x)
      if cmd == "add":
        return rb.flow_mod(command=rb.FC_ADD, **kw)
      if cmd == "addov":
        return rb.flow_mod(command=rb.FC_ADD, flags=rb.FF_CHECK_OVERLAP, **kw)
      if cmd == "mod":
        return rb.flow_mod(command=rb.FC_MODIFY, **kw)
      if cmd == "del":
        return rb.flow_mod(command=rb.FC_DELETE, match_bytes=fmatch(f), xid=x)
      if cmd == "delall":
        return rb.flow_mod(command=rb.FC_DELETE, match_bytes=fmatch("all"), xid=x)
      if cmd == "badcmd":
        return rb.flow_mod(command=self.badcmd, **kw)
      if cmd == "emerg":
        return rb.flow_mod(command=rb.FC_ADD, flags=rb.FF_EMERG, **kw)
      if cmd == "emergto":
        return rb.flow_mod(command=rb.FC_ADD, flags=rb.FF_EMERG, idle=5, **kw)
      if cmd == "emergrem":
        return rb.flow_mod(command=rb.FC_ADD, flags=rb.FF_EMERG | rb.FF_SEND_FLOW_REM, **kw)
      if cmd == "addbad":
        # a flow whose only action is of an unsupported type; whatever the switch
        # did with it is erased by the strict delete that follows (harness
        # housekeeping: produces no message either way), so only the answer to
        # the flow-mod itself is observed
        bm = rb.match(wildcards=rb.FW_ALL & ~rb.FW_DL_TYPE, dl_type=ET_BADFLOW)
        return (rb.flow_mod(command=rb.FC_ADD, match_bytes=bm, buffer_id=buf, xid=x,
                            actions=rb.a_vendor(0x00002320, b"\0" * 8)) +
                rb.flow_mod(command=rb.FC_DELETE_STRICT, match_bytes=bm, xid=PROBE_XID + 9))
    if a == "PortMod":
      k, p = args["kind"], args["p"]
      cfg = rb.PC_PORT_DOWN if args["dn"] else 0
      if k == "set":
        return rb.port_mod(p, self._hw(p), config=cfg, mask=rb.PC_PORT_DOWN, xid=x)
      if k == "badport":
        return rb.port_mod(p, self._hw(1), config=cfg, mask=rb.PC_PORT_DOWN, xid=x)
      if k == "badhw":
        hw = bytearray(self._hw(p))
        hw[5] ^= 0x40
        return rb.port_mod(p, bytes(hw), config=cfg, mask=rb.PC_PORT_DOWN, xid=x)
    if a == "StatsReq":
      st = args["st"]
      if st in ("DESC", "TABLE"):
        return rb.stats_request(STYPE[st], xid=x)
      if st in ("FLOW", "AGGREGATE"):
        return rb.stats_request(STYPE[st], rb.flow_stats_request_body(
            fmatch(args["m"]), table_id=args["tb"], out_port=args["outp"]), xid=x)
      if st == "PORT":
        return rb.stats_request(rb.ST_PORT, rb.port_stats_request_body(args["p"]), xid=x)
      if st == "QUEUE":
        return rb.stats_request(rb.ST_QUEUE, rb.queue_stats_request_body(
            args["p"], 0xffffffff if args["q"] == 0 else args["q"]), xid=x)
      if st == "VENDOR":
        return rb.stats_request(rb.ST_VENDOR, struct.pack("!I", 0x2320) + b"abcd", xid=x)
      if st == "UNKNOWN":
        return rb.stats_request(self.badstat, b"", xid=x)
    if a == "QueueCfgReq":
      return rb.queue_get_config_request(args["p"], xid=x)
    raise ValueError("unknown action %s %s" % (a, args))

  def badlen(self, k, x):
    """a message of a controller-to-switch type whose length field is wrong for the
    type (framing stays consistent: the field is the number of bytes sent).  Every
    one carries content that WOULD change what the switch reports if it were
    executed anyway (config, port state, a flow)."""
    r = self.lrnd
    cut = lambda m, n: rb.header(m[1], n, x) + m[8:n]
    ext = lambda m: (lambda n: rb.header(m[1], len(m) + n, x) + m[8:] + bytes(n))(r.choice(LONG_EXTRA))
    bm = rb.match(wildcards=rb.FW_ALL & ~rb.FW_DL_TYPE, dl_type=ET_BADFLOW)
    fm = rb.flow_mod(command=rb.FC_ADD, match_bytes=bm, actions=rb.a_output(1, 0), xid=x)
    po = rb.packet_out(buffer_id=rb.NO_BUFFER, in_port=rb.OFPP_NONE, actions=rb.a_output(1, 0),
                       data=frame("miss"), xid=x)
    pm = rb.port_mod(1, self._hw(1), config=rb.PC_PORT_DOWN, mask=rb.PC_PORT_DOWN, xid=x)
    fsb = rb.flow_stats_request_body(fmatch("all"), table_id=0xff, out_port=rb.OFPP_NONE)
    if k == "features+":
      return ext(rb.features_request(xid=x))
    if k == "getcfg+":
      return ext(rb.get_config_request(xid=x))
    if k == "barrier+":
      return ext(rb.barrier_request(xid=x))
    if k == "setcfg+":
      return ext(rb.set_config(flags=1, miss_send_len=77, xid=x))
    if k == "portmod+":
      return ext(pm)
    if k == "qcfg+":
      return ext(rb.queue_get_config_request(1, xid=x))
    if k == "setcfg-":
      return cut(rb.set_config(flags=1, miss_send_len=77, xid=x), r.choice([8, 10, 11]))
    if k == "portmod-":
      return cut(pm, r.choice([8, 16, 24, 31]))
    if k == "qcfg-":
      return cut(rb.queue_get_config_request(1, xid=x), r.choice([8, 10]))
    if k == "flowmod-":
      return cut(fm, r.choice([8, 40, 48, 71]))
    if k == "packetout-":
      return cut(po, r.choice([8, 12, 15]))
    if k == "stats-":
      return cut(rb.stats_request(rb.ST_DESC, xid=x), r.choice([8, 10, 11]))
    if k == "vendor-":
      return cut(rb.vendor(0x00002320, b"", xid=x), r.choice([8, 10, 11]))
    if k in ("desc+", "table+"):
      return rb.stats_request(STYPE["DESC" if k == "desc+" else "TABLE"], bytes(r.choice([1, 4, 8])), xid=x)
    if k in ("flow-", "aggr-"):
      return rb.stats_request(STYPE["FLOW" if k == "flow-" else "AGGREGATE"],
                              fsb[:r.choice([0, 4, 40, 43])], xid=x)
    if k == "flow+":
      return rb.stats_request(rb.ST_FLOW, fsb + bytes(r.choice([1, 4, 8])), xid=x)
    if k == "port-":
      return rb.stats_request(rb.ST_PORT, rb.port_stats_request_body(1)[:r.choice([0, 2, 7])], xid=x)
    if k == "port+":
      return rb.stats_request(rb.ST_PORT, rb.port_stats_request_body(1) + bytes(r.choice([1, 4, 8])), xid=x)
    if k == "queue-":
      return rb.stats_request(rb.ST_QUEUE, rb.queue_stats_request_body(rb.OFPP_ALL)[:r.choice([0, 4, 7])], xid=x)
    if k in ("flowmod-act0", "flowmod-actover"):
      # the embedded action's own length: 0, or running past the end of the message
      b = bytearray(fm)
      struct.pack_into("!H", b, 72 + 2, 0 if k == "flowmod-act0" else r.choice([16, 24, 0xfff8]))
      return bytes(b)
    if k == "packetout-act0":
      b = bytearray(po)
      struct.pack_into("!H", b, 16 + 2, 0)
      return bytes(b)
    if k == "packetout-actover":
      # actions_len claims more than the message holds
      b = bytearray(po)
      struct.pack_into("!H", b, 14, len(po) - 16 + r.choice([8, 16, 4000]))
      return bytes(b)
    raise ValueError("unknown malformed-length kind %r" % (k,))

  def _probe(self):
    """read the reported state back through the wire (read-only requests)."""
    try:
      self.reqs = []
      b = (rb.get_config_request(xid=PROBE_XID + 1) + rb.features_request(xid=PROBE_XID + 2) +
           rb.stats_request(rb.ST_FLOW, rb.flow_stats_request_body(), xid=PROBE_XID + 3) +
           rb.stats_request(rb.ST_PORT, rb.port_stats_request_body(), xid=PROBE_XID + 4))
      self.h.worker._push_receive_data(b)
      ms = {m["xid"]: m for m in rb.parse_stream(self.h.take_bytes())}
      cfg, feat, fl, po = (ms[PROBE_XID + i] for i in (1, 2, 3, 4))
      dn = {p["port_no"]: bool(p["config"] & rb.PC_PORT_DOWN) for p in feat["ports"]}
      return {"ml": cfg["miss_send_len"], "fl": cfg["flags"],
              "flows": sorted(({"f": self._flowname(e), "pk": e["packet_count"],
                                "by": e["byte_count"]} for e in fl["flows"]),
                              key=lambda e: e["f"]),
              "ports": sorted(({"no": p["port_no"], "down": dn.get(p["port_no"]),
                                "rx": p["rx_packets"], "tx": p["tx_packets"]}
                               for p in po["ports"]), key=lambda p: p["no"])}
    except Exception as e:
      self.h.worker.receive_buf = b""
      self.h.take_bytes()
      return {"probe": "failed:%s" % type(e).__name__}

  def step(self, a, args):
    if not self.started:
      # the adapter seed is the same for all behaviours of one replay call: mix the
      # first step in, so that the symbol -> xid mapping differs between behaviours
      self.started = True
      if not self.xmap:
        r2 = random.Random("%s|%s|%s" % (self.seed, a, sorted((args or {}).items())))
        r2.shuffle(self.xpool)
        self.echo_b1 = r2.randbytes(r2.choice(ECHO_SIZES))
        self.lrnd = random.Random("len|%s|%s|%s" % (self.seed, a, sorted((args or {}).items())))
    more = bool((args or {}).get("more"))
    if a == "Rx":
      self.reqs = []
      esc = None
      try:
        self.h.rx(frame(args["k"]), args["p"])
      except Exception as e:
        esc = type(e).__name__
      out = self._collect(esc)
    else:
      try:
        data = self.encode(a, args)
      except Exception as e:
        raise Machinery("C13 adapter cannot build %s %s: %s: %s" % (a, args, type(e).__name__, e))
      if a in ("PacketOut", "FlowMod") and args.get("slot"):
        # the id this message names is spent once the switch has read the message
        self.bind.pop(self._concrete(args["slot"]), None)
      if not self.pending:
        self.burst = []
      self.burst.append((a, args.get("xid")))
      if more:
        # pipelined: the controller has written the message, the switch has not been
        # given the receive buffer yet - nothing can be observed
        self.pending.append(data)
        return {"out": []}
      data = b"".join(self.pending) + data
      self.pending = []
      out = self._send(data)
    self.h.take_emitted()
    if self.snap_error:
      raise Machinery("C13 adapter cannot snapshot the switch state: " + self.snap_error)
    obs = {"out": out}
    if self.probe:
      obs["st"] = self._probe()
    return obs

  def send_batch(self, msgs, cuts):
    """several controller messages in one stream, delivered in segments cut at
    the given offsets; returns everything the switch wrote for the batch."""
    data = b"".join(msgs)
    self.reqs = frames(data)
    esc = None
    pos = 0
    try:
      for c in sorted(set(cuts)) + [len(data)]:
        if c > pos:
          self.h.worker._push_receive_data(data[pos:c])
          pos = c
    except Exception as e:
      esc = type(e).__name__
      self.h.worker.receive_buf = b""
    out = self._collect(esc)
    self.h.take_emitted()
    return out

  # ---- comparison ----------------------------------------------------------
  def normalize(self, obs, exp):
    # (the engine passes the whole step record in newer versions, exp in older)
    if isinstance(exp, dict) and "outs" not in exp and "exp" in exp:
      exp = exp["exp"]
    if not isinstance(obs, dict) or "out" not in obs:
      return obs
    # exp.outs = the answers to this message alone (what the property talks about);
    # exp.see = what the channel shows when the step ends (the answers to the whole
    # burst, or nothing while the message waits in the receive buffer): compared
    r = {"outs": exp["outs"],
         "see": exp["see"] if obs["out"] in exp["see"] else [obs["out"]],
         "st": obs["st"] if "st" in obs else exp["st"]}
    return r

  def signature(self, st, obs):
    sig = signature(st, obs)
    if len(self.burst) > 1 and st["a"] != "Rx":
      sig["pipelined"] = len(self.burst)         # messages read by the switch in one go
      # the message of the burst whose answer is the first to deviate (by the xid of
      # the answer the spec expects at that point)
      sees = obs.get("see") if isinstance(obs, dict) else None
      w = diff_stream(sees[0] if sees else None, (st.get("exp") or {}).get("see") or [[]], want=True)
      if isinstance(w, dict) and "xid" in w:
        who = [a for a, x in self.burst if x == w["xid"]]
        if who:
          sig["answer_to"] = who[0]
    return sig


LEN_TYPE = {"features+": "FEATURES_REQUEST", "getcfg+": "GET_CONFIG_REQUEST", "barrier+": "BARRIER_REQUEST",
            "setcfg": "SET_CONFIG", "portmod": "PORT_MOD", "qcfg": "QUEUE_GET_CONFIG_REQUEST",
            "flowmod": "FLOW_MOD", "packetout": "PACKET_OUT", "vendor": "VENDOR"}
ACT_TYPE = {"Hello": "HELLO", "EchoReq": "ECHO_REQUEST", "EchoReply": "ECHO_REPLY",
            "FeaturesReq": "FEATURES_REQUEST", "GetConfigReq": "GET_CONFIG_REQUEST",
            "SetConfig": "SET_CONFIG", "BarrierReq": "BARRIER_REQUEST", "Vendor": "VENDOR",
            "BadType": "UNDEFINED", "PacketOut": "PACKET_OUT", "FlowMod": "FLOW_MOD",
            "PortMod": "PORT_MOD", "StatsReq": "STATS_REQUEST", "QueueCfgReq": "QUEUE_GET_CONFIG_REQUEST"}


def type_of(a, args):
  """OpenFlow type name of the message spec action a(args) stands for (used only to
  word finding signatures; the verdict compares with the spec's own `data`)."""
  if a == "BadLen":
    k = str(args.get("k"))
    for pre, t in LEN_TYPE.items():
      if k.startswith(pre):
        return t
    return "STATS_REQUEST"
  return ACT_TYPE.get(a)


def _special(out):
  ts = [m.get("t") for m in out]
  if "ESCAPED" in ts:
    return "escaped:" + [m for m in out if m["t"] == "ESCAPED"][0]["exc"]
  if "CLOSED" in ts:
    return "closed"
  if "MALFORMED" in ts or "GARBAGE" in ts:
    return "malformed:" + ",".join(m.get("type", "") for m in out if m["t"] in ("MALFORMED",))
  return None


def classify(out, a, args):
  """observed output class of one step (for finding signatures)."""
  if not isinstance(out, list):
    return "adapter-exception"
  ts = [m.get("t") for m in out]
  sp = _special(out)
  if sp:
    return sp
  if not out:
    return "none"
  if len(out) > 1:
    return "extra:" + ",".join(str(t) for t in ts)
  m = out[0]
  if m.get("xid") is not None and m.get("xid") != args.get("xid") and m["t"] != "PACKET_IN":
    return "wrong_xid:" + str(m["t"])
  if m["t"] == "ERROR":
    if m.get("data") != type_of(a, args):     # quotes nothing / too little / another message
      return "error-data"
    return "error:%s/%s" % (m["et"], m["code"])
  return "reply:" + str(m["t"])


def diff_stream(out, alts, want=False):
  """first point where the stream observed for a pipelined burst leaves every stream
  the spec allows (for finding signatures)."""
  if not isinstance(out, list):
    return None if want else "adapter-exception"
  sp = _special(out)
  if sp and not want:
    return sp

  def common(alt):
    n = 0
    while n < len(alt) and n < len(out) and alt[n] == out[n]:
      n += 1
    return n
  best = max(alts or [[]], key=common)
  i = common(best)
  if want:        # the message the spec expects where the streams part
    return best[i] if i < len(best) else None
  if i >= len(out):
    return "missing:%s" % best[i].get("t") if i < len(best) else "same"
  m = out[i]
  if i >= len(best):
    return "extra:%s" % m.get("t")
  w = best[i]
  if m.get("t") != w.get("t"):
    return "%s-for-%s" % (m.get("t"), w.get("t"))
  if m.get("xid") != w.get("xid"):
    return "wrong_xid:%s" % m.get("t")
  if m.get("t") == "ERROR":
    if m.get("data") != w.get("data"):
      return "error-data"
    return "error:%s/%s" % (m.get("et"), m.get("code"))
  return "payload:%s" % m.get("t")


def signature(st, obs):
  a, args, exp = st["a"], st.get("args") or {}, st.get("exp") or {}
  sig = {"action": a, "tag": st.get("tag", a)}
  if isinstance(obs, dict) and "EXC" in obs:
    sig["observed"] = "adapter-exception:" + obs["EXC"]
    return sig
  sees = obs.get("see") if isinstance(obs, dict) else None
  out = sees[0] if sees else None
  alts = exp.get("see") or [[]]
  if args.get("more") or exp.get("see") != exp.get("outs"):
    # a message that waits in the receive buffer, or the read of a pipelined burst
    sig["observed"] = "early-output" if args.get("more") and out else diff_stream(out, alts)
    sig["expected"] = "burst"
  else:
    sig["observed"] = classify(out, a, args)
    sig["expected"] = classify(alts[0], a, args)
  if out is not None and out in alts:
    # outputs agree: the probe after the step read back a different state
    sig["observed"] = "state"
    got, want = obs.get("st"), exp.get("st")
    if isinstance(got, dict) and isinstance(want, dict):
      sig["fields"] = sorted(k for k in want if got.get(k) != want[k])
    else:
      sig["fields"] = ["probe"]
  elif sig["observed"] == sig["expected"] and out:
    sig["observed"] = "payload:" + str(out[0].get("t"))
  for k in ("st", "cmd", "buf", "src", "kind"):
    if k in args:
      sig[k] = args[k]
  if a == "StatsReq":
    if args.get("p") == ABSENT:
      sig["arg"] = "port_not_present"
    if args.get("tb") not in (None, 0, 255):
      sig["arg"] = "other_table"
  if a == "PortMod" and args.get("kind") == "badport":
    sig["port"] = "absent" if args.get("p") == ABSENT else "reserved"
  if a in ("PacketOut",):
    sig["act"] = {0: "none", ABSENT: "absent_port", BADACT: "unsupported"}.get(args.get("act"), "port")
  return sig


# ---- schema of observed messages (trace validation: TLC must never be asked
# to compare values of different types, so anything else is "not well formed")
_INT = int


def _rec(d, spec):
  return (isinstance(d, dict) and set(d) == set(spec) and
          all((type(d[k]) is t) if not callable(t) or isinstance(t, type) else t(d[k])
              for k, t in spec.items()))


def _lst(f):
  return lambda v: isinstance(v, list) and all(f(e) for e in v)


_BODY = {
    "DESC": lambda e: _rec(e, {"desc": str}),
    "FLOW": lambda e: _rec(e, {"f": str, "pk": int, "by": int}),
    "AGGREGATE": lambda e: _rec(e, {"pk": int, "by": int, "n": int}),
    "TABLE": lambda e: _rec(e, {"id": int, "active": int, "look": int, "mat": int}),
    "PORT": lambda e: _rec(e, {"no": int, "rx": int, "tx": int, "rxb": int, "txb": int}),
    "QUEUE": lambda e: False,
}


def schema_ok(m):
  if not isinstance(m, dict):
    return False
  t = m.get("t")
  big = lambda v: type(v) is int and 0 <= v < (1 << 31)
  if t == "ERROR":
    return _rec(m, {"t": str, "xid": str, "et": big, "code": big, "data": str})
  if t == "ECHO_REPLY":
    return _rec(m, {"t": str, "xid": str, "body": str})
  if t == "FEATURES_REPLY":
    return _rec(m, {"t": str, "xid": str, "dpid": str, "nbuf": big,
                    "ports": _lst(lambda p: _rec(p, {"no": big, "down": bool}))})
  if t == "GET_CONFIG_REPLY":
    return _rec(m, {"t": str, "xid": str, "flags": big, "ml": big})
  if t == "BARRIER_REPLY":
    return _rec(m, {"t": str, "xid": str,
                    "st": lambda s: _rec(s, {"ml": big, "fl": big, "nflows": big,
                                             "down": _lst(lambda b: type(b) is bool)})})
  if t == "QUEUE_GET_CONFIG_REPLY":
    return _rec(m, {"t": str, "xid": str, "port": big, "nq": big})
  if t == "PACKET_IN":
    return _rec(m, {"t": str, "buf": big, "port": big})
  if t == "STATS_REPLY":
    f = _BODY.get(m.get("st"))
    return (f is not None and
            _rec(m, {"t": str, "xid": str, "st": str, "more": big,
                     "body": _lst(lambda e: f(e) and all(big(v) for v in e.values()
                                                        if type(v) is int))}))
  return False
