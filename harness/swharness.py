"""A real SoftwareSwitch behind a real OFConnection on a fake IOWorker.

Controller->switch messages are bytes (harness.rawbytes) pushed through
OFConnection.read; bytes the switch writes are collected and decoded by the
independent parser.  Frames emitted on ports are collected from DpPacketOut.
"""
from harness import poxenv
from harness import rawbytes as rb

poxenv.boot()

from pox.lib.ioworker import IOWorker             # noqa: E402
from pox.datapaths import switch as swmod         # noqa: E402
from pox.openflow import flow_table as ftmod      # noqa: E402
from pox.lib.packet.ethernet import ethernet      # noqa: E402

poxenv.install_clock(swmod, ftmod)


class FakeSock(object):
  def getpeername(self):
    return ("127.0.0.1", 6633)


class Harness(object):
  def __init__(self, dpid=1, ports=4, max_buffers=100, miss_send_len=128,
               **kw):
    self.clock = poxenv.clock
    self.sw = swmod.SoftwareSwitch(dpid, ports=ports, max_buffers=max_buffers,
                                   miss_send_len=miss_send_len, **kw)
    self.worker = IOWorker()
    self.worker.socket = FakeSock()
    self.conn = swmod.OFConnection(self.worker)
    self.sw.set_connection(self.conn)
    self.emitted = []
    self.sw.addListenerByName("DpPacketOut", self._on_out)
    self.escaped = []

  def _on_out(self, e):
    self.emitted.append((e.port.port_no, e.packet.pack()))

  # -- controller -> switch
  def send(self, data):
    """Push controller bytes into the switch; returns decoded replies."""
    self.worker._push_receive_data(data)
    return self.take_msgs()

  def take_bytes(self):
    b = self.worker.send_buf
    self.worker.send_buf = b""
    return b

  def take_msgs(self):
    return rb.parse_stream(self.take_bytes())

  def take_emitted(self):
    e = self.emitted
    self.emitted = []
    return e

  # -- dataplane
  def rx(self, frame_bytes, in_port):
    p = ethernet(raw=frame_bytes)
    self.sw.rx_packet(p, in_port, packet_data=None)

  def sweep(self):
    self.sw.table.remove_expired_entries()
