"""X10 adapter: the actions of specs/forest/Forest.tla performed on the real spanning_forest component.

Vocabulary of the spec: switches 1..n, ports 1..k, links [s1, p1, s2, p2].  The adapter concretises switch
numbers to 64-bit datapath ids and port numbers to OpenFlow port numbers with ORDER-PRESERVING maps (the tree
algorithm sorts links by (dpid1, port1, dpid2, port2), the spec by the corresponding numbers), performs the
action on harness.x10_net.FNet and returns what an observer of the OpenFlow channel sees - every byte the
controller wrote in that step, decoded with harness/rawbytes.py - plus the component's own tree:

  sent   [[s, [[p, cfg], ...]], ...]   one entry per switch that was written a batch (port_mods + features request)
  tree   [[s1, p1, s2, p2], ...]       links the component has on its tree
  err    ""  |  names of exceptions raised inside the component's handlers  |  "malformed: ..." when what was
         written is not a well-formed batch (mask != NO_FLOOD|NO_FWD, wrong hw_addr, no features request, ...)
  Deliver -> cfg [[p, bits], ...]      NO_FLOOD/NO_FWD bits on the real switch after it processed the bytes
  Advance -> tick                      did the component's timer fire at the end of this time unit
  Disconnect                           (marker only, see step())

Nothing is judged here.
"""
import random

from engine.core import Machinery

DPIDS = [[1, 2, 3, 4, 5, 6],
         [0x10, 0x7fffffff, 0x100000000, 0x0001000000000000, 0x8000000000000000, 0xffffffffffffffff],
         [2, 0xffff, 0xdeadbeefcafe, 0x7fffffffffffffff, 0xfffffffffffffffe, 0xffffffffffffffff],
         [0x80, 0x100, 0x80000000, 0xffffffff, 0x0123456789abcdef, 0x8000000000000001]]
PORTS = [[1, 2, 3, 4, 5, 6],
         [1, 9, 255, 256, 0x8000, 0xfeff],
         [7, 100, 1000, 0x7fff, 0xfe00, 0xfeff],
         [2, 3, 10, 99, 12345, 0xfefe]]


def concretise(n, k, seed):
  rnd = random.Random(seed * 7919 + 17)
  dp = DPIDS[seed % len(DPIDS)]
  pp = PORTS[(seed // len(DPIDS)) % len(PORTS)]
  if n > len(dp) or k > len(pp):
    raise ValueError("too many switches / ports")
  di = sorted(rnd.sample(range(len(dp)), n))
  pi = sorted(rnd.sample(range(len(pp)), k))
  return [dp[i] for i in di], [pp[i] for i in pi]


class Adapter(object):
  def __init__(self, n=2, ports=None, mode="stable", P=1, W=1, seed=0, real=False, link_timeout=None):
    """ports: {"1": [1, 2], ...} initial ports per switch (spec numbers); P, W in time units of 1/P s"""
    from harness import x10_net as xn
    self.xn = xn
    self.n = n
    ports = ports or {str(s): [1, 2] for s in range(1, n + 1)}
    k = max([max(v) for v in ports.values() if v] + [4])
    self.dp, self.pn = concretise(n, k, seed)
    self.sw_of = {d: i + 1 for i, d in enumerate(self.dp)}
    self.port_of = {q: j + 1 for j, q in enumerate(self.pn)}
    self.P, self.W = P, W
    self.unit = 1.0 / P
    self.real = real
    self.net = xn.FNet(self.dp, {self.dp[int(s) - 1]: [self.pn[p - 1] for p in ps] for s, ps in ports.items()},
                       mode=mode, cycle=4.0 * W * self.unit, real_discovery=real, link_timeout=link_timeout)
    self.stash = None
    self.dpend = None

  # ------------------------------------------------------------ maps
  def d(self, s):
    return self.dp[s - 1]

  def q(self, p):
    return self.pn[p - 1]

  def al(self, l):
    return [self.sw_of.get(l[0], 0), self.port_of.get(l[1], 0), self.sw_of.get(l[2], 0), self.port_of.get(l[3], 0)]

  # ------------------------------------------------------------ observation
  def collect(self):
    net = self.net
    sent = []
    bad = []
    for d, msgs in sorted(net.sent_since_mark().items()):
      s = self.sw_of[d]
      if self.real:      # the real discovery component shares the channel (flow_mod at connect, LLDP packet_outs)
        msgs = [m for m in msgs if m["name"] not in ("FLOW_MOD", "PACKET_OUT")]
        if not msgs:
          continue
      names = [m["name"] for m in msgs]
      if names.count("FEATURES_REQUEST") != 1 or names[-1] != "FEATURES_REQUEST":
        bad.append("s%d:features-request:%s" % (s, ",".join(names)))
      batch = []
      for m in msgs[:-1] if names and names[-1] == "FEATURES_REQUEST" else msgs:
        if m["name"] != "PORT_MOD":
          bad.append("s%d:unexpected-%s" % (s, m["name"]))
          continue
        p = self.port_of.get(m["port_no"], 0)
        if m["mask"] != self.xn.MASK:
          bad.append("s%d:p%d:mask=%x" % (s, p, m["mask"]))
        if m["config"] & ~self.xn.MASK:
          bad.append("s%d:p%d:config=%x" % (s, p, m["config"]))
        if m["advertise"] != 0:
          bad.append("s%d:p%d:advertise" % (s, p))
        hw = net.hw_addr(d, m["port_no"])
        if hw is not None and hw != m["hw_addr"]:
          bad.append("s%d:p%d:hw_addr" % (s, p))
        if p in [x[0] for x in batch]:
          bad.append("s%d:p%d:twice" % (s, p))
        batch.append([p, m["config"]])
      sent.append([s, sorted(batch)])
    errs = net.take_errors()
    err = ",".join(errs)
    if bad:
      err = "malformed: " + ";".join(bad) + ((" " + err) if err else "")
    return dict(sent=sorted(sent), tree=sorted(self.al(l) for l in net.tree()), err=err)

  # ------------------------------------------------------------ actions
  def step(self, a, args):
    net = self.net
    if a == "Tick":
      if self.stash is None:
        raise RuntimeError("the component's timer did not fire")
      obs, self.stash = self.stash, None
      return obs
    if self.stash is not None:
      raise RuntimeError("the component's timer fired where the specification has no Tick")
    net.mark()
    if a == "Advance":
      t0 = net.ticks
      net.advance(self.unit)
      fired = net.ticks - t0
      if fired > 1:
        raise RuntimeError("timer fired %d times in one time unit" % fired)
      if fired:
        self.stash = self.collect()
      else:
        o = self.collect()
        if o["sent"] or o["err"]:
          raise RuntimeError("bytes written without an event: %r" % (o,))
      return dict(tick=bool(fired))
    if a == "Deliver":
      dd = self.d(args["s"])
      net.deliver(dd)
      o = self.collect()
      if o["sent"] or o["err"]:
        return dict(cfg=[], unexpected=o)
      return dict(cfg=sorted([self.port_of.get(p, 0), c] for p, c in net.switch_cfg(dd).items()))
    if a == "Disconnect":
      # Connection.disconnect() removes the session from the nexus and raises ConnectionDown in one go; the
      # adapter performs both at the ConnDown step (the exported behaviours have nothing in between; histories
      # in which discovery's LinkEvents fall in between are recorded by harness/x10_e2e.py)
      self.dpend = args["s"]
      return self.collect()
    if self.dpend is not None and a != "ConnDown":
      raise Machinery("x10 adapter: %s between Disconnect and ConnDown is not replayable" % a)
    if a == "ConnUp":
      net.switch_up(self.d(args["s"]), fresh=bool(args["fresh"]))
    elif a == "ConnDown":
      if self.dpend != args["s"]:
        raise Machinery("x10 adapter: ConnDown without Disconnect")
      self.dpend = None
      net.switch_down(self.d(args["s"]))
    elif a == "LinkEv":
      l = args["l"]
      d1, p1, d2, p2 = self.d(l[0]), self.q(l[1]), self.d(l[2]), self.q(l[3])
      if args["dir"] == "uv":
        net.link_event(args["add"], d1, p1, d2, p2)
      else:
        net.link_event(args["add"], d2, p2, d1, p1)
    elif a == "PortEv":
      dd, pp, k = self.d(args["s"]), self.q(args["p"]), args["k"]
      if k == "add":
        net.port_add(dd, pp)
      elif k == "del":
        net.port_del(dd, pp)
      else:
        net.port_link(dd, pp, k == "up")
    else:
      raise RuntimeError("unknown action " + a)
    return self.collect()

  def signature(self, st, obs):
    exp = st.get("exp") or {}
    if isinstance(obs, dict) and "EXC" in obs:
      return dict(action=st["a"], kind="exception", exc=obs["EXC"])
    diff = sorted(k for k in set(exp) | set(obs) if exp.get(k) != obs.get(k))
    sig = dict(action=st["a"], differs=",".join(diff))
    if "sent" in diff:
      es = {x[0]: x[1] for x in exp.get("sent", [])}
      os_ = {x[0]: x[1] for x in obs.get("sent", [])}
      if set(es) - set(os_):
        sig["batch"] = "missing"
      elif set(os_) - set(es):
        sig["batch"] = "redundant"
      else:
        sig["batch"] = "wrong-config"
    if st["a"] == "PortEv":
      sig["k"] = st["args"]["k"]
    if st["a"] == "LinkEv":
      sig["add"] = st["args"]["add"]
    return sig

  def close(self):
    self.net.close()
