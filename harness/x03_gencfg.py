"""Generates the TLC configurations of specs/forwarding (run by hand after editing WORLDS:
`/venv/bin/python -m harness.x03_gencfg`).  One WORLD = one assignment of the constants of
Forwarding.tla (x NBuf).  Per world:
  MC_<w>_q.cfg / MC_<w>_t.cfg   all states within Dq / Dt steps (VIEW hides the history), every invariant and
                                action property; MCS_<w>_q.cfg the same with Strict = TRUE (the documented intent)
  MCX_<w>.cfg                   properties checked AND one behaviour per transition of the depth-bounded state
                                graph exported (ACTION_CONSTRAINT ExportT), in one run (spec -> code)
  EX_edges_<w>.cfg              the export alone
  EXS_edges_<w>.cfg             the same from the strict model (used in notes/X03.md only: the code must FAIL these)
  EX_sim<depth>_<w>.cfg         -simulate walks, invariants and properties checked along the way
  Trace_<w>.cfg                 code -> spec
The python mirror of the constants (SETS) is what the random driver of props/X03.py draws from."""
import os

DIR = os.path.join(os.path.dirname(os.path.dirname(os.path.abspath(__file__))), "specs", "forwarding")

UNK, BCAST, MCAST = 90, 91, 92
T2 = {(1, 3): (2, 3)}
T3 = {(1, 3): (2, 3), (2, 2): (3, 3)}
TRI = {(1, 2): (2, 2), (1, 3): (3, 2), (2, 3): (3, 3)}
SETS = {
    "L_none": {}, "L_T2": T2, "L_T3": T3, "L_Tri": TRI,
    "NF_none": [], "NF_Tri": [(2, 3), (3, 3)],
    "C_Tri12": [(1, 2, 2, 2), (2, 3, 3, 3)], "C_Tri1": [(1, 2, 2, 2)],
    "H2": [1, 2], "H3": [1, 2, 3],
    "At1_3": {1: (1, 1), 2: (1, 2), 3: (1, 3)}, "At1_2": {1: (1, 1), 2: (1, 2)}, "At1_same": {1: (1, 1), 2: (1, 1)},
    "At2_3": {1: (1, 1), 2: (1, 2), 3: (2, 1)}, "At2_2": {1: (1, 1), 2: (2, 1)},
    "At3_3": {1: (1, 1), 2: (2, 1), 3: (3, 1)}, "AtTri": {1: (1, 1), 2: (2, 1), 3: (3, 1)},
    "Mv_none": [], "Mv1": [(1, 1), (1, 2), (1, 3)], "Mv2": [(1, 1), (1, 2), (2, 1), (2, 2)], "Mv2s": [(1, 2), (2, 2)],
    "D_H2": [1, 2], "D_H2B": [1, 2, BCAST], "D_H3": [1, 2, 3], "D_H3B": [1, 2, 3, BCAST],
    "D_H3UB": [1, 2, 3, UNK, BCAST], "D_All3": [1, 2, 3, UNK, BCAST, MCAST], "D_All2": [1, 2, UNK, BCAST, MCAST],
    "D_1UB": [1, UNK, BCAST],
    "Sh_a": ["a"], "Sh_ab": ["a", "b"], "Sh_al": ["a", "l"], "Sh_abl": ["a", "b", "l"], "Sh_ar": ["a", "r"],
    "Sh_ablr": ["a", "b", "l", "r"],
    "G_none": [], "G_31": [31], "G_6": [6], "G_6_11": [6, 11], "G_6_31": [6, 31], "G_3_6_31": [3, 6, 31],
    "G_all": [6, 11, 31],
}

# name: (Comp, NS, Links, NoFlood, Cuts, Hosts, InitAt, MovePorts, Dsts, Shapes, Gaps, [NBuf...], D_edges, Dq, Dt)
WORLDS = {
    "hubpro_T3": ("hub_pro", 3, "L_T3", "NF_none", "L_none", "H3", "At3_3", "Mv_none", "D_1UB", "Sh_al", "G_31", [2], 2, 2, 4),
    "hubpro_T2": ("hub_pro", 2, "L_T2", "NF_none", "L_none", "H3", "At2_3", "Mv2s", "D_1UB", "Sh_a", "G_none", [0], 2, 2, 4),
    "hubre_T2": ("hub_re", 2, "L_T2", "NF_none", "L_none", "H3", "At2_3", "Mv2s", "D_1UB", "Sh_al", "G_none", [0, 2], 2, 2, 4),
    "hubre_Tri": ("hub_re", 3, "L_Tri", "NF_Tri", "L_none", "H3", "AtTri", "Mv_none", "D_1UB", "Sh_a", "G_none", [2], 2, 2, 4),
    "pairs_T1": ("pairs", 1, "L_none", "NF_none", "L_none", "H3", "At1_3", "Mv1", "D_All3", "Sh_a", "G_31", [0, 2], 3, 3, 5),
    "pairs_T1s": ("pairs", 1, "L_none", "NF_none", "L_none", "H2", "At1_same", "Mv_none", "D_H2B", "Sh_ab", "G_none", [2], 4, 4, 6),
    "pairs_T2": ("pairs", 2, "L_T2", "NF_none", "L_none", "H3", "At2_3", "Mv2s", "D_H3B", "Sh_a", "G_none", [0, 2], 3, 3, 5),
    "pairs_T3": ("pairs", 3, "L_T3", "NF_none", "L_none", "H3", "At3_3", "Mv_none", "D_H3UB", "Sh_al", "G_none", [2], 3, 3, 4),
    "multi_T1": ("multi", 1, "L_none", "NF_none", "L_none", "H3", "At1_3", "Mv_none", "D_H3UB", "Sh_abl", "G_3_6_31", [0, 2], 2, 2, 3),
    "multi_T1s": ("multi", 1, "L_none", "NF_none", "L_none", "H2", "At1_same", "Mv_none", "D_H2B", "Sh_ar", "G_6", [2], 4, 4, 7),
    "multi_T2": ("multi", 2, "L_T2", "NF_none", "L_T2", "H2", "At2_2", "Mv_none", "D_H2B", "Sh_ar", "G_6_31", [0, 1, 2], 3, 3, 6),
    "multi_T2u": ("multi", 2, "L_T2", "NF_none", "L_T2", "H2", "At2_2", "Mv_none", "D_H2", "Sh_ar", "G_none", [1], 5, 3, 8),
    "multi_T3": ("multi", 3, "L_T3", "NF_none", "L_none", "H3", "At3_3", "Mv_none", "D_H3UB", "Sh_abl", "G_6_11", [2], 2, 2, 3),
    "multi_Tri": ("multi", 3, "L_Tri", "NF_Tri", "C_Tri12", "H3", "AtTri", "Mv_none", "D_H3B", "Sh_a", "G_6_11", [0, 2], 3, 3, 5),
    "multi_TriR": ("multi", 3, "L_Tri", "NF_Tri", "C_Tri12", "H2", "At2_2", "Mv_none", "D_H2", "Sh_a", "G_none", [2], 5, 5, 8),
}
BUSY = ("multi_TriR",)        # worlds with the DetectBusy action (never used for -simulate: behaviours end there)
FIELDS = ("comp", "ns", "links", "noflood", "cuts", "hosts", "at", "moves", "dsts", "shapes", "gaps", "nbufs",
          "d_edges", "dq", "dt")

INVS = ["TypeOK", "UniqueHit", "LearnedTrue", "NoLeak", "FlowsFollowLinks", "FlowsLoopFree"]
PROPS = ["LeakOnlyByDeviation", "StrictHasNoDeviation", "NeverBack", "OncePerSwitch", "HubFloodsAll", "PairsIdeal",
         "MultiFloods", "MultiDropsLldp", "MultiDelivers", "IcmpAtEdge"]


def world(w):
  """python view of a world: names resolved through SETS"""
  d = dict(zip(FIELDS, WORLDS[w]))
  for k in ("links", "noflood", "cuts", "hosts", "at", "moves", "dsts", "shapes", "gaps"):
    d[k] = SETS[d[k]]
  return d


def consts(w, nbuf, strict, d):
  comp, ns, links, nf, cuts, hosts, at, mv, dsts, shapes, gaps = WORLDS[w][:11]
  return ("CONSTANTS Comp = \"%s\"\n  NS = %d\n  NP = 3\n  Links <- %s\n  NoFlood <- %s\n  Cuts <- %s\n  Hosts <- %s\n"
          "  InitAt <- %s\n  MovePorts <- %s\n  Dsts <- %s\n  Shapes <- %s\n  NBuf = %d\n  Gaps <- %s\n  Strict = %s\n  Busy = %s\n"
          "  D = %d\n"
          % (comp, ns, links, nf, cuts, hosts, at, mv, dsts, shapes, nbuf, gaps, "TRUE" if strict else "FALSE",
             "TRUE" if w in BUSY else "FALSE", d))


def names(w):
  for nb in WORLDS[w][11]:
    yield "%s_b%d" % (w, nb), nb


def all_names():
  return [(w, n, nb) for w in WORLDS for n, nb in names(w)]


def main():
  for f in os.listdir(DIR):
    if f.endswith(".cfg"):
      os.remove(os.path.join(DIR, f))
  for w in WORLDS:
    dE, dq, dt = WORLDS[w][12:15]
    for name, nb in names(w):
      props = "".join("INVARIANT %s\n" % i for i in INVS) + "".join("PROPERTY %s\n" % p for p in PROPS)
      mc = "INIT Init\nNEXT Next\nVIEW viewE\nCONSTRAINT Bound\nCHECK_DEADLOCK FALSE\n" + props
      for fn, strict, d in (("MC_%s_q", False, dq), ("MC_%s_t", False, dt), ("MCS_%s_q", True, dq), ("MCS_%s_t", True, dt)):
        with open(os.path.join(DIR, (fn % name) + ".cfg"), "w") as f:
          f.write(consts(w, nb, strict, d) + mc)
      ex = "INIT Init\nNEXT Next\nVIEW viewE\nCONSTRAINT Bound\nACTION_CONSTRAINT ExportT\nCHECK_DEADLOCK FALSE\n"
      with open(os.path.join(DIR, "MCX_%s.cfg" % name), "w") as f:          # model check AND export in one run
        f.write(consts(w, nb, False, dE) + ex + props)
      with open(os.path.join(DIR, "EX_edges_%s.cfg" % name), "w") as f:
        f.write(consts(w, nb, False, dE) + ex)
      with open(os.path.join(DIR, "EXS_edges_%s.cfg" % name), "w") as f:
        f.write(consts(w, nb, True, dE) + ex)
      for depth in (30, 80):
        with open(os.path.join(DIR, "EX_sim%d_%s.cfg" % (depth, name)), "w") as f:
          f.write(consts(w, nb, False, depth) + "INIT Init\nNEXT Next\nCHECK_DEADLOCK FALSE\nINVARIANT Export\n" + props)
      with open(os.path.join(DIR, "Trace_%s.cfg" % name), "w") as f:
        f.write(consts(w, nb, False, 0) + "INIT TrInit\nNEXT TrNext\nCONSTRAINT Progress\nPOSTCONDITION Accepted\n"
                "CHECK_DEADLOCK FALSE\n" + "".join("INVARIANT %s\n" % i for i in INVS))


if __name__ == "__main__":
  main()
