"""Generates the TLC configurations of specs/forwarding (run by hand after editing WORLDS:
`/venv/bin/python -m harness.x03_gencfg`).  One WORLD = one assignment of the constants of
Forwarding.tla; per world: MC_<w>.cfg (exhaustive, properties, vacuity names), MCS_<w>.cfg (the same
with Strict = TRUE), EX_edges_<w>.cfg (one behaviour per transition), EX_sim_<w>.cfg (-simulate),
Trace_<w>.cfg (code -> spec)."""
import os

DIR = os.path.join(os.path.dirname(os.path.dirname(os.path.abspath(__file__))), "specs", "forwarding")

# name: (Comp, NS, Links, NoFlood, Cuts, Hosts, InitAt, MovePorts, Dsts, Shapes, Gaps, [NBuf...], D_edges, D_mc)
WORLDS = {
    "hubpro_T3": ("hub_pro", 3, "L_T3", "NF_none", "L_none", "H3", "At3_3", "Mv_none", "D_All3", "Sh_al", "G_31", [2], 3, 0),
    "hubpro_T2": ("hub_pro", 2, "L_T2", "NF_none", "L_none", "H3", "At2_3", "Mv2s", "D_H3UB", "Sh_al", "G_none", [0], 3, 0),
    "hubre_T2": ("hub_re", 2, "L_T2", "NF_none", "L_none", "H3", "At2_3", "Mv2s", "D_H3UB", "Sh_al", "G_none", [0, 2], 3, 0),
    "hubre_Tri": ("hub_re", 3, "L_Tri", "NF_Tri", "L_none", "H3", "AtTri", "Mv_none", "D_H3UB", "Sh_a", "G_none", [2], 3, 0),
    "pairs_T1": ("pairs", 1, "L_none", "NF_none", "L_none", "H3", "At1_3", "Mv1", "D_All3", "Sh_a", "G_31", [0, 2], 3, 0),
    "pairs_T1s": ("pairs", 1, "L_none", "NF_none", "L_none", "H2", "At1_same", "Mv_none", "D_H2B", "Sh_ab", "G_none", [2], 4, 0),
    "pairs_T2": ("pairs", 2, "L_T2", "NF_none", "L_none", "H3", "At2_3", "Mv2s", "D_H3B", "Sh_a", "G_none", [0, 2], 3, 0),
    "pairs_T3": ("pairs", 3, "L_T3", "NF_none", "L_none", "H3", "At3_3", "Mv_none", "D_H3UB", "Sh_al", "G_none", [2], 3, 0),
    "multi_T1": ("multi", 1, "L_none", "NF_none", "L_none", "H3", "At1_3", "Mv_none", "D_All3", "Sh_abl", "G_6_31", [0, 2], 3, 0),
    "multi_T1s": ("multi", 1, "L_none", "NF_none", "L_none", "H2", "At1_same", "Mv_none", "D_H2B", "Sh_ar", "G_6", [2], 4, 0),
    "multi_T2": ("multi", 2, "L_T2", "NF_none", "L_T2", "H2", "At2_2", "Mv_none", "D_H2B", "Sh_ar", "G_6_31", [0, 1, 2], 4, 0),
    "multi_T3": ("multi", 3, "L_T3", "NF_none", "L_none", "H3", "At3_3", "Mv_none", "D_H3UB", "Sh_abl", "G_6_11", [2], 3, 0),
    "multi_Tri": ("multi", 3, "L_Tri", "NF_Tri", "C_Tri12", "H3", "AtTri", "Mv_none", "D_H3B", "Sh_ab", "G_6_11", [0, 2], 3, 0),
}

INVS = ["TypeOK", "UniqueHit", "LearnedTrue", "NoLeak", "FlowsFollowLinks", "FlowsLoopFree"]
PROPS = ["LeakOnlyByDeviation", "StrictHasNoDeviation", "NeverBack", "OncePerSwitch", "HubFloodsAll", "PairsIdeal",
         "MultiFloods", "MultiDropsLldp", "MultiDelivers", "IcmpAtEdge"]


def consts(w, nbuf, strict, d):
  comp, ns, links, nf, cuts, hosts, at, mv, dsts, shapes, gaps = WORLDS[w][:11]
  return ("CONSTANTS Comp = \"%s\"\n  NS = %d\n  NP = 3\n  Links <- %s\n  NoFlood <- %s\n  Cuts <- %s\n  Hosts <- %s\n"
          "  InitAt <- %s\n  MovePorts <- %s\n  Dsts <- %s\n  Shapes <- %s\n  NBuf = %d\n  Gaps <- %s\n  Strict = %s\n  D = %d\n"
          % (comp, ns, links, nf, cuts, hosts, at, mv, dsts, shapes, nbuf, gaps, "TRUE" if strict else "FALSE", d))


def names(w):
  for nb in WORLDS[w][11]:
    yield "%s_b%d" % (w, nb), nb


def main():
  for f in os.listdir(DIR):
    if f.endswith(".cfg"):
      os.remove(os.path.join(DIR, f))
  for w in WORLDS:
    dE = WORLDS[w][12]
    for name, nb in names(w):
      props = "".join("INVARIANT %s\n" % i for i in INVS) + "".join("PROPERTY %s\n" % p for p in PROPS)
      for pre, strict in (("MC", False), ("MCS", True)):
        with open(os.path.join(DIR, "%s_%s.cfg" % (pre, name)), "w") as f:
          f.write(consts(w, nb, strict, 0) + "INIT Init\nNEXT NextC\nVIEW view\nCHECK_DEADLOCK FALSE\n" + props)
      with open(os.path.join(DIR, "EX_edges_%s.cfg" % name), "w") as f:
        f.write(consts(w, nb, False, dE) + "INIT Init\nNEXT Next\nVIEW viewE\nCONSTRAINT Bound\n"
                "ACTION_CONSTRAINT ExportT\nCHECK_DEADLOCK FALSE\n")
      with open(os.path.join(DIR, "EXS_edges_%s.cfg" % name), "w") as f:      # the strict model's behaviours (notes only)
        f.write(consts(w, nb, True, dE) + "INIT Init\nNEXT Next\nVIEW viewE\nCONSTRAINT Bound\n"
                "ACTION_CONSTRAINT ExportT\nCHECK_DEADLOCK FALSE\n")
      for depth in (30, 80):
        with open(os.path.join(DIR, "EX_sim%d_%s.cfg" % (depth, name)), "w") as f:
          f.write(consts(w, nb, False, depth) + "INIT Init\nNEXT Next\nCHECK_DEADLOCK FALSE\nINVARIANT Export\n" + props)
      with open(os.path.join(DIR, "Trace_%s.cfg" % name), "w") as f:
        f.write(consts(w, nb, False, 0) + "INIT TrInit\nNEXT TrNext\nCONSTRAINT Progress\nPOSTCONDITION Accepted\n"
                "CHECK_DEADLOCK FALSE\n" + "".join("INVARIANT %s\n" % i for i in INVS))


if __name__ == "__main__":
  main()
