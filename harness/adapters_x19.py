"""X19 adapter: TopoEnt.tla actions -> the real Topology / OpenFlowTopology / OpenFlowSwitch / OpenFlowPort /
Discovery / of_01.Connection (harness/x19_env.py).

After EVERY step the observation has the shape of TopoEnt!Fin's `exp`:
  log    events delivered during the step, in order, to
           - a component bound to the Topology the way components bind (`topology.addListeners(sink)`) for
             all seven event types                                                   src = "topo"
           - listeners this component attaches to every OpenFlowSwitch entity, from its
             _handle_SwitchJoin, for all the entity's event types                    src = "sw"
           - listeners added to every connection after its handshake, i.e. BEHIND the entity's own
             listeners on that connection                                            src = "con"
  told   what the late SwitchJoin listeners were told (promise fulfilment and later joins)
  exc    exceptions raised to the caller / swallowed by raiseEventNoErrors (revent.handleEventException)
  st     the registry through getEntitiesOfType / getEntityByID / len, every registered OpenFlowSwitch's
         connection attribute (as the index of the TCP session), reconnect timer, ports (to_ofp_phy_port)
         and port adjacency (OpenFlowPort.entities), discovery's adjacency
Sets are sorted lists (every list except `log` is a set); entity generations and session numbers are bound
to the objects the code creates at first sight.

An OpenFlowSwitch object that has LEFT the registry while it still listened to a live session goes on
handling that session's events; what it re-raises is recorded like anything else, and its timer (st.ztimers) can
be fired by Expire.
"""
import json

from harness import rawbytes as rb
from harness.x19_env import Env, Peer, phy, hw_of, port_name, topomod, oftopo, discmod

import pox.lib.packet as pkt
from pox.lib.addresses import EthAddr
from pox.lib.revent import EventHalt

NOPORT = 9
OBJ_KIND = {"h1": "host", "h2": "host", "gs": "switch", "gs2": "switch", "e1": "ent", "c1": "ent", "c2": "ent"}
OBJ_ID = {"h1": "h1", "h2": "h2", "gs": "gs", "gs2": "gs2", "e1": "e1", "c1": "ctl", "c2": "ctl"}
OBJ_TAG = {"h1": 1, "h2": 1, "gs": 1, "gs2": 1, "e1": 1, "c1": 1, "c2": 2}
REASON = {"add": 0, "del": 1, "mod": 2}
REASON_NAME = {0: "add", 1: "del", 2: "mod"}
TOPO_EVENTS = ["SwitchJoin", "SwitchLeave", "HostJoin", "HostLeave", "EntityJoin", "EntityLeave", "Update"]
CON_EVENTS = ["ConnectionDown", "PortStatus", "PacketIn", "BarrierIn", "FlowRemoved"]


def canon(x):
  return json.dumps(x, sort_keys=True, separators=(",", ":"))


def cs(x, ordered=False):
  """canonical form: every list is a set (sorted), except the value of a key named `log`"""
  if isinstance(x, dict):
    return dict((k, cs(v, ordered=(k == "log"))) for k, v in x.items())
  if isinstance(x, (list, tuple)):
    l = [cs(v) for v in x]
    return l if ordered else sorted(l, key=canon)
  return x


def fix(beh):
  """behaviours as exported by TLC -> canonical (sets sorted)"""
  for st in beh:
    st["exp"] = cs(st["exp"])
  return beh


def make_obj(name):
  k = OBJ_KIND[name]
  if name in ("c1", "c2"):
    return topomod.Controller("ctl")
  if k == "host":
    return topomod.Host(OBJ_ID[name])
  if k == "switch":
    return topomod.Switch(OBJ_ID[name])
  e = topomod.Entity()          # automatic id
  return e


def lldp_frame(dpid, port):
  """the discovery probe the controller sends out of (dpid, port), built by discovery's own builder"""
  return discmod.LLDPSender._create_discovery_packet(dpid, port, EthAddr(hw_of(dpid, port)), 120).pack()


DATA_FRAME = rb.pad_to(rb.eth("00:00:00:00:19:02", "00:00:00:00:19:01", 0x0800), 60)


class Sink(object):
  """The observing component, bound with topology.addListeners(self)."""

  def __init__(self, ad):
    self.ad = ad

  def _topo(self, e, name):
    ent = e.entity
    self.ad.log.append(dict(src="topo", ev=name, id=self.ad.ent_id(ent), n=self.ad.tag(ent), c=0))

  def _handle_SwitchJoin(self, e):
    self._topo(e, "SwitchJoin")
    self.ad.attach(e.entity)

  def _handle_SwitchLeave(self, e):
    self._topo(e, "SwitchLeave")
    self.ad.leaving.append(e.entity)

  def _handle_HostJoin(self, e):
    self._topo(e, "HostJoin")

  def _handle_HostLeave(self, e):
    self._topo(e, "HostLeave")

  def _handle_EntityJoin(self, e):
    self._topo(e, "EntityJoin")

  def _handle_EntityLeave(self, e):
    self._topo(e, "EntityLeave")

  def _handle_Update(self, e):
    w = e.event
    name = w.__name__ if isinstance(w, type) else type(w).__name__
    self.ad.log.append(dict(src="topo", ev="Update", id=name, n=0, c=0))


class LateSink(object):
  def __init__(self, ad, k):
    self.ad, self.k = ad, k

  def _handle_SwitchJoin(self, e):
    self.ad.told_(self.k, e)


class Adapter(object):
  def __init__(self, objs=tuple(OBJ_KIND), **kw):
    self.env = Env()
    self.T = self.env.topology
    self.log, self.told, self.exc = [], [], []
    self.leaving = []
    self.peers = []
    self.keep = []               # every entity object ever seen (so that id() stays unique)
    self.tags = {}               # id(object) -> tag
    self.gens = {}               # dpid -> generations seen
    self.dead = set()            # id(OpenFlowSwitch objects that left the registry)
    self.attached = set()
    self.objs = {}
    for name in sorted(objs):
      o = make_obj(name)
      self.objs[name] = o
      self.keep.append(o)
      self.tags[id(o)] = OBJ_TAG[name]
    self.auto_ids = {}
    e1 = self.objs.get("e1")
    if e1 is not None:
      self.auto_ids[e1.id] = "e1"          # the id of a plain Entity is chosen by the code
    self.sink = Sink(self)
    got = self.T.addListeners(self.sink)
    if len(got) != len(TOPO_EVENTS):
      raise RuntimeError("observer bound to %d of %d topology events" % (len(got), len(TOPO_EVENTS)))
    self.nbar = 0
    self.halt = False            # the application's listener on the entity halts the re-raised event

  # -- identities
  def ent_id(self, ent):
    if isinstance(ent, oftopo.OpenFlowSwitch):
      return "d%d" % ent.dpid
    i = getattr(ent, "id", None)
    if i in self.auto_ids:
      return self.auto_ids[i]
    return str(i)

  def tag(self, ent):
    t = self.tags.get(id(ent))
    if t is None:
      if isinstance(ent, oftopo.OpenFlowSwitch):
        self.gens[ent.dpid] = t = self.gens.get(ent.dpid, 0) + 1
      else:
        t = 99
      self.tags[id(ent)] = t
      self.keep.append(ent)
    return t

  def conn_index(self, con):
    if con is None:
      return 0
    for i, p in enumerate(self.peers):
      if p.con is con:
        return i + 1
    return -1

  # -- recorders
  def attach(self, sw):
    if not isinstance(sw, oftopo.OpenFlowSwitch) or id(sw) in self.attached:
      return
    self.attached.add(id(sw))
    for ev in sorted(sw._eventMixin_events, key=lambda e: e.__name__):
      sw.addListener(ev, lambda e, sw=sw, name=ev.__name__: self.sw_event(sw, name, e))

  def sw_event(self, sw, name, e):
    did, g = "d%d" % sw.dpid, self.tag(sw)
    if name == "PortStatus":
      self.log.append(dict(src="sw", ev=name, id=REASON_NAME.get(e.ofp.reason, str(e.ofp.reason)),
                           n=e.ofp.desc.port_no, c=self.conn_index(e.connection)))
    elif name in ("PacketIn", "BarrierIn", "FlowRemoved", "SwitchConnectionUp"):
      self.log.append(dict(src="sw", ev=name, id=did, n=g, c=self.conn_index(e.connection)))
      if self.halt and name != "SwitchConnectionUp":
        return EventHalt
    else:
      ent = getattr(e, "entity", None)
      if ent is not sw:
        did = "WRONG-ENTITY"
      self.log.append(dict(src="sw", ev=name, id=did, n=g, c=0))

  def con_event(self, c, name, e):
    if name == "PortStatus":
      self.log.append(dict(src="con", ev=name, id=REASON_NAME.get(e.ofp.reason, str(e.ofp.reason)),
                           n=e.ofp.desc.port_no, c=c))
    else:
      # n: whether a listener behind the entity's sees the event marked as halted (the entity resets the mark)
      self.log.append(dict(src="con", ev=name, id="", n=1 if (e.halt and name != "ConnectionDown") else 0, c=c))

  def told_(self, k, e):
    ent = e.entity
    self.told.append(dict(k=k, id=self.ent_id(ent), tag=self.tag(ent)))

  # -- the state as the public API shows it
  def state(self):
    T = self.T
    allents = T.getEntitiesOfType(topomod.Entity)
    switches = T.getEntitiesOfType(topomod.Switch)
    hosts = T.getEntitiesOfType(topomod.Host)
    ents, sws = [], []
    bad = []
    if len(T) != len(allents):
      bad.append("len")
    for e in allents:
      kind = "switch" if any(e is x for x in switches) else "host" if any(e is x for x in hosts) else "ent"
      if any(e is x for x in switches) and any(e is x for x in hosts):
        bad.append("both-kinds")
      if T.getEntityByID(e.id) is not e or T.getEntityByID(e.id, fail=True) is not e:
        bad.append("byid")
      ents.append(dict(id=self.ent_id(e), kind=kind, tag=self.tag(e)))
    for x in switches + hosts:
      if not any(x is e for e in allents):
        bad.append("typed-not-in-all")
    present = set(d["id"] for d in ents)
    for name, o in self.objs.items():
      if OBJ_ID[name] not in present and T.getEntityByID(o.id) is not None:
        bad.append("ghost:" + name)
    for b in bad:
      ents.append(dict(id="INCONSISTENT:" + b, kind="ent", tag=0))
    timers = self.env.reconnect_timers()
    for sw in switches:
      if not isinstance(sw, oftopo.OpenFlowSwitch):
        continue
      ci = self.conn_index(sw._connection)
      if sw.connected != (sw._connection is not None):
        ci = -2
      ports, adj = [], []
      for no, po in sw.ports.items():
        ofp = po.to_ofp_phy_port()
        st = ofp.state
        if (po.number != no or ofp.port_no != no or str(po.hwAddr) != hw_of(sw.dpid, no) or not po.exists
            or po.name != port_name(sw.dpid, no)):
          st = -1
        ports.append(dict(p=no, st=st))
        for x in po.entities:
          adj.append(dict(p=no, d=getattr(x, "dpid", -1), g=self.tag(x), live=T.getEntityByID(x.id) is x))
          if x not in po or sw.findPortForEntity(x) is None:
            adj.append(dict(p=no, d=-1, g=0, live=False))
      sws.append(dict(d=sw.dpid, gen=self.tag(sw), conn=ci, armed=any(o is sw for o, _ in timers),
                      ports=ports, adj=adj))
    links = [dict(a=l.dpid1, p=l.port1, b=l.dpid2, q=l.port2) for l in self.env.discovery.adjacency]
    ztimers = sorted(set(o.dpid for o, _ in timers if T.getEntityByID(o.id) is not o))
    return dict(ents=ents, sws=sws, links=links, ztimers=ztimers)

  def _obs(self):
    self.leaving = []
    exc = sorted(set(self.exc + self.env.take_exc()))
    o = dict(log=self.log, told=self.told, exc=exc, st=self.state())
    self.log, self.told, self.exc = [], [], []
    return cs(o)

  def _call(self, fn, *a, **kw):
    try:
      return fn(*a, **kw)
    except Exception as e:      # an exception that reaches the caller is an observation
      self.exc.append(type(e).__name__)

  # -- actions
  def step(self, a, args):
    env = self.env
    if a == "AddObj":
      self._call(env.quiet, self.T.addEntity, self.objs[args["o"]])
    elif a == "RemoveObj":
      self._call(env.quiet, self.T.removeEntity, self.objs[args["o"]])
    elif a == "Listen":
      k, how = args["k"], args["how"]
      h = lambda e, k=k: self.told_(k, e)
      if how == "cls":
        self._call(self.T.addListener, topomod.SwitchJoin, h)
      elif how == "cls0":
        self._call(self.T.addListener, topomod.SwitchJoin, h, priority=0)
      elif how == "name0":
        self._call(self.T.addListenerByName, "SwitchJoin", h, priority=0)
      elif how == "auto":
        s = LateSink(self, k)
        self.keep.append(s)
        self._call(self.T.addListeners, s)
      else:
        raise ValueError(how)
    elif a == "Connect":
      ports = dict((i + 1, st) for i, st in enumerate(args["ports"]) if st != NOPORT)
      p = Peer(env, args["s"])
      self.peers.append(p)
      c = len(self.peers)
      env.quiet(p.handshake, ports)
      p.written()
      for name in CON_EVENTS:
        p.con.addListenerByName(name, lambda e, c=c, name=name: self.con_event(c, name, e))
    elif a == "Down":
      self.peers[args["c"] - 1].eof()
    elif a == "Expire":
      mine = [t for o, t in env.reconnect_timers() if o.dpid == args["s"]]
      if len(mine) != 1:
        self.exc.append("TIMERS:%d" % len(mine))
      for t in mine:
        self._call(env.fire, t)
    elif a == "PortStatus":
      p = self.peers[args["c"] - 1]
      p.feed(rb.port_status(REASON[args["r"]], phy(p.dpid, args["p"], args["st"])))
    elif a == "ConEvent":
      p = self.peers[args["c"] - 1]
      kind = args["kind"]
      self.halt = bool(args.get("halt"))
      if kind == "PacketIn":
        p.feed(rb.packet_in(rb.NO_BUFFER, len(DATA_FRAME), 1, 0, DATA_FRAME))
      elif kind == "BarrierIn":
        self.nbar += 1
        p.feed(rb.barrier_reply(xid=0x66660000 + self.nbar))
      elif kind == "FlowRemoved":
        p.feed(rb.flow_removed(rb.match(), 0x19, 7, 2, 1, 0, 0, 0, 0))
      else:
        raise ValueError(kind)
      self.halt = False
    elif a == "Probe":
      p = self.peers[args["c"] - 1]
      fr = lldp_frame(args["a"], args["p"])
      p.feed(rb.packet_in(rb.NO_BUFFER, len(fr), args["q"], 0, fr))
    elif a == "LinkTimeout":
      self._call(env.link_timeout)
    else:
      raise ValueError(a)
    for p in self.peers:
      if p.con.disconnected and not p.sock.shut:
        self.exc.append("CONTROLLER-CLOSED:%d" % (self.peers.index(p) + 1))
        p.sock.shut = True
    return self._obs()

  def signature(self, st, obs):
    sig = {"action": st["a"]}
    exp = st["exp"]
    if isinstance(obs, dict) and "EXC" in obs:
      sig["observed"] = "exception:" + obs["EXC"]
      return sig
    for k in ("how", "r", "kind"):
      if k in (st.get("args") or {}):
        sig[k] = st["args"][k]
    diff = sorted(k for k in exp if not isinstance(obs, dict) or canon(obs.get(k)) != canon(exp[k]))
    if "st" in diff and isinstance(obs, dict) and isinstance(obs.get("st"), dict):
      diff.remove("st")
      diff += sorted("st." + k for k in exp["st"] if canon(obs["st"].get(k)) != canon(exp["st"][k]))
    sig["fields"] = diff
    return sig
