"""Transition tours over an abstract state graph exported by TLC.

The edge-cover export of FlowTable.tla (ACTION_CONSTRAINT ExportT with VIEW =
tbl) prints, for every transition s -a-> t of the state graph, the behaviour
"shortest history reaching s, then a".  Replaying each of them separately
re-executes the shared prefixes again and again.  Because the observation
logged by every step contains the complete projection of the abstract state
(exp.tbl), the graph can be rebuilt from the export and covered by far fewer,
longer behaviours: walks that start in the initial state and keep taking
transitions not taken before (classic transition-tour test generation).

Every walk is a behaviour of the spec (a path of its state graph from Init);
the expectation of a step depends only on the state it is taken in, so the
exported `exp` of each transition is valid wherever the walk takes it.  This
holds for deterministic configurations only (AllowTies = FALSE).
"""
from collections import deque

from engine import core


def _key(tbl):
  return core.canon(tbl)


def build(behs):
  """-> (graph, paths): graph[s] = [[step, target, covered]], paths[s] = shortest history."""
  init = _key([])
  graph = {init: []}
  paths = {init: []}
  for b in behs:
    src = _key(b[-2]["exp"]["tbl"]) if len(b) > 1 else init
    st = b[-1]
    graph.setdefault(src, []).append([st, _key(st["exp"]["tbl"]), False])
    if src not in paths or len(paths[src]) > len(b) - 1:
      paths[src] = b[:-1]
  for s, edges in graph.items():
    for e in edges:
      graph.setdefault(e[1], graph.get(e[1], []))
  return graph, paths


def tours(behs, maxlen=80, reach=3):
  """Cover every exported transition once with walks of at most ~maxlen steps."""
  graph, paths = build(behs)
  for s in graph:
    if s not in paths:
      raise core.Machinery("transition export has a state without a history")
  # self-loops first: they keep the walk in a state whose other transitions are still open
  for s, edges in graph.items():
    edges.sort(key=lambda e: 0 if e[1] == s else 1)
  todo = {s: sum(1 for e in edges if not e[2]) for s, edges in graph.items()}
  order = sorted((s for s in graph if todo[s]), key=lambda s: len(paths[s]))
  out = []
  covered = 0
  total = sum(todo.values())
  oi = 0
  while covered < total:
    while not todo[order[oi]]:
      oi += 1
    cur = order[oi]
    walk = list(paths[cur])
    while len(walk) < maxlen:
      if todo[cur]:
        e = next(x for x in graph[cur] if not x[2])
        e[2] = True
        todo[cur] -= 1
        covered += 1
        walk.append(e[0])
        cur = e[1]
        continue
      hop = _nearest(graph, todo, cur, reach)
      if hop is None:
        break
      for e in hop:
        walk.append(e[0])
        cur = e[1]
    out.append(walk)
  return out


def _nearest(graph, todo, start, reach):
  """Shortest chain of (already covered) transitions to a state with open ones."""
  seen = {start}
  q = deque([(start, [])])
  while q:
    s, chain = q.popleft()
    if len(chain) >= reach:
      continue
    for e in graph[s]:
      t = e[1]
      if t in seen:
        continue
      seen.add(t)
      c2 = chain + [e]
      if todo[t]:
        return c2
      q.append((t, c2))
  return None
