"""C09 adapter: Handshake.tla actions -> real of_01 loop, Connection, nexus.

Every Rx* action is OpenFlow bytes (harness/rawbytes.py) queued on a scripted
socket and read by POX's own accept/read/close loop (harness/c09_env.py).
The observation after each step is what the property talks about:
  ev   - ConnectionUp / ConnectionDown / PortStatus events, as seen by
         listeners on core.openflow AND by listeners on the Connection objects
         (both streams must be the same sequence)
  reg  - core.openflow.connections (public API), as [dpid symbol, connection]
  gone - connections whose socket the controller has shut down or closed
         each event record also carries what its handler saw at that instant:
         r = core.openflow.getConnection(event.dpid), t = the socket that
         received a sendToDPID(event.dpid, ...) issued from inside the handler
  to   - which socket received the bytes handed to sendToDPID (SendTo only)
  ok   - result of sendToDPID
Values chosen by the code (barrier xid) are read from the bytes it wrote.
"""
import signal
import struct

from engine.core import Machinery
from harness import rawbytes as rb
from harness.c09_env import Env, core, ofmod, of_01

# concrete values behind the spec's symbols: boundary dpids / port numbers
DPID_MAPS = [
    {1: 0x0000000000000001, 2: 0x0000000000000002},
    {1: 0x0000000000000000, 2: 0xffffffffffffffff},        # 0 and all-ones
    {1: 0x8000000000000000, 2: 0x0000ffffffffffff},
    {1: 0x00000000ffffffff, 2: 0x0000000100000000},
]
PORT_MAPS = [
    {1: 1, 2: 2},
    {1: 0xfffe, 2: 0xff00},                                 # OFPP_LOCAL, OFPP_MAX
    {1: 0, 2: 65535},
]

BAD_REQUEST, BAD_TYPE = 1, 1
def _is_echo_reply(data):
  return len(data) >= 2 and data[1] == rb.ECHO_REPLY


RX_ACTIONS = ("RxNoise", "RxFeatures", "RxBarrier", "RxErr", "RxPortStatus",
              "RxBarrierReject", "RxEchoFail", "RxEchoFailThen")

# Divergence guard: one step is a few hundred microseconds of POX code; a step
# that has burnt STEP_LIMIT_S seconds of this process's own CPU time (virtual
# timer: independent of machine load, so the verdict stays deterministic; the
# scripted sockets never block) is an endless loop in
# the code under test and becomes the observation DIVERGED (which no spec
# action produces).  The timer keeps firing so the exception also gets past
# POX's bare `except:` clauses.  (A step normally needs < 1 ms of CPU, so the
# limit is thousands of times the need even on a heavily loaded machine.)
STEP_LIMIT_S = 5.0
STEP_LIMIT_AFTER_DIVERGENCE_S = 0.5   # once this process has seen one


class Diverged(BaseException):
  pass


_fired = [False]
_ever = [False]


def _on_alarm(signum, frame):
  _fired[0] = True
  _ever[0] = True
  raise Diverged()


class Adapter(object):
  def __init__(self, variant=0):
    self.variant = variant
    self.dmap = DPID_MAPS[variant % len(DPID_MAPS)]
    self.pmap = PORT_MAPS[variant % len(PORT_MAPS)]
    self.dinv = {v: k for k, v in self.dmap.items()}
    self.pinv = {v: k for k, v in self.pmap.items()}
    self.env = Env()
    self.nexus = self.env.nexus
    self.cons = {}           # cid -> Connection object
    self.barrier = {}        # cid -> xid of the barrier request the code sent
    self.n = 0               # step counter (deterministic variation)
    self.nev = []            # events seen on the nexus in this step
    self.cev = []            # events seen on Connection objects in this step
    self.prev_reg = []
    self.last_reg = []
    self.reject = None       # connection whose ConnectionUp listener disconnects it
    self.pending = {}        # cid -> bytes of "more" messages waiting for their read
    self.nprobe = 0
    self.up_order = []       # connections in the order their ConnectionUp was seen
    self.up_dpid = {}
    for cls, k in ((ofmod.ConnectionUp, "Up"), (ofmod.ConnectionDown, "Down"),
                   (ofmod.PortStatus, "PS")):
      self.nexus.addListener(cls, self._listener(self.nev, k, False))

  def close(self):
    self.env.shutdown()

  # -- event capture
  def _cid(self, con):
    return getattr(getattr(con, "sock", None), "cid", -1)

  def _listener(self, sink, k, on_connection):
    def h(event):
      c = self._cid(event.connection)
      if k == "PS":
        x = self.pinv.get(event.port, -1)
      else:
        x = self.dinv.get(event.dpid, -1)
        if event.dpid != event.connection.dpid:
          x = -2
        if k == "Up" and getattr(event.ofp, "datapath_id", None) != event.dpid:
          x = -3
      # what a handler sees at this instant: the registry entry of the event's
      # dpid, and where a send by dpid issued from inside the handler goes
      dpid = event.dpid
      reg = core.openflow.getConnection(dpid)
      r = 0 if reg is None else self._cid(reg)
      self.nprobe += 1
      payload = rb.echo_request(b"C09 in-handler %d" % self.nprobe,
                                xid=0x0c0a0000 + self.nprobe)
      before = dict((cid, len(sk.out)) for cid, sk in self.env.socks.items())
      ok = core.openflow.sendToDPID(dpid, payload)
      hit = [cid for cid, sk in sorted(self.env.socks.items())
             if payload in sk.out[before[cid]:]]
      t = hit[0] if len(hit) == 1 else (0 if not hit else -1)
      if bool(ok) != (r != 0):
        t = -7                      # result disagrees with the registry it just read
      sink.append({"k": k, "c": c, "x": x, "r": r, "t": t})
      if on_connection and k == "Up" and self.reject == c:
        event.connection.disconnect()       # a component rejecting the switch
    return h

  def _attach(self, cid):
    con = self.env.con_of(cid)
    if con is None:
      raise Machinery("accepted connection %d not found in the loop's select list" % cid)
    self.cons[cid] = con
    for cls, k in ((ofmod.ConnectionUp, "Up"), (ofmod.ConnectionDown, "Down"),
                   (ofmod.PortStatus, "PS")):
      con.addListener(cls, self._listener(self.cev, k, True))

  # -- projections
  def _registry(self):
    out = []
    conns = core.openflow.connections
    for dpid in list(conns.dpids):
      con = conns[dpid]
      c = self._cid(con)
      if core.openflow.getConnection(dpid) is not con:
        c = -4
      out.append([self.dinv.get(dpid, 0), c])
    return sorted(out)

  def _gone(self):
    return sorted(c for c, s in self.env.socks.items() if s.shut or s.closed)

  def _drain(self):
    """Decode what the controller wrote; remember barrier xids."""
    wrote = {}
    for c in self.env.socks:
      data = self.env.written(c)
      if not data:
        continue
      wrote[c] = data
      for m in rb.parse_stream(data):
        if m["type"] == rb.BARRIER_REQUEST:
          self.barrier[c] = m["xid"]
    return wrote

  def _other_xid(self, c):
    x = self.barrier.get(c)
    cands = [0, 1, 0x7fffffff, 0x80000000, 0xffffffff]
    if x is not None:
      cands += [(x + 1) & 0xffffffff, (x - 1) & 0xffffffff, x ^ 0x80000000]
    cands = [v for v in cands if v != x]
    return cands[self.n % len(cands)]

  def _ports(self):
    return [rb.phy_port(no, "02:00:00:00:%02x:%02x" % (no >> 8, no & 255),
                        "p%d" % no) for no in sorted(self.pmap.values())]

  def _rx(self, c, data):
    """Hand a message to connection c according to the step's segmentation:
    "more"  - held back: it will share ONE read with the following message(s);
    "own"   - delivered now, in one read together with everything held back;
    "split" - as "own", but that read ends inside this message and a second
              read brings the rest."""
    seg = self.seg
    if seg == "more":
      self.pending[c] = self.pending.get(c, b"") + data
      self.buffered = True
      return None
    chunk = self.pending.pop(c, b"") + data
    if seg == "split":
      # cut inside the last message: in its header, right after it, or mid-body
      k = [3, 8, len(data) // 2, len(data) - 1][self.n % 4]
      k = max(1, min(len(data) - 1, k))
      cut = len(chunk) - len(data) + k
      parts = [chunk[:cut], chunk[cut:]]
    else:
      parts = [chunk]
    for part in parts:
      if not self.env.deliver(c, part):
        return {"unserved": c}
    return None

  # -- the actions
  def step(self, a, args):
    try:
      old = signal.signal(signal.SIGVTALRM, _on_alarm)
    except ValueError:              # not in the main thread: no guard
      return self._step(a, args)
    _fired[0] = False
    try:
      signal.setitimer(signal.ITIMER_VIRTUAL,
                       STEP_LIMIT_AFTER_DIVERGENCE_S if _ever[0] else STEP_LIMIT_S, 0.02)
      try:
        obs = self._step(a, args)
      finally:
        signal.setitimer(signal.ITIMER_VIRTUAL, 0)
    except Diverged:
      signal.setitimer(signal.ITIMER_VIRTUAL, 0)
      return {"DIVERGED": a}
    finally:
      signal.signal(signal.SIGVTALRM, old)
    if _fired[0]:                   # swallowed by a bare `except:` in POX
      return {"DIVERGED": a}
    return obs

  def _step(self, a, args):
    self.n += 1
    del self.nev[:]
    del self.cev[:]
    c, d, p, k = args["c"], args["d"], args["p"], args["k"]
    self.seg = args.get("s", "own")
    self.buffered = False
    if self.seg == "own" and a not in RX_ACTIONS and any(self.pending.values()):
      raise Machinery("step %s while a coalesced read is still open" % a)
    to, ok, err = 0, True, None
    if a == "Accept":
      self.env.accept(c)
      self._attach(c)
    elif a == "RxNoise":
      if k == "hello":
        data = rb.hello(xid=self.n)
      elif k == "desc":
        data = rb.stats_reply(rb.ST_DESC, rb.desc_stats_body(), xid=self.n)
      elif k == "echo":
        data = rb.echo_request(b"ping%d" % self.n, xid=0xffffffff - self.n)
      else:
        fr = rb.pad_to(rb.eth("ff:ff:ff:ff:ff:ff", "00:00:00:00:00:01", 0x0806), 60)
        data = rb.packet_in(rb.NO_BUFFER, len(fr), self.pmap[1], 0, fr, xid=0)
      err = self._rx(c, data)
    elif a == "RxFeatures":
      err = self._rx(c, rb.features_reply(self.dmap[d], ports=self._ports(),
                                          n_buffers=256, xid=self.n))
    elif a == "RxBarrier":
      if k == "match":
        if c not in self.barrier:
          err = {"no_barrier_request_sent": c}
        else:
          err = self._rx(c, rb.barrier_reply(self.barrier[c]))
      else:
        err = self._rx(c, rb.barrier_reply(self._other_xid(c)))
    elif a == "RxBarrierReject":
      if c not in self.barrier:
        err = {"no_barrier_request_sent": c}
      else:
        self.reject = c
        try:
          err = self._rx(c, rb.barrier_reply(self.barrier[c]))
        finally:
          self.reject = None
    elif a == "RxErr":
      if k != "xid" and c not in self.barrier:
        err = {"no_barrier_request_sent": c}
      else:
        bx = self.barrier.get(c, 0)
        quoted = rb.barrier_request(bx)
        if k == "unsup":
          data = rb.error(BAD_REQUEST, BAD_TYPE, quoted, xid=bx)
        elif k == "type":
          et = [0, 2, 3, 4, 5][self.n % 5]      # any type but BAD_REQUEST
          data = rb.error(et, BAD_TYPE, quoted, xid=bx)
        elif k == "code":
          ec = [0, 2, 3, 4, 5, 6, 7, 8][self.n % 8]   # any code but BAD_TYPE
          data = rb.error(BAD_REQUEST, ec, quoted, xid=bx)
        else:
          ox = self._other_xid(c)
          data = rb.error(BAD_REQUEST, BAD_TYPE, rb.barrier_request(ox), xid=ox)
        err = self._rx(c, data)
    elif a == "RxPortStatus":
      no = self.pmap[p]
      desc = rb.phy_port(no, "02:00:00:00:%02x:%02x" % (no >> 8, no & 255),
                         "p%d" % no, config=self.n & 1, state=(self.n >> 1) & 1)
      err = self._rx(c, rb.port_status([2, 0, 1][self.n % 3], desc, xid=0))
    elif a == "RxEchoFail":
      self.env.socks[c].fail_send = _is_echo_reply   # from the echo reply on
      err = self._rx(c, rb.echo_request(b"x", xid=self.n))
    elif a == "RxEchoFailThen":
      if c not in self.barrier:
        err = {"no_barrier_request_sent": c}
      else:
        bx = self.barrier[c]
        self.env.socks[c].fail_send = _is_echo_reply   # from the echo reply on
        nxt = rb.barrier_reply(bx) if k == "match" else \
            rb.error(BAD_REQUEST, BAD_TYPE, rb.barrier_request(bx), xid=bx)
        err = self._rx(c, rb.echo_request(b"x", xid=self.n) + nxt)   # ONE read
    elif a == "Disconnect":
      self.cons[c].disconnect()
    elif a == "Close":
      how = ["eof", "reset", "except"][(self.n + c) % 3]
      if not self.env.peer_close(c, how):
        err = {"unserved": c}
    elif a in ("SendTo", "SendToFail"):
      dpid = self.dmap[d]
      self._drain()
      if a == "SendToFail":
        con = core.openflow.getConnection(dpid)
        if con is None:
          err = {"unreachable": d}
        else:
          con.sock.fail_send = True
      if err is None:
        payload = rb.echo_request(b"C09 payload %d" % self.n, xid=0x0c090000 + self.n)
        ok = core.openflow.sendToDPID(dpid, payload)
        wrote = self._drain()
        hit = [cc for cc, data in sorted(wrote.items()) if payload in rb.split(data)]
        to = hit[0] if len(hit) == 1 else (0 if not hit else -1)
        if ok not in (True, False):
          ok = repr(ok)
    else:
      raise ValueError(a)
    self._drain()
    for sk in self.env.socks.values():
      sk.fail_send = False         # the write failure is an event of this step
    if err is not None:
      return err
    if self.buffered:
      # nothing has reached the controller yet: the spec's placeholder
      return {"ev": [], "reg": [], "gone": [], "to": 0, "ok": True}
    ev = list(self.nev)
    if ev != self.cev:
      ev = {"nexus": list(self.nev), "connection": list(self.cev)}
    for e in self.nev:
      if e["k"] == "Up" and e["c"] not in self.up_dpid:
        self.up_dpid[e["c"]] = e["x"]
        self.up_order.append(e["c"])
    self.prev_reg = self.last_reg
    self.last_reg = self._registry()
    return {"ev": ev, "reg": self.last_reg, "gone": self._gone(), "to": to, "ok": ok}

  def implied_registry(self, gone):
    """The registry the OBSERVED events imply: per dpid the connection whose
    ConnectionUp was seen last among those whose socket is not shut down.
    Used only to name a failure, never to decide one."""
    return implied_registry(self.up_order, self.up_dpid, gone)

  # -- classification of a failure (for findings)
  def signature(self, st, obs):
    sig = {"action": st["a"], "k": st["args"].get("k", "")}
    exp = st["exp"]
    if not isinstance(obs, dict) or "EXC" in obs or "reg" not in obs:
      if isinstance(obs, dict) and "EXC" in obs:
        sig["observed"] = "exception:" + obs["EXC"]
      elif isinstance(obs, dict):
        sig["observed"] = "unusable:" + ",".join(sorted(obs))
      else:
        sig["observed"] = "unusable"
      return sig
    # The registry is classified against what the observed events themselves
    # imply, not against exp: exp is ONE of the permitted alternatives and
    # which one is being replayed must not change the name of the failure.
    implied = self.implied_registry(obs.get("gone", []))
    if implied != obs["reg"]:
      prev = [list(x) for x in self.prev_reg]
      for e in self.nev:              # registered within this very step
        if e["k"] == "Up":
          prev = [x for x in prev if x[0] != e["x"]] + [[e["x"], e["c"]]]
      sig["registry"] = classify_registry(st["args"].get("c", 0), implied,
                                          obs["reg"], prev)
    else:
      fields = sorted(f for f in exp if obs.get(f) != exp[f])
      sig["fields"] = fields
      if "ev" in fields:
        sig["events"] = classify_events(exp["ev"], obs["ev"])
        if sig["events"] == "arguments":
          sig["in_handler"] = classify_handler_view(obs["ev"])
    return sig


def implied_registry(order, dpid_of, gone):
  reg = {}
  for c in order:
    if c not in gone:
      reg[dpid_of[c]] = c
  return sorted([d, c] for d, c in reg.items())


def classify_registry(actor, exp, obs, prev):
  """Name the way the registry differs from the specified one."""
  e, o, pv = dict(map(tuple, exp)), dict(map(tuple, obs)), dict(map(tuple, prev))
  kinds = set()
  for d in set(e) | set(o):
    if d in e and d not in o:
      if pv.get(d) == e[d] and actor == e[d]:
        # the step concerned the registered connection itself and it vanished
        kinds.add("acting_connection_unregistered")
      elif pv.get(d) == e[d] and actor != e[d]:
        # a live registered connection was removed by a step on another one
        kinds.add("live_connection_unregistered_by_other")
      elif pv.get(d) is not None and pv.get(d) != e[d]:
        # the registered connection went away; an older live one should be reachable
        kinds.add("older_live_connection_not_restored")
      else:
        kinds.add("missing")
    elif d in o and d not in e:
      kinds.add("dead_or_unannounced_connection_registered")
    elif e[d] != o[d]:
      kinds.add("wrong_connection")
  return sorted(kinds)


def classify_handler_view(ev):
  """Which handler saw a registry that contradicts its own event."""
  out = set()
  for e in ev:
    if e["k"] == "Up" and (e["r"] != e["c"] or e["t"] != e["c"]):
      out.add("Up:registry_does_not_lead_to_the_announced_connection")
    if e["k"] == "Down" and (e["r"] == e["c"] or e["t"] == e["c"]):
      out.add("Down:registry_still_leads_to_the_lost_connection")
    if e["r"] != e["t"]:
      out.add(e["k"] + ":send_by_dpid_disagrees_with_registry")
  return sorted(out) or ["other"]


def classify_events(exp, obs):
  if isinstance(obs, dict):
    return "nexus_and_connection_streams_differ"
  ke, ko = [x["k"] for x in exp], [x["k"] for x in obs]
  for k in ("Up", "Down", "PS"):
    if ke.count(k) != ko.count(k):
      return "%s:%d_expected_%d" % (k, ko.count(k), ke.count(k))
  if ke != ko:
    return "order"
  return "arguments"


def classify_trace(trace, i):
  """Signature of a trace TLC rejected at event i (code -> spec direction).

  TLC only says "no behaviour of the spec yields this observation"; to tell a
  known registry defect from anything else the registry the recorded events
  themselves imply (connections seen coming up, not yet gone, latest first) is
  compared with the recorded one."""
  ev = trace[i]
  sig = {"action": ev["a"], "k": ev["args"]["k"], "via": "trace"}
  if not ev["wf"]:
    sig["observed"] = "unusable"
    return sig
  order = []
  dp = {}
  for e in trace[:i + 1]:
    for x in e["obs"]["ev"]:
      if x["k"] == "Up" and x["c"] not in dp:
        dp[x["c"]] = x["x"]
        order.append(x["c"])
  implied = implied_registry(order, dp, set(ev["obs"]["gone"]))
  prev = [list(x) for x in (trace[i - 1]["obs"]["reg"] if i > 0 else [])]
  for x in ev["obs"]["ev"]:
    if x["k"] == "Up":
      prev = [y for y in prev if y[0] != x["x"]] + [[x["x"], x["c"]]]
  if implied != sorted(ev["obs"]["reg"]):
    sig["registry"] = classify_registry(ev["args"]["c"], implied, ev["obs"]["reg"], prev)
  else:
    sig["fields"] = ["not-registry"]
  return sig
