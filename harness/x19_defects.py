"""X19: the failing histories behind the named deviations of specs/topoent/TopoEnt.tla, for notes/X19.md.

  cd /verif && /venv/bin/python -m harness.x19_defects

Each history is performed on the real code (VERIF_REPO, default /repo) through the X19 adapter, recorded as a
trace and given to TLC twice: with Trace.cfg (Dev = AllDev, the code as built - must ACCEPT) and with
Trace_strict.cfg (Dev = {}, the intended design - must REJECT, at the step printed).  Not part of run(ctx).
"""
import json
import os
import sys

VERIF = os.path.dirname(os.path.dirname(os.path.abspath(__file__)))
if VERIF not in sys.path:
  sys.path.insert(0, VERIF)

P1 = [0, 9]          # features reply: port 1 (state 0), no port 2

HISTORIES = [
    ("RejoinRefused", [("Connect", dict(s=1, ports=P1)), ("Down", dict(c=1)), ("Expire", dict(s=1)),
                       ("Connect", dict(s=1, ports=P1))]),
    ("StaleDown", [("Connect", dict(s=1, ports=P1)), ("Connect", dict(s=1, ports=P1)), ("Down", dict(c=1)),
                   ("ConEvent", dict(c=2, kind="PacketIn", halt=False))]),
    ("ModUnknown", [("Connect", dict(s=1, ports=P1)), ("PortStatus", dict(c=1, r="mod", p=2, st=1))]),
    ("AddKnown", [("Connect", dict(s=1, ports=P1)), ("PortStatus", dict(c=1, r="add", p=1, st=1))]),
    ("FlowRemAbort", [("Connect", dict(s=1, ports=P1)), ("ConEvent", dict(c=1, kind="FlowRemoved", halt=False))]),
    ("ByNameNoPromise", [("AddObj", dict(o="gs")), ("Listen", dict(k=1, how="name0"))]),
    ("ListenCrash", [("AddObj", dict(o="gs")), ("Listen", dict(k=1, how="cls")), ("Listen", dict(k=2, how="auto")),
                     ("AddObj", dict(o="gs2"))]),
    ("LinkRemoveIgnored", [("Connect", dict(s=1, ports=P1)), ("Connect", dict(s=2, ports=P1)),
                           ("Probe", dict(a=1, p=1, c=2, q=1)), ("PortStatus", dict(c=1, r="del", p=1, st=0)),
                           ("Down", dict(c=1)), ("Expire", dict(s=1))]),
]


def main():
  from engine import tracecheck
  from props.X19 import drive_events
  traces = [drive_events(h) for _, h in HISTORIES]
  _, rej_a = tracecheck.validate("topoent", "TraceTopoEnt", "Trace.cfg", traces, tag="X19")
  _, rej_s = tracecheck.validate("topoent", "TraceTopoEnt", "Trace_strict.cfg", traces, tag="X19")
  rej_a, rej_s = dict(rej_a), dict(rej_s)
  ok = True
  for i, (name, h) in enumerate(HISTORIES):
    last = traces[i][-1]["obs"]
    print("%-18s as built: %-8s intended: %s" % (
        name, "ACCEPTED" if i not in rej_a else "REJECTED@%d" % (rej_a[i] + 1),
        "accepted (!)" if i not in rej_s else "rejected at event %d = %s%s" % (
            rej_s[i] + 1, h[rej_s[i]][0], json.dumps(h[rej_s[i]][1], sort_keys=True))))
    at = traces[i][rej_s[i]]["obs"] if i in rej_s else last
    print("    observed there: log=%s told=%s exc=%s" % (
        json.dumps([[e["src"], e["ev"], e["id"], e["n"], e["c"]] for e in at["log"]]), json.dumps(at["told"]),
        json.dumps(at["exc"])))
    print("    state after the history: %s" % json.dumps(last["st"], sort_keys=True))
    ok = ok and i not in rej_a and i in rej_s
  print("all histories accepted as built and rejected by the intended design" if ok else "UNEXPECTED RESULT")
  return 0 if ok else 1


if __name__ == "__main__":
  sys.exit(main())
