"""C01: Nicira part of the adapter (pox.openflow.nicira objects <-> abstract values of NXWire.tla).

Construction uses the constructors / attributes nicira.py documents (NXM entry classes as
register operands, flow_mod_spec / nx_learn_* objects for learn specs, nx_match.append);
projection reads the same public attributes back.
"""
import pox.openflow.nicira as nx
from pox.openflow import of_01
from pox.lib.addresses import EthAddr, IPAddr, IPAddr6

MSG = {"nx_role_request": lambda: nx.nx_role_request(), "nx_role_reply": lambda: nx.nx_role_reply(),
       "nx_packet_in_format": lambda: nx.nx_packet_in_format(),
       "nx_flow_mod_table_id": lambda: nx.nx_flow_mod_table_id(), "nx_async_config": lambda: nx.nx_async_config(),
       "nx_flow_mod": lambda: nx.nx_flow_mod(), "nxt_packet_in": lambda: nx.nxt_packet_in(),
       "nx_ofp_flow_mod_table_id": lambda: nx.ofp_flow_mod_table_id()}
ACT = {"nxa_resubmit": lambda: nx.nx_action_resubmit(subtype=nx.NXAST_RESUBMIT),
       "nxa_resubmit_table": lambda: nx.nx_action_resubmit(subtype=nx.NXAST_RESUBMIT_TABLE),
       "nxa_set_tunnel": lambda: nx.nx_action_set_tunnel(), "nxa_set_tunnel64": lambda: nx.nx_action_set_tunnel64(),
       "nxa_reg_move": lambda: nx.nx_reg_move(), "nxa_reg_load": lambda: nx.nx_reg_load(),
       "nxa_output_reg": lambda: nx.nx_output_reg(), "nxa_controller": lambda: nx.nx_action_controller(),
       "nxa_fin_timeout": lambda: nx.nx_action_fin_timeout(), "nxa_exit": lambda: nx.nx_action_exit(),
       "nxa_dec_ttl": lambda: nx.nx_action_dec_ttl(), "nxa_push_mpls": lambda: nx.nx_action_push_mpls(),
       "nxa_pop_mpls": lambda: nx.nx_action_pop_mpls(), "nxa_mpls_label": lambda: nx.nx_action_mpls_label(),
       "nxa_mpls_tc": lambda: nx.nx_action_mpls_tc(), "nxa_learn": lambda: nx.nx_action_learn(),
       "nxa_bundle": lambda: nx.nx_action_bundle(), "nxa_bundle_load": lambda: nx.nx_action_bundle(load=True)}
CLASS_KIND = [(nx.nx_role_reply, "nx_role_reply"), (nx.nx_role_request, "nx_role_request"),
              (nx.nx_packet_in_format, "nx_packet_in_format"), (nx.nx_flow_mod_table_id, "nx_flow_mod_table_id"),
              (nx.nx_async_config, "nx_async_config"), (nx.nx_flow_mod, "nx_flow_mod"),
              (nx.nxt_packet_in, "nxt_packet_in"), (nx.nx_match, "nxmatch"),
              (nx.ofp_flow_mod_table_id, "nx_ofp_flow_mod_table_id"),
              (nx.nx_action_set_tunnel, "nxa_set_tunnel"), (nx.nx_action_set_tunnel64, "nxa_set_tunnel64"),
              (nx.nx_reg_move, "nxa_reg_move"), (nx.nx_reg_load, "nxa_reg_load"), (nx.nx_output_reg, "nxa_output_reg"),
              (nx.nx_action_controller, "nxa_controller"), (nx.nx_action_fin_timeout, "nxa_fin_timeout"),
              (nx.nx_action_exit, "nxa_exit"), (nx.nx_action_dec_ttl, "nxa_dec_ttl"),
              (nx.nx_action_push_mpls, "nxa_push_mpls"), (nx.nx_action_pop_mpls, "nxa_pop_mpls"),
              (nx.nx_action_mpls_label, "nxa_mpls_label"), (nx.nx_action_mpls_tc, "nxa_mpls_tc"),
              (nx.nx_action_learn, "nxa_learn")]
# fields that are NXM headers (the library wants the entry class)
HEADER_FIELDS = {"nxa_reg_move": ("src", "dst"), "nxa_reg_load": ("dst",), "nxa_output_reg": ("reg",),
                 "nxa_bundle": ("slave_type",), "nxa_bundle_load": ("slave_type", "dst")}
OFS_NBITS = ("nxa_reg_load", "nxa_output_reg", "nxa_bundle_load")


def _int(b):
  return int.from_bytes(bytes(b), "big")


def _bad(what):
  return {"BAD": what}


class NX(object):
  def __init__(self, codec):
    self.c = codec

  def handles(self, k):
    return k.startswith("nx") or k in ("nxm", "fms")

  def kind_of(self, obj):
    if isinstance(obj, nx.nxm_entry):
      return "nxm"
    if isinstance(obj, nx.flow_mod_spec):
      return "fms"
    if type(obj) is nx.nx_action_resubmit:
      return {nx.NXAST_RESUBMIT: "nxa_resubmit", nx.NXAST_RESUBMIT_TABLE: "nxa_resubmit_table"}.get(
          obj.subtype, "?resubmit-subtype-%r" % (obj.subtype,))
    if type(obj) is nx.nx_action_bundle:
      return {nx.NXAST_BUNDLE: "nxa_bundle", nx.NXAST_BUNDLE_LOAD: "nxa_bundle_load"}.get(
          obj.subtype, "?bundle-subtype-%r" % (obj.subtype,))
    for cls, k in CLASS_KIND:
      if type(obj) is cls:
        return k
    return None

  # ---- NXM entries
  def entry_class(self, vendor, field):
    t = (vendor << 7) | field
    cls = nx._nxm_type_to_class.get(t)
    if cls is None:
      from harness.adapters_c01 import Unbuildable
      raise Unbuildable("no NXM class for %x/%d" % (vendor, field))
    return cls

  def header_class(self, h):
    h = bytes(h)
    return self.entry_class(_int(h[0:2]), h[2] >> 1)

  def header_bytes(self, cls, k, n):
    """header (without mask) of an entry class, from its public vendor / field / width"""
    try:
      e = cls()
      return [e.nxm_vendor >> 8, e.nxm_vendor & 0xff, e.nxm_field << 1, cls._nxm_length]
    except Exception as ex:
      return _bad("%s.%s=%r (%s)" % (k, n, cls, type(ex).__name__))

  def typed(self, cls, b):
    b = bytes(b)
    if issubclass(cls, nx._nxm_ip):
      return IPAddr(b)
    if issubclass(cls, nx._nxm_ipv6):
      return IPAddr6(b, raw=True)
    if issubclass(cls, nx._nxm_ether):
      return EthAddr(b)
    if issubclass(cls, nx._nxm_numeric):
      return _int(b)
    return b

  def untyped(self, e, v, what):
    w = e._nxm_length
    if isinstance(v, (IPAddr, EthAddr)):
      return list(v.toRaw())
    if isinstance(v, IPAddr6):
      return list(v.raw)
    if isinstance(v, bool):
      return _bad("%s=%r" % (what, v))
    if isinstance(v, int):
      if v < 0 or v >= 1 << (8 * w):
        return _bad("%s=%r" % (what, v))
      return list(v.to_bytes(w, "big"))
    if isinstance(v, (bytes, bytearray)):
      return list(v)
    return _bad("%s=%r" % (what, v))

  def build_entry(self, f):
    cls = self.entry_class(_int(f["vendor"]), f["field"][0])
    mask = self.typed(cls, f["mask"]) if f["mask"] else None
    return cls(self.typed(cls, f["value"]), mask)

  def project_entry(self, e):
    f = {"vendor": [e.nxm_vendor >> 8, e.nxm_vendor & 0xff], "field": [e.nxm_field],
         "value": self.untyped(e, e.value, "value"),
         "mask": [] if e.mask is None else self.untyped(e, e.mask, "mask")}
    return {"k": "nxm", "f": f}

  # ---- learn specs
  def build_fms(self, f):
    nb = _int(f["n_bits"])
    sv, dv = bytes(f["srcv"]), bytes(f["dstv"])
    if f["src"][0] == 0:
      src = nx.nx_learn_src_field(self.header_class(sv[:4]), _int(sv[4:6]), nb)
    else:
      src = nx.nx_learn_src_immediate(sv, nb)
    d = f["dst"][0]
    if d == 0:
      dst = nx.nx_learn_dst_match(self.header_class(dv[:4]), _int(dv[4:6]), nb)
    elif d == 1:
      dst = nx.nx_learn_dst_load(self.header_class(dv[:4]), _int(dv[4:6]), nb)
    else:
      dst = nx.nx_learn_dst_output()
    return nx.flow_mod_spec(src, dst, nb)

  def project_fms(self, s):
    def data(x):
      d = x.data
      return list(d) if isinstance(d, (bytes, bytearray)) else ([] if d is None else _bad(repr(d)))
    return {"k": "fms", "f": {"src": [s.src.value], "dst": [s.dst.value],
                              "n_bits": list(int(s.n_bits).to_bytes(2, "big")),
                              "srcv": data(s.src), "dstv": data(s.dst)}}

  # ---- build
  def build(self, k, f):
    c = self.c
    if k == "nxm":
      return self.build_entry(f)
    if k == "fms":
      return self.build_fms(f)
    if k == "nxmatch":
      m = nx.nx_match()
      for e in f["match"]:
        m.append(c.build(e))
      return m
    obj = self.new_object(k)
    for d in c.descs(k):
      self.set_field(k, obj, d, f[d["n"]])
    return obj

  def new_object(self, k):
    if k in MSG:
      return MSG[k]()
    if k in ACT:
      return ACT[k]()
    from harness.adapters_c01 import Unbuildable
    raise Unbuildable(k)

  def set_field(self, k, obj, d, v):
    c = self.c
    n = d["n"]
    if n in HEADER_FIELDS.get(k, ()):
      if k == "nxa_bundle" and n == "dst":
        return
      setattr(obj, n, self.header_class(v))
    elif k == "nxa_bundle" and n in ("dst", "ofs_nbits"):
      pass                                   # plain bundle: no destination (dst None, nbits None)
    elif n == "ofs_nbits" and k in OFS_NBITS:
      x = _int(v)
      obj.offset = x >> 6
      obj.nbits = (x & 0x3f) + 1
    elif k in ("nx_flow_mod", "nx_ofp_flow_mod_table_id") and n == "command":
      x = _int(v)
      obj.command = x & 0xff
      obj.table_id = x >> 8
    elif k == "nx_flow_mod" and n == "match":
      m = nx.nx_match()
      for e in v:
        m.append(c.build(e))
      obj.match = m
    elif k == "nxt_packet_in" and n == "match":
      m = nx.nx_match()
      for e in v:
        m.append(c.build(e))
      obj.match = m
    elif k == "nx_flow_mod_table_id" and n == "enable":
      obj.enable = bool(v[0])
    elif k == "nxa_learn" and n == "spec":
      del obj.spec[:]
      for s in v:
        obj.spec.append(c.build(s))
    elif k in ("nxa_bundle", "nxa_bundle_load") and n == "slaves":
      # (entries of slave_type, the form the library's decoder yields; plain port numbers are accepted by
      #  pack() too but compare unequal to decoded entries - not claimed, see notes/C01.md)
      obj.slaves = [obj.slave_type(_int(s["f"]["v"])) for s in v]
    else:
      setattr(obj, n, c.to_attr(k, d, v))

  # ---- project
  def project(self, k, obj):
    c = self.c
    if k == "nxm":
      return self.project_entry(obj)
    if k == "fms":
      return self.project_fms(obj)
    if k == "nxmatch":
      return {"k": k, "f": {"match": [c._project(e) for e in obj]}}
    f = {}
    for d in c.descs(k):
      f[d["n"]] = self.get_field(k, obj, d)
    if c.consts:
      bad = []
      if k == "nx_ofp_flow_mod_table_id":
        if obj.version != 1 or obj.header_type != 14:
          bad.append("version/type=%r/%r" % (obj.version, obj.header_type))
      else:
        if k in MSG:
          if obj.version != 1 or obj.header_type != 4 or obj.vendor != nx.NX_VENDOR_ID:
            bad.append("version/type/vendor=%r/%r/%r" % (obj.version, obj.header_type, obj.vendor))
        elif obj.type != 0xffff or obj.vendor != nx.NX_VENDOR_ID:
          bad.append("type/vendor=%r/%r" % (obj.type, obj.vendor))
        want = _int(c.layout[k][5 if k in MSG else 3]["c"])
        if obj.subtype != want:
          bad.append("subtype=%r" % (obj.subtype,))
      if bad:
        f["BAD_CONST"] = bad
    return {"k": k, "f": f or []}

  def get_field(self, k, obj, d):
    c = self.c
    n = d["n"]
    if n in HEADER_FIELDS.get(k, ()):
      cls = getattr(obj, n)
      if cls is None:
        return _bad("%s.%s unset" % (k, n))
      return self.header_bytes(cls, k, n)
    if k == "nxa_bundle" and n == "dst":
      return [0, 0, 0, 0] if obj.dst is None else _bad("dst=%r" % (obj.dst,))
    if k == "nxa_bundle" and n == "ofs_nbits":
      return [0, 0] if obj.nbits is None and obj.offset == 0 else _bad("nbits/offset=%r/%r" % (obj.nbits, obj.offset))
    if n == "ofs_nbits" and k in OFS_NBITS:
      if not isinstance(obj.nbits, int) or not isinstance(obj.offset, int) or not 1 <= obj.nbits <= 64 \
         or not 0 <= obj.offset < 1024:
        return _bad("nbits/offset=%r/%r" % (obj.nbits, obj.offset))
      return list(((obj.offset << 6) | (obj.nbits - 1)).to_bytes(2, "big"))
    if k in ("nx_flow_mod", "nx_ofp_flow_mod_table_id") and n == "command":
      x = (obj.table_id << 8) | obj.command
      return list(x.to_bytes(2, "big")) if 0 <= x < 65536 else _bad("command/table_id=%r/%r" % (obj.command, obj.table_id))
    if n == "match" and k in ("nx_flow_mod", "nxt_packet_in"):
      return [c._project(e) for e in obj.match]
    if k == "nx_flow_mod_table_id" and n == "enable":
      return [1 if obj.enable else 0] if isinstance(obj.enable, bool) else _bad("enable=%r" % (obj.enable,))
    if k == "nxa_learn" and n == "spec":
      return [c._project(s) for s in obj.spec]
    if k in ("nxa_bundle", "nxa_bundle_load") and n == "slaves":
      out = []
      for s in obj.slaves:
        v = s.value if isinstance(s, nx.nxm_entry) else s
        out.append({"k": "u16", "f": {"v": list(int(v).to_bytes(2, "big"))}})
      return out
    return c.from_attr(k, d, getattr(obj, n))

  # ---- modify in place
  def modify(self, k, obj, n, i, op, v):
    c = self.c
    if op == "append":
      if k == "nxmatch":
        obj.append(c.build(v))
      elif n == "match":
        obj.match.append(c.build(v))
      elif n == "spec":
        obj.spec.append(c.build(v))
      else:
        getattr(obj, n).append(c.build(v))
      return
    if i > 0:
      getattr(obj, n)[i - 1] = c.build(v)
      return
    self.set_field(k, obj, c.desc(k, n), v)

  # ---- decode through the entry points nicira.py offers
  def decode(self, k, obj, buf, off, n):
    if k in ("nxt_packet_in", "nx_role_reply"):
      # the two messages a controller receives: nicira.launch() hooks them into of_01.unpackers
      return of_01.unpackers[buf[off + 1]](buf, off)
    if k == "nxmatch":
      m = nx.nx_match()
      return m.unpack(buf, off, n), m
    cls = type(obj) if obj is not None else type(self.new_object(k))
    return cls.unpack_new(buf, off)
