"""C12 helpers: frame records <-> bytes, action records -> OpenFlow bytes.

The byte ORACLE of the check is Frames.tla (Enc, evaluated by TLC).  The
encoder below is a second, independent derivation (struct only, no POX code,
no TLA+): the check compares the two on every frame record it uses and stops
with a machinery failure if they disagree, so a slip in either is not turned
into a verdict about the switch.  describe() is only used to classify
mismatches (signatures) and to write readable replay files.
"""
import struct

from harness import rawbytes as rb

MACB = {"ma": "00:00:00:00:00:0a", "mb": "00:00:00:00:00:0b", "mc": "02:ff:fe:80:7f:01",
        "md": "00:22:33:44:55:66", "stp": "01:80:c2:00:00:00", "bc": "ff:ff:ff:ff:ff:ff"}
IPB = {"ia": "10.0.0.1", "ib": "192.168.0.2", "ic": "255.254.128.127", "id": "1.2.3.4"}
PAY = {"p0": b"", "p1": b"\xff", "p7": b"abcdefg", "p8": b"abcdefgh",
       "p9": bytes([255, 254, 0, 1, 128, 127, 255, 255, 255]),
       "p200": bytes((i * 7 + 3) % 256 for i in range(1, 201)),
       # first fragments: transport header of the whole datagram + the first octets of its data
       "pu1": struct.pack("!HHHH", 1000, 2000, 3008, 0xbeef) + bytes(range(48, 64)),
       "pt1": struct.pack("!HHIIBBHHH", 1000, 2000, 0x01020304, 0x05060708, 0x50, 0x10, 1000, 0xabcd, 0)
              + bytes(range(65, 77))}
IPOPT = {"-": b"", "ra": bytes([148, 4, 0, 0]), "nop": bytes([1, 1, 1, 1, 148, 4, 0, 0]),
         "ts": bytes([68, 12, 13, 0, 1, 2, 3, 4, 5, 6, 7, 8]),
         "rr": bytes([7, 39, 4]) + bytes(200 + (i % 50) for i in range(1, 37)) + b"\0"}
TCPOPT = {"-": b"", "mss": bytes([2, 4, 5, 180]), "eol": bytes([2, 4, 5, 180, 1, 0, 0, 0]),
          "big": bytes([2, 4, 5, 180, 4, 2, 8, 10, 0, 1, 2, 3, 255, 254, 253, 252, 1, 3, 3, 7])}
PROTO = {"tcp": 6, "udp": 17, "icmp": 1, "x": 253}
BITS = {"PORT_DOWN": 1, "NO_STP": 2, "NO_RECV": 4, "NO_RECV_STP": 8, "NO_FLOOD": 16,
        "NO_FWD": 32, "NO_PACKET_IN": 64}
MODEL_BITS = ["PORT_DOWN", "NO_RECV", "NO_RECV_STP", "NO_FLOOD", "NO_FWD", "NO_PACKET_IN"]


def _l4(f):
  pl = PAY[f["pl"]]
  if f["frag"] != 0:
    return pl
  src, dst = rb.ip(IPB[f["nsrc"]]), rb.ip(IPB[f["ndst"]])
  if f["proto"] == "tcp":
    op = TCPOPT[f["topt"]]
    t = struct.pack("!HHIIBBHHH", f["tsrc"], f["tdst"], 0x01020304, 0x05060708, (5 + len(op) // 4) << 4, 0x18,
                    1000, 0, 0) + op + pl
    c = rb.csum(src + dst + struct.pack("!BBH", 0, 6, len(t)) + t)
    return t[:16] + struct.pack("!H", c) + t[18:]
  if f["proto"] == "udp":
    t = struct.pack("!HHHH", f["tsrc"], f["tdst"], 8 + len(pl), 0) + pl
    c = rb.csum(src + dst + struct.pack("!BBH", 0, 17, len(t)) + t) or 0xffff     # RFC 768
    if f.get("nocs"):
      c = 0                               # the sender generated no checksum
    return t[:6] + struct.pack("!H", c) + t[8:]
  if f["proto"] == "icmp":
    t = struct.pack("!BBHHH", 8, 0, 0, f.get("eid", 7), 9) + pl
    return t[:2] + struct.pack("!H", rb.csum(t)) + t[4:]
  return pl


def enc(f):
  """bytes of a frame record (independent of Frames.tla)."""
  out = rb.mac(MACB[f["dst"]]) + rb.mac(MACB[f["src"]])
  if f["tag"]:
    out += struct.pack("!HH", 0x8100, (f["pcp"] << 13) | (f["cfi"] << 12) | f["vid"])
  if f["et"] == "ip":
    l4 = _l4(f)
    fragw = {0: 0x4000, 1: 0x2000, 2: 185}[f["frag"]]
    op = IPOPT[f["iopt"]]
    h = struct.pack("!BBHHHBBH4s4s", 0x40 | (5 + len(op) // 4), f["tos"], 20 + len(op) + len(l4), f.get("ipid", 0x1234), fragw, 64,
                    PROTO[f["proto"]], 0, rb.ip(IPB[f["nsrc"]]), rb.ip(IPB[f["ndst"]])) + op
    h = h[:10] + struct.pack("!H", rb.csum(h)) + h[12:]
    out += struct.pack("!H", 0x0800) + h + l4
  elif f["et"] == "arp":
    out += struct.pack("!H", 0x0806) + struct.pack(
        "!HHBBH6s4s6s4s", 1, 0x0800, 6, 4, 1, rb.mac(MACB["mb"]), rb.ip(IPB["ia"]), b"\0" * 6,
        rb.ip(IPB["ib"]))
  elif f["et"] == "bpdu":
    out += struct.pack("!H", 38) + b"\x42\x42\x03" + bytes(range(35))
  else:
    out += struct.pack("!H", 0x88b5) + PAY[f["pl"]]
  return out


def act_bytes(a):
  t, n, m, s = a["t"], a["n"], a["m"], a["s"]
  if t == "output":
    return rb.a_output(n, m)
  if t == "enqueue":
    return rb.a_enqueue(n, m)
  if t == "set_vlan_vid":
    return rb.a_vlan_vid(n)
  if t == "set_vlan_pcp":
    return rb.a_vlan_pcp(n)
  if t == "strip_vlan":
    return rb.a_strip_vlan()
  if t == "set_dl_src":
    return rb.a_dl_src(MACB[s])
  if t == "set_dl_dst":
    return rb.a_dl_dst(MACB[s])
  if t == "set_nw_src":
    return rb.a_nw_src(IPB[s])
  if t == "set_nw_dst":
    return rb.a_nw_dst(IPB[s])
  if t == "set_nw_tos":
    return rb.a_nw_tos(n)
  if t == "set_tp_src":
    return rb.a_tp_src(n)
  if t == "set_tp_dst":
    return rb.a_tp_dst(n)
  raise ValueError(t)


def acts_bytes(acts):
  return b"".join(act_bytes(a) for a in acts)


def describe(b):
  """Rough field view of a frame (diagnostics only, never a verdict)."""
  d = {"len": len(b)}
  if len(b) < 14:
    return d
  d["dst"], d["src"] = b[:6].hex(), b[6:12].hex()
  off = 12
  et = struct.unpack_from("!H", b, off)[0]
  if et == 0x8100 and len(b) >= 18:
    tci = struct.unpack_from("!H", b, 14)[0]
    d["vlan"] = dict(pcp=tci >> 13, cfi=(tci >> 12) & 1, vid=tci & 0xfff)
    off = 16
    et = struct.unpack_from("!H", b, off)[0]
  d["et"] = "%04x" % et
  l3 = b[off + 2:]
  if et == 0x0800 and len(l3) >= 20:
    hl = max(20, (l3[0] & 15) * 4)
    d["ip"] = dict(tos=l3[1], totlen=struct.unpack_from("!H", l3, 2)[0], proto=l3[9],
                   src=l3[12:16].hex(), dst=l3[16:20].hex(), csum_ok=rb.csum(l3[:hl]) == 0,
                   len_ok=struct.unpack_from("!H", l3, 2)[0] == len(l3), ihl=l3[0] & 15,
                   options=l3[20:hl].hex(), ident=l3[4:6].hex(), csum=l3[10:12].hex())
    l4 = l3[hl:]
    if l3[9] in (6, 17) and len(l4) >= 8:
      d["tp"] = list(struct.unpack_from("!HH", l4, 0))
      ph = l3[12:20] + struct.pack("!BBH", 0, l3[9], len(l4))
      d["l4_csum_ok"] = rb.csum(ph + l4) == 0
      d["l4_csum"] = (l4[6:8] if l3[9] == 17 else l4[16:18]).hex()
    elif l3[9] == 1 and len(l4) >= 4:
      d["l4_csum"] = l4[2:4].hex()
  return d


def diff_fields(a, b):
  """names of describe() fields in which two frames differ (diagnostics)."""
  da, db = describe(a), describe(b)
  return sorted(k for k in set(da) | set(db) if da.get(k) != db.get(k))


# ---- which special values of the Internet checksum does a frame sit on (vacuity notes, signatures) -------------

def _once(words):
  s = sum(words)
  return (s & 0xffff) + (s >> 16)


def _blocks(b):
  """(site, checksum field, block the checksum covers with the field zeroed) of every checksum in the frame."""
  out = []
  if len(b) < 14:
    return out
  off = 12
  et = struct.unpack_from("!H", b, off)[0]
  if et == 0x8100 and len(b) >= 18:
    off = 16
    et = struct.unpack_from("!H", b, off)[0]
  l3 = b[off + 2:]
  if et != 0x0800 or len(l3) < 20:
    return out
  hl = (l3[0] & 15) * 4
  if hl < 20 or len(l3) < hl:
    return out
  out.append(("ip", l3[10:12], l3[:10] + b"\0\0" + l3[12:hl]))
  if struct.unpack_from("!H", l3, 6)[0] & 0x3fff:
    return out                            # a fragment: what follows is opaque
  l4, proto = l3[hl:], l3[9]
  ph = l3[12:20] + struct.pack("!BBH", 0, proto, len(l4))
  if proto == 17 and len(l4) >= 8:
    out.append(("udp", l4[6:8], ph + l4[:6] + b"\0\0" + l4[8:]))
  elif proto == 6 and len(l4) >= 20:
    out.append(("tcp", l4[16:18], ph + l4[:16] + b"\0\0" + l4[18:]))
  elif proto == 1 and len(l4) >= 4:
    out.append(("icmp", l4[2:4], l4[:2] + b"\0\0" + l4[4:]))
  return out


def boundary_classes(b):
  """e.g. {"udp/zero", "ip/carryle", "udp/none"} - diagnostics and vacuity counting only, never a verdict."""
  out = set()
  for site, field, blk in _blocks(b):
    if len(blk) & 1:
      blk += b"\0"
    n = len(blk) // 2
    if site == "udp" and field == b"\0\0":
      out.add("udp/none")
      continue
    if rb.csum(blk) == 0:
      out.add(site + "/zero")
    if _once(struct.unpack("!%dH" % n, blk)) == 0x10000:
      out.add(site + "/carry")
    if _once(struct.unpack("<%dH" % n, blk)) == 0x10000:
      out.add(site + "/carryle")
  return out
