"""X02 adapter: FlowSync.tla actions -> the real OFSyncFlowTable / OpenFlowSwitch / of_01.Connection on the
controller side and a real SoftwareSwitch on the other side of a harness-owned OpenFlow channel.

After EVERY step the whole visible state is observed and returned in the shape of FlowSync!Obs:
  mir      bag of installed entries of the mirror (`entries`, by object identity)       [count per object]
  npend    `num_pending`
  wr       what the controller wrote in this step, decoded from the bytes by harness/rawbytes.py:
           flow-mods as (command, object), barrier requests as canonical barrier ids
  added / removed / nev   FlowTableModification events the mirror raised in this step
  exc      exceptions that reached the caller or were swallowed by raiseEventNoErrors
  sw       the switch's flow table, read back over OpenFlow (flow statistics), by cookie   [0/1 per object]
  rep      what the switch wrote in this step (barrier reply / one batch of FLOW_REMOVED)

Transaction ids are chosen by the code; a barrier's xid is bound, when the request is first seen on the
wire, to the lowest canonical id that no barrier in flight carries (the rule FlowSync!FreshB states), and the
binding is checked to be injective.
"""
from harness import rawbytes as rb
from harness.x02_env import Env, poxenv

import pox.openflow.libopenflow_01 as of
from pox.openflow.flow_table import TableEntry

K_MAX = 5
# object -> (in_port, dl_type, priority); 0 = wildcarded.  Same table as MCFlowSync!MCMatch / MCPrio.
OBJ = {1: (1, 0, 5), 2: (0, 0, 5), 3: (1, 0, 5), 4: (1, 8, 7), 5: (1, 0, 7)}
DL_TYPE = {8: 0x0800}
CMD = {0: "add", 3: "del", 4: "dels"}


def make_entry(o):
  ip, dt, prio = OBJ[o]
  m = of.ofp_match()
  if ip:
    m.in_port = ip
  if dt:
    m.dl_type = DL_TYPE[dt]
  return TableEntry(priority=prio, cookie=o, match=m, actions=[of.ofp_action_output(port=1 + (o % 3))])


def wire_match_ok(o, m):
  """the match of a decoded flow-mod / flow-removed is the one of object o (fields we use; the rest wildcarded)"""
  ip, dt, _ = OBJ[o]
  w = m["wildcards"]
  if bool(w & rb.FW_IN_PORT) != (ip == 0) or (ip and m["in_port"] != ip):
    return False
  if bool(w & rb.FW_DL_TYPE) != (dt == 0) or (dt and m["dl_type"] != DL_TYPE[dt]):
    return False
  rest = rb.FW_DL_VLAN | rb.FW_DL_SRC | rb.FW_DL_DST
  return (w & rest) == rest


class Adapter(object):
  def __init__(self, K=4, clears=True, variant=0):
    self.K = K
    self.variant = variant
    self.env = Env(dpid=1, nports=3, nexus_clears=clears)
    self.objs = dict((o, make_entry(o)) for o in range(1, K + 1))
    self.ident = dict((id(e), o) for o, e in self.objs.items())
    self.bar = {}            # xid -> canonical id, barriers in flight
    self.batches = []        # sizes of the s2c batches
    self.gone = False
    self.nsteps = 0
    # the spec starts connected and drained: deliver what the first SwitchConnectionUp wrote
    self._wr()
    guard = 0
    while self.env.c2s or self.env.s2c:
      guard += 1
      if guard > 50:
        raise RuntimeError("initial drain does not terminate")
      if self.env.c2s:
        self._sw_rx()
      else:
        self._ctl_rx()
    self.env.take_events()
    self.env.take_exc()
    self.bar = {}

  # -- decoding
  def _bag(self, entries):
    b = [0] * self.K
    for e in entries:
      o = self.ident.get(id(e))
      if o is None:
        return "UNKNOWN-ENTRY"
      b[o - 1] += 1
    return b

  def _bind(self, xid):
    if xid in self.bar:
      return "XID-REUSED"
    used = set(self.bar.values())
    b = 1
    while b in used:
      b += 1
    self.bar[xid] = b
    return b

  def _wr(self):
    out = []
    for m in self.env.take_c2s_log():
      if m["type"] == rb.FLOW_MOD:
        allw = rb.FW_IN_PORT | rb.FW_DL_TYPE | rb.FW_DL_VLAN | rb.FW_DL_SRC | rb.FW_DL_DST
        if m["command"] == 3 and m["cookie"] == 0 and m["match"]["wildcards"] & allw == allw \
            and m["priority"] == 0x8000 and m["out_port"] == rb.OFPP_NONE:
          out.append({"t": "clr", "c": "", "o": 0, "b": 0})
          continue
        o = m["cookie"]
        ok = (o in self.objs and m["command"] in CMD and m["priority"] == OBJ[o][2]
              and wire_match_ok(o, m["match"]) and (m["flags"] & 1) == 1
              and m["buffer_id"] == rb.NO_BUFFER and m["out_port"] == rb.OFPP_NONE
              and m["idle_timeout"] == 0 and m["hard_timeout"] == 0)
        if ok and m["command"] == 0:
          ok = len(m["actions"]) == 1
        out.append({"t": "fm", "c": CMD.get(m["command"], "cmd%s" % m["command"]),
                    "o": o if ok else -1, "b": 0})
      elif m["type"] == rb.BARRIER_REQUEST:
        out.append({"t": "bar", "c": "", "o": 0, "b": self._bind(m["xid"])})
      else:
        out.append({"t": m["name"], "c": "", "o": 0, "b": 0})
    return out

  def _sw_table(self):
    ind = [0] * self.K
    for f in self.env.switch_table():
      o = f["cookie"]
      if o not in self.objs or f["priority"] != OBJ[o][2] or not wire_match_ok(o, f["match"]):
        return "FOREIGN-FLOW"
      ind[o - 1] += 1
    return ind

  def _sw_rx(self):
    m, replies = self.env.sw_deliver()
    rep = []
    frem = [r for r in replies if r["type"] == rb.FLOW_REMOVED]
    other = [r for r in replies if r["type"] != rb.FLOW_REMOVED]
    if frem:
      ind = [0] * self.K
      for r in frem:
        o = r["cookie"]
        if o not in self.objs or r["priority"] != OBJ[o][2] or not wire_match_ok(o, r["match"]) or r["reason"] != 2:
          ind = "BAD-FLOW-REMOVED"
          break
        ind[o - 1] += 1
      rep.append({"t": "frem", "b": 0, "fl": ind})
    for r in other:
      if r["type"] == rb.BARRIER_REPLY:
        rep.append({"t": "brep", "b": self.bar.get(r["xid"], -1), "fl": [0] * self.K})
      else:
        rep.append({"t": r["name"], "b": 0, "fl": [0] * self.K})
    if frem and other:
      rep.insert(0, {"t": "MIXED", "b": 0, "fl": [0] * self.K})
    if replies:
      self.batches.append((len(replies), [r["xid"] for r in replies if r["type"] == rb.BARRIER_REPLY]))
    return rep

  def _ctl_rx(self):
    n, xids = self.batches.pop(0)
    for _ in range(n):
      self.env.ctl_deliver()
    for x in xids:
      self.bar.pop(x, None)

  def _obs(self, wr=None, rep=None, exc=None):
    ev = self.env.take_events()
    added, removed = [], []
    for a, r in ev:
      added.extend(a)
      removed.extend(r)
    if self.gone:
      mir, npend = [0] * self.K, 0
    else:
      mir = self._bag(self.env.mirror.entries)
      npend = self.env.mirror.num_pending
      if len(self.env.mirror) != len(self.env.mirror.entries):
        mir = "LEN-DISAGREES"
    return {"mir": mir, "npend": npend, "wr": self._wr() if wr is None else wr,
            "added": self._bag(added), "removed": self._bag(removed), "nev": len(ev),
            "exc": (exc or []) + self.env.take_exc(), "sw": self._sw_table(), "rep": rep or []}

  # -- steps
  def step(self, a, args):
    self.nsteps += 1
    if a in ("Install", "RemoveStrict", "RemoveWild"):
      e = self.objs[args["o"]]
      mir = self.env.mirror
      f = {"Install": mir.install, "RemoveStrict": mir.remove_strict, "RemoveWild": mir.remove_with_wildcards}[a]
      exc = []
      try:
        # the API takes one entry or a list of entries
        f(e if (self.variant + self.nsteps) % 2 == 0 else [e])
      except Exception as x:       # noqa - reaches the application
        exc = [type(x).__name__]
      return self._obs(exc=exc)
    if a == "SwRx":
      rep = self._sw_rx()
      return self._obs(rep=rep)
    if a == "CtlRx":
      self._ctl_rx()
      return self._obs()
    if a == "Tick":
      poxenv.clock.advance(args["d"])
      return self._obs()
    if a == "Down":
      self.env.down()
      self.bar = {}
      self.batches = []
      return self._obs()
    if a in ("Up", "Join"):
      if self.env.connect() is not None:
        self.gone = False
      return self._obs()
    if a == "Expire":
      if self.env.expire() != 1:
        return {"EXPIRE": "no reconnect timer armed"}
      self.gone = True
      if self.env.topology.getEntityByID(self.env.dpid) is not None:
        return {"EXPIRE": "entity still in the topology"}
      return self._obs()
    raise ValueError(a)

  def signature(self, st, obs):
    sig = {"action": st["a"]}
    exp = st["exp"]
    if isinstance(obs, dict) and "EXC" in obs:
      sig["observed"] = "exception:" + obs["EXC"]
      return sig
    if not isinstance(obs, dict):
      sig["observed"] = "not-a-record"
      return sig
    sig["fields"] = sorted(k for k in exp if obs.get(k) != exp[k])
    if st["a"] in ("Install", "RemoveStrict", "RemoveWild"):
      sig["o"] = st["args"]["o"]
    return sig
