"""C18 adapter: Buffers.tla actions -> real SoftwareSwitch over OpenFlow bytes."""
from harness import rawbytes as rb
from harness.swharness import Harness

FRAME_LEN = {"a": 60, "b": 200}
MACS = {"a": "00:00:00:00:0a:01", "b": "00:00:00:00:0b:01"}
ZMAC = "00:00:00:00:0e:0e"
ET_MISS = 0x0801            # no flow matches this ethertype
ET_CTRL = {64: 0x88b5, 65535: 0x88b6}   # flows output:CONTROLLER(max_len)
ET_LIST = 0x88b7            # matched only by the flow an RxL step installs for itself
CTL_LEN = 96                # max_len of output:CONTROLLER inside an action list (Buffers!CtlLen)
ET_OF_CLASS = dict([(0, ET_MISS), (1, ET_LIST)] + list(ET_CTRL.items()))


def frame(f, ethertype):
  return rb.pad_to(rb.eth("00:00:00:00:00:99", MACS[f], ethertype), FRAME_LEN[f])


def act_bytes(act):
  return {"none": b"", "out2": rb.a_output(2), "flood": rb.a_output(rb.OFPP_FLOOD),
          "inport": rb.a_output(rb.OFPP_IN_PORT), "all": rb.a_output(rb.OFPP_ALL),
          "ctl": rb.a_output(rb.OFPP_CONTROLLER, CTL_LEN), "table": rb.a_output(rb.OFPP_TABLE),
          "rw": rb.a_dl_dst(ZMAC)}[act]


def list_bytes(acts):
  return b"".join(act_bytes(a) for a in acts)


def content_bytes(tag, k):
  fr = frame(tag[-1], ET_OF_CLASS[k])
  return rb.mac(ZMAC) + fr[6:] if tag.startswith("Z") else fr


class Adapter(object):
  def __init__(self, N=3, ports=3, maxlens=(64, 65535)):
    self.N = N
    self.h = Harness(dpid=1, ports=ports, max_buffers=N, miss_send_len=128)
    self.h.send(rb.hello())
    for ml, et in ET_CTRL.items():
      if ml not in maxlens:
        continue
      self.h.send(rb.flow_mod(rb.match(wildcards=rb.FW_ALL & ~rb.FW_DL_TYPE, dl_type=et),
                              priority=100,
                              actions=rb.a_output(rb.OFPP_CONTROLLER, ml)))
    assert self.h.take_bytes() == b""
    self.bind = {}       # concrete id -> slot, outstanding
    self.lastid = {}     # slot -> last concrete id bound to it
    self.stored = {}     # slot -> frame bytes (ours, to identify emissions)
    self.nflows = 0

  # -- helpers
  def _ident(self, data):
    for f in FRAME_LEN:
      for k, et in ET_OF_CLASS.items():
        if data == frame(f, et):
          return [f, k]
        if data == rb.mac(ZMAC) + frame(f, et)[6:]:      # the same frame with its destination rewritten
          return ["Z" + f, k]
    return ["?" + data[:20].hex(), -1]

  def _emitted(self):
    return sorted([p] + self._ident(b) for p, b in self.h.take_emitted())

  def _bag(self):
    em = [tuple([p] + self._ident(b)) for p, b in self.h.take_emitted()]
    return sorted(list(e) + [em.count(e)] for e in set(em))

  def _pins(self, msgs, held):
    """packet-ins of one step -> spec shape; binds each announced id to the lowest slot not in `held`
    (the slots outstanding when the step began - the spec gives a slot back when its list is done)."""
    out = []
    for m in msgs:
      tag, k = ("?", -1) if len(m["data"]) < 14 else ("??", -1)   # "?": too little data to tell (miss_send_len 0)
      for f in FRAME_LEN:                       # which frame: total length + (possibly truncated) bytes
        for kk in ET_OF_CLASS:
          for t in (f, "Z" + f):
            cb = content_bytes(t, kk)
            if m["total_len"] == len(cb) and len(m["data"]) >= 14 and m["data"] == cb[:len(m["data"])]:
              tag, k = t, kk
      if m["buffer_id"] == rb.NO_BUFFER:
        buf = 0
      elif m["buffer_id"] in self.bind:
        buf = "DUPLICATE-ID"
      else:
        free = [s for s in range(1, self.N + 1) if s not in held]
        buf = free[0] if free else "ID-BEYOND-POOL"
        if free:
          held.add(buf)
          self.bind[m["buffer_id"]] = buf
          self.lastid[buf] = m["buffer_id"]
      out.append({"buf": buf, "total": m["total_len"], "dataLen": len(m["data"]), "inport": m["in_port"],
                  "reason": {0: "miss", 1: "action"}.get(m["reason"], m["reason"]), "tag": tag, "k": k})
    return out

  def _list_result(self, msgs, held):
    pins = [m for m in msgs if m["type"] == rb.PACKET_IN]
    other = [m for m in msgs if m["type"] != rb.PACKET_IN and
             not (m["type"] == rb.ERROR and m["etype"] == 1 and m["code"] in (7, 8))]
    r = {"emitted": self._bag(), "pins": self._pins(pins, held)}
    if other:
      r["msgs"] = [m["name"] for m in other]
    return r

  def _concrete(self, s):
    """concrete buffer id for spec slot s (outstanding, stale or bogus)."""
    for c, sl in self.bind.items():
      if sl == s:
        return c
    if s in self.lastid:
      return self.lastid[s]
    used = set(self.bind) | set(self.lastid.values())
    c = s if s >= 1 else 0
    if s > self.N:
      c = max([self.N] + list(used)) + (s - self.N)
    elif s >= 1:
      # never issued slot number: any id not handed out so far
      c = max([0] + list(used)) + s
    return c

  def _flow_mod_form(self, how, buf, ab):
    """A FLOW_MOD that names buffer `buf`, in the form the spec chose (Buffers!FmHows).  The entries involved
    never match a frame of this check (ingress ports 70.., ethertype 0x9999); an entry that has to exist
    beforehand is installed by a flow-mod without buffer."""
    self.nflows += 1
    m = rb.match(wildcards=rb.FW_ALL & ~(rb.FW_IN_PORT | rb.FW_DL_TYPE),
                 in_port=70 + (self.nflows % 3), dl_type=0x9999)
    drop = rb.flow_mod(m, priority=5, command=rb.FC_DELETE_STRICT)
    pre = []
    if how in ("add", "modnew", "modstrictnew"):
      pre = self.h.send(drop)                                     # make sure there is no such entry
    else:
      pre = self.h.send(rb.flow_mod(m, priority=5, actions=b""))  # an identical entry (other actions) exists
    cmd = {"add": rb.FC_ADD, "addsame": rb.FC_ADD, "mod": rb.FC_MODIFY, "modnew": rb.FC_MODIFY,
           "modstrict": rb.FC_MODIFY_STRICT, "modstrictnew": rb.FC_MODIFY_STRICT}[how]
    return pre + self.h.send(rb.flow_mod(m, priority=5, command=cmd, buffer_id=buf, actions=ab))

  def step(self, a, args):
    if a == "ToController":
      f, p = args["f"], args["p"]
      et = ET_MISS if args["reason"] == "miss" else ET_CTRL[args["maxLen"]]
      fr = frame(f, et)
      self.h.rx(fr, p)
      msgs = self.h.take_msgs()
      em = self.h.take_emitted()
      if len(msgs) != 1 or msgs[0]["type"] != rb.PACKET_IN or em:
        return {"unexpected": [m["name"] for m in msgs], "emitted": len(em)}
      m = msgs[0]
      if m["data"] != fr[:len(m["data"])]:
        return {"bad_data": m["data"][:16].hex()}
      if m["buffer_id"] == rb.NO_BUFFER:
        buf = 0
      elif m["buffer_id"] in self.bind:
        buf = "DUPLICATE-ID"
      else:
        free = [s for s in range(1, self.N + 1) if s not in self.bind.values()]
        buf = free[0] if free else "ID-BEYOND-POOL"
        if free:
          self.bind[m["buffer_id"]] = buf
          self.lastid[buf] = m["buffer_id"]
      return {"buf": buf, "total": m["total_len"], "dataLen": len(m["data"]),
              "inport": m["in_port"],
              "reason": {0: "miss", 1: "action"}.get(m["reason"], m["reason"])}
    if a in ("PacketOut", "FlowMod"):
      c = self._concrete(args["buf"])
      ab = act_bytes(args["act"])
      if a == "PacketOut":
        msgs = self.h.send(rb.packet_out(buffer_id=c, in_port=rb.OFPP_NONE, actions=ab))
      else:
        msgs = self._flow_mod_form(args.get("how", "add"), c, ab)
      self.bind.pop(c, None)
      r = {"emitted": self._emitted()}
      # an error reply saying the buffer is unknown / empty is not an emission (C13 decides on replies)
      msgs = [m for m in msgs if not (m["type"] == rb.ERROR and m["etype"] == 1 and m["code"] in (7, 8))]
      if msgs:
        r["msgs"] = [m["name"] for m in msgs]
      return r
    if a in ("PacketOutL", "FlowModL"):
      c = self._concrete(args["buf"])
      ab = list_bytes(args["acts"])
      held = set(self.bind.values())
      if a == "PacketOutL":
        data = rb.packet_out(buffer_id=c, in_port=rb.OFPP_NONE, actions=ab)
      else:
        self.bind.pop(c, None)
        return self._list_result(self._flow_mod_form(args.get("how", "add"), c, ab), held)
      self.bind.pop(c, None)          # used: whatever id the step announces is a new binding
      return self._list_result(self.h.send(data), held)
    if a == "PacketOutDataL":
      fr = frame(args["f"], ET_MISS)
      held = set(self.bind.values())
      return self._list_result(self.h.send(rb.packet_out(buffer_id=rb.NO_BUFFER, in_port=args["p"],
                                                         actions=list_bytes(args["acts"]), data=fr)), held)
    if a == "RxL":
      m = rb.match(wildcards=rb.FW_ALL & ~rb.FW_DL_TYPE, dl_type=ET_LIST)
      pre = self.h.send(rb.flow_mod(m, priority=100, actions=list_bytes(args["acts"])))
      held = set(self.bind.values())
      self.h.rx(frame(args["f"], ET_LIST), args["p"])
      msgs = self.h.take_msgs()
      r = self._list_result(pre + msgs, held)
      post = self.h.send(rb.flow_mod(m, priority=100, command=rb.FC_DELETE_STRICT))
      if post:
        r["msgs"] = r.get("msgs", []) + [x["name"] for x in post]
      return r
    if a == "PacketOutData":
      fr = frame(args["f"], ET_MISS)
      msgs = self.h.send(rb.packet_out(buffer_id=rb.NO_BUFFER, in_port=args["p"],
                                       actions=act_bytes(args["act"]), data=fr))
      r = {"emitted": self._emitted()}
      if msgs:
        r["msgs"] = [m["name"] for m in msgs]
      return r
    if a == "MissViaTable":
      f, p = args["f"], args["p"]
      fr = frame(f, ET_MISS)
      acts = rb.a_output(rb.OFPP_TABLE) + rb.a_dl_dst(ZMAC) + rb.a_output(2)
      msgs = self.h.send(rb.packet_out(buffer_id=rb.NO_BUFFER, in_port=p, actions=acts, data=fr))
      em = self._emitted()
      pins = [m for m in msgs if m["type"] == rb.PACKET_IN]
      if len(pins) != 1 or len(msgs) != 1:
        return {"unexpected": [m["name"] for m in msgs], "emitted": em}
      m = pins[0]
      if m["data"] != fr[:len(m["data"])]:
        return {"bad_data": m["data"][:16].hex()}
      if m["buffer_id"] == rb.NO_BUFFER:
        buf = 0
      elif m["buffer_id"] in self.bind:
        buf = "DUPLICATE-ID"
      else:
        free = [s for s in range(1, self.N + 1) if s not in self.bind.values()]
        buf = free[0] if free else "ID-BEYOND-POOL"
        if free:
          self.bind[m["buffer_id"]] = buf
          self.lastid[buf] = m["buffer_id"]
      return {"buf": buf, "total": m["total_len"], "dataLen": len(m["data"]), "inport": m["in_port"],
              "reason": {0: "miss", 1: "action"}.get(m["reason"], m["reason"]), "emitted": em}
    if a == "Features":
      msgs = self.h.send(rb.features_request(xid=77))
      em = self.h.take_emitted()
      rep = [m for m in msgs if m["type"] == rb.FEATURES_REPLY]
      if len(rep) != 1 or len(msgs) != 1 or em:
        return {"unexpected": [m["name"] for m in msgs], "emitted": len(em)}
      return {"nbuf": rep[0]["n_buffers"]}
    if a == "SetConfig":
      msgs = self.h.send(rb.set_config(flags=0, miss_send_len=args["missLen"]))
      em = self.h.take_emitted()
      if msgs or em:
        return {"unexpected": [m["name"] for m in msgs], "emitted": len(em)}
      return {"x": 0}
    raise ValueError(a)

  def normalize(self, obs, exp):
    if isinstance(obs, dict) and isinstance(exp, dict) and len(obs.get("pins", [])) == len(exp.get("pins", [])):
      for o, e in zip(obs.get("pins", []), exp.get("pins", [])):
        if o.get("tag") == "?":          # nothing to identify the frame by: take the spec's word for it
          o["tag"], o["k"] = e["tag"], e["k"]
    return obs

  def signature(self, st, obs):
    sig = {"action": st["a"]}
    exp = st["exp"]
    if isinstance(obs, dict) and "EXC" in obs:
      sig["observed"] = "exception:" + obs["EXC"]
      return sig
    if st["a"] in ("ToController", "MissViaTable"):
      diff = sorted(k for k in exp if not isinstance(obs, dict) or obs.get(k) != exp[k])
      sig["fields"] = diff
      sig["truncated"] = exp["dataLen"] < exp["total"]
      sig["buffered"] = exp["buf"] != 0
    elif st["a"] == "Features":
      sig["advertised"] = ("pool_size" if isinstance(obs, dict) and obs.get("nbuf") == exp["nbuf"] else
                           "less_than_pool" if isinstance(obs, dict) and isinstance(obs.get("nbuf"), int)
                           and obs["nbuf"] < exp["nbuf"] else "other")
    else:
      sig["act"] = st["args"].get("act") or "/".join(st["args"].get("acts", []))
      if "pins" in exp:
        sig["expected_pins"] = len(exp["pins"])
        sig["observed_pins"] = len(obs.get("pins", [])) if isinstance(obs, dict) else -1
        if isinstance(obs, dict) and len(obs.get("pins", [])) == len(exp["pins"]):
          sig["pin_fields"] = sorted(set(k for a, b in zip(obs["pins"], exp["pins"]) for k in b if a.get(k) != b[k]))
      sig["expected_emit"] = len(exp.get("emitted", []))
      sig["observed_emit"] = len(obs.get("emitted", [])) if isinstance(obs, dict) and "emitted" in obs else -1
    return sig
