"""X02 environment: the controller-side flow-table mirror closed over bytes.

  harness (the "application")
      |  install / remove_with_wildcards / remove_strict   (public API of OFSyncFlowTable)
      v
  OpenFlowSwitch.flow_table = OFSyncFlowTable (real)  <- created by the real OpenFlowTopology
      |  switch.send(ofp_flow_mod / ofp_barrier_request)      component on the nexus' ConnectionUp
      v
  of_01.Connection (real) -- CtlSock --> [c2s queue] --> OFConnection/IOWorker (real) --> SoftwareSwitch (real)
  BarrierIn / FlowRemoved <-- Connection.read <-- [s2c queue] <-- bytes the switch wrote

* The channel between the two real ends is a pair of message queues owned by the harness: a message is
  moved only when the replayed behaviour says so (`sw_deliver`, `ctl_deliver`).  So barrier replies can be
  outstanding while further operations are issued, the virtual clock can pass the mirror's TIME_OUT, and a
  connection can be lost with messages in flight (they are dropped, as TCP would).
* Connection loss and re-establishment go the way they go in a running controller: the controller's socket
  reads EOF, the OpenFlow loop's reaction (`if con.read() is False: con.close()`) is performed, a new
  `of_01.Connection` does the real handshake with the same SoftwareSwitch (which kept its flow table), the
  nexus raises ConnectionUp, OpenFlowTopology re-attaches the OpenFlowSwitch entity.
* Everything observed is public: bytes on the channel (decoded by harness/rawbytes.py), `entries`,
  `num_pending`, `len()` of the mirror, FlowTableModification events of the mirror, the switch's table as a
  flow-statistics reply (OFPST_FLOW pushed into the switch's connection, never forwarded to the controller).
* Exceptions inside event handlers are swallowed by revent.raiseEventNoErrors; the documented replaceable
  hook `revent.handleEventException` records them so that the adapter can report them.
* `openflow_discovery` (a dependency of OpenFlowTopology that is outside this area) is a stand-in EventMixin
  that never raises a LinkEvent.
"""
import errno
import socket as _socket

from engine.core import Machinery
from harness import poxenv
from harness import rawbytes as rb

core = poxenv.boot()

import pox.openflow as ofmod                      # noqa: E402
import pox.openflow.of_01 as of_01                # noqa: E402

ofmod.launch()
of_01.DeferredSender.start = lambda self: None
if of_01.deferredSender is None:
  of_01.deferredSender = of_01.DeferredSender()

import pox.lib.revent.revent as reventmod         # noqa: E402
from pox.lib.revent import EventMixin             # noqa: E402
from pox.lib.ioworker import IOWorker             # noqa: E402
from pox.datapaths import switch as swmod         # noqa: E402
from pox.openflow import flow_table as ftmod      # noqa: E402
import pox.topology.topology as topomod           # noqa: E402
import pox.openflow.discovery as discmod          # noqa: E402
import pox.openflow.topology as oftopo            # noqa: E402
import pox.lib.recoco.recoco as recoco            # noqa: E402
import pox.openflow.libopenflow_01 as oflib       # noqa: E402

poxenv.install_clock(of_01, swmod, ftmod, oftopo)

EXC = []          # exceptions swallowed by raiseEventNoErrors since the last take


def _on_handler_exception(source, event, args, kw, exc_info):
  ev = event if isinstance(event, type) else type(event)
  EXC.append("%s:%s" % (getattr(ev, "__name__", str(ev)), exc_info[0].__name__))


reventmod.handleEventException = _on_handler_exception


class StubDiscovery(EventMixin):
  _eventMixin_events = set([discmod.LinkEvent])


class CtlSock(object):
  _fd = 7000

  def __init__(self):
    self.inq = []
    self.out = b""
    self.closed = False
    self.shut = False
    CtlSock._fd += 1
    self._fileno = CtlSock._fd

  def fileno(self):
    return self._fileno

  def setblocking(self, v):
    pass

  def getpeername(self):
    return ("10.9.2.1", 41002)

  def send(self, data):
    if self.closed or self.shut:
      raise _socket.error(errno.EPIPE, "Broken pipe")
    self.out += data
    return len(data)

  def recv(self, n, flags=0):
    if self.inq:
      d = self.inq.pop(0)
      if len(d) > n:
        self.inq.insert(0, d[n:])
        d = d[:n]
      return d
    if self.shut or self.closed:
      return b""
    raise _socket.error(errno.EAGAIN, "Resource temporarily unavailable")

  def shutdown(self, how):
    self.shut = True

  def close(self):
    self.closed = True


class SwSock(object):
  def getpeername(self):
    return ("127.0.0.1", 6633)


class NoTimer(object):
  """Stands in for recoco.Timer inside pox.openflow.topology: the reconnect timeout (30 s) is armed on a
  connection loss; the harness owns time, so the timer is kept here and fired by `Env.expire()` only."""
  armed = []

  def __init__(self, t, callback, *a, **kw):
    self.t = t
    self.callback = callback
    self.cancelled = False
    NoTimer.armed.append(self)

  def cancel(self):
    self.cancelled = True


oftopo.Timer = NoTimer


class Env(object):
  MAX_ROUNDS = 40

  def __init__(self, dpid=1, nports=2, nexus_clears=True):
    self.clock = poxenv.clock
    self.dpid = dpid
    self.nports = nports
    self.nexus_clears = nexus_clears
    self._fresh_controller()
    self.sw = swmod.SoftwareSwitch(dpid, ports=nports, max_buffers=4, miss_send_len=128)
    self.c2s = []          # messages (bytes) written by the controller, not yet seen by the switch
    self.s2c = []          # messages written by the switch, not yet read by the controller
    self.c2s_log = []      # decoded controller->switch messages since the last take (tap)
    self.con = None
    self.sock = None
    self.worker = None
    self.events = []       # FlowTableModification events of the mirror since the last take
    self.ft_events = []    # ... of the inner FlowTable
    self.mirror = None
    self.entity = None
    self.connect()

  # -- controller side
  def _fresh_controller(self):
    old = core.components.get("openflow")
    if old is not None:
      try:
        core.removeListener(old._handle_DownEvent)
      except Exception:
        pass
    self.nexus = ofmod.OpenFlowNexus()
    self.nexus.clear_flows_on_connect = bool(self.nexus_clears)     # public option of the nexus
    core.components["openflow"] = self.nexus
    core.components["OpenFlowConnectionArbiter"] = ofmod.OpenFlowConnectionArbiter()
    of_01.Connection.ID = 0
    of_01.Connection._aborted_connections = 0
    of_01.deferredSender.sending = False
    of_01.deferredSender._dataForConnection.clear()
    try:
      core.scheduler._ready.clear()
    except Exception:
      pass
    # automatic transaction ids are process-global (libopenflow_01.generate_xid, 1, 2, 3 ...); a worker process
    # replays thousands of behaviours, and the counter would walk into the range of the per-switch generator
    # ((dpid & 0x7fff) << 16) + 1 ... (see notes/X02.md, D9): every behaviour starts from a fresh counter
    oflib.generate_xid = oflib.xid_generator()
    # entity ids are process-global in pox.topology
    topomod.Entity._all_ids.clear()
    topomod.Entity._tb.clear()
    topomod.Entity._next_id = 101
    NoTimer.armed = []
    del EXC[:]
    self.topology = topomod.Topology()
    core.components["topology"] = self.topology
    core.components["openflow_discovery"] = StubDiscovery()
    core.components.pop("openflow_topology", None)
    oftopo.launch()          # the component's own entry point
    self.oft = core.components["openflow_topology"]
    if getattr(self.oft, "topology", None) is not self.topology:
      raise Machinery("OpenFlowTopology did not bind to the fresh topology component")

  def connect(self):
    """A (new) TCP connection from the switch: real handshake up to ConnectionUp.  What the mirror writes
    from its SwitchConnectionUp handler stays in the c2s queue."""
    if self.con is not None and not self.con.disconnected:
      raise Machinery("connect while connected")
    self.worker = IOWorker()
    self.worker.socket = SwSock()
    self.ofc = swmod.OFConnection(self.worker)
    self.sw.set_connection(self.ofc)
    self.sock = CtlSock()
    self.c2s, self.s2c = [], []
    self.con = of_01.Connection(self.sock)
    import io, sys
    old_stdout, sys.stdout = sys.stdout, io.StringIO()      # pox.topology prints a traceback on an id clash
    try:
      self._handshake()
    finally:
      sys.stdout = old_stdout
    return self._attach()

  def _handshake(self):
    rounds = 0
    while self.con.connect_time is None:
      rounds += 1
      if rounds > self.MAX_ROUNDS:
        raise Machinery("handshake did not complete")
      moved = False
      if self.sock.out:
        data, self.sock.out = self.sock.out, b""
        self.worker._push_receive_data(data)
        moved = True
      if self.worker.send_buf:
        data, self.worker.send_buf = self.worker.send_buf, b""
        self.sock.inq.append(data)
        while self.sock.inq:
          if self.con.read() is False:
            raise Machinery("controller dropped the connection during the handshake")
        moved = True
      if not moved:
        raise Machinery("handshake stalled")
    if self.worker.send_buf:
      raise Machinery("switch wrote after the handshake barrier")

  def _attach(self):
    self._collect()
    ent = self.topology.getEntityByID(self.dpid)
    if ent is None:
      return None          # code under test: the adapter reports it
    if self.entity is not ent:
      self.entity = ent
      self.mirror = ent.flow_table
      self.mirror.addListenerByName("FlowTableModification", self._on_ftm)
      self.mirror.flow_table.addListenerByName("FlowTableModification", self._on_inner)
    return ent

  def _on_ftm(self, e):
    self.events.append((list(e.added), list(e.removed)))

  def _on_inner(self, e):
    self.ft_events.append((list(e.added), list(e.removed)))

  def _collect(self):
    """bytes the controller wrote -> message queue"""
    if self.sock.out:
      data, self.sock.out = self.sock.out, b""
      msgs = rb.split(data)
      self.c2s.extend(msgs)
      for m in msgs:
        self.c2s_log.append(rb.parse(m))

  def take_c2s_log(self):
    self._collect()
    l, self.c2s_log = self.c2s_log, []
    return l

  def take_events(self):
    e, self.events = self.events, []
    return e

  def take_exc(self):
    e = list(EXC)
    del EXC[:]
    return e

  # -- the channel
  def sw_deliver(self):
    """The switch reads the next message the controller wrote.  Returns (decoded message, decoded replies)."""
    self._collect()
    if not self.c2s:
      raise Machinery("sw_deliver: nothing in flight")
    m = self.c2s.pop(0)
    self.worker._push_receive_data(m)
    out = []
    if self.worker.send_buf:
      data, self.worker.send_buf = self.worker.send_buf, b""
      for r in rb.split(data):
        self.s2c.append(r)
        out.append(rb.parse(r))
    return rb.parse(m), out

  def ctl_deliver(self):
    """The controller reads the next message the switch wrote."""
    if not self.s2c:
      raise Machinery("ctl_deliver: nothing in flight")
    m = self.s2c.pop(0)
    self.sock.inq.append(m)
    while self.sock.inq:
      if self.con.read() is False:
        self.con.close()
        raise Machinery("controller dropped the connection on a switch message")
    self._collect()
    return rb.parse(m)

  def switch_event(self):
    """bytes the switch wrote on its own (flow removed) -> s2c queue"""
    out = []
    if self.worker.send_buf:
      data, self.worker.send_buf = self.worker.send_buf, b""
      for r in rb.split(data):
        self.s2c.append(r)
        out.append(rb.parse(r))
    return out

  def down(self):
    """The TCP connection is lost: everything in flight is gone, the controller reads EOF and reacts the
    way OpenFlow_01_Task does."""
    self._collect()
    lost = (len(self.c2s), len(self.s2c))
    self.c2s, self.s2c = [], []
    self.worker.send_buf = b""
    self.sock.inq = []
    self.sock.shut = True
    if self.con.read() is False:
      self.con.close()
    else:
      raise Machinery("controller did not notice EOF")
    self.sock.out = b""
    return lost

  def expire(self):
    """RECONNECT_TIMEOUT passes while disconnected."""
    fired = 0
    for t in list(NoTimer.armed):
      if not t.cancelled:
        t.cancelled = True
        t.callback()
        fired += 1
    NoTimer.armed = []
    return fired

  # -- the switch's table as a management station sees it
  def switch_table(self):
    if self.worker.send_buf:
      raise Machinery("switch_table: switch output not collected")
    req = rb.stats_request(rb.ST_FLOW, rb.flow_stats_request_body(), xid=0x7e57)
    self.worker._push_receive_data(req)
    data, self.worker.send_buf = self.worker.send_buf, b""
    msgs = rb.parse_stream(data)
    if len(msgs) != 1 or msgs[0]["type"] != rb.STATS_REPLY or msgs[0].get("stype") != rb.ST_FLOW \
        or msgs[0]["xid"] != 0x7e57:
      raise Machinery("switch_table: unexpected answer to the flow statistics request: %r"
                      % [(m["name"], m.get("stype")) for m in msgs])
    return msgs[0]["flows"]
