"""C15 adapter: PktGrammar.tla actions -> the real packet library.

Offer   the first `cut` bytes of the frame the spec describes (built by
        harness/c15_frames.py, struct only) are delivered as the data of an
        OFPT_PACKET_IN to a real of_01.Connection; a PacketIn handler on
        core.openflow evaluates `event.parsed` (PacketIn.parse ->
        ethernet(raw)).  Observation: the handler got its parse result.
Layer   the i-th element of the real header chain: its kind (class) and
        whether it reports parsed.
Rest    the raw remainder below the parsed layers: bytes kept in `.next`, or
        the `.raw` of the first unparsed layer object.
Print / Dump / Repack   str() of every layer object, .dump(), .pack().

Nothing of the frame's layout is taken from POX: offsets and lengths in the
observations are located in the bytes the harness built itself.
"""
from engine.core import Machinery
from harness import c15_frames as F
from harness import c15_env

from pox.lib.packet.packet_base import packet_base

# class of a layer object -> kind name of the spec (context-free part)
KIND = {"ethernet": "eth", "vlan": "vlan", "llc": "llc", "mpls": "mpls", "arp": "arp",
        "ipv4": "ip4", "ipv6": "ip6", "udp": "udp", "tcp": "tcp", "icmp": "icmp",
        "time_exceeded": "timex", "igmp": "igmp", "gre": "gre", "vxlan": "vxlan",
        "dhcp": "dhcp", "dns": "dns", "rip": "rip", "lldp": "lldp", "eapol": "eapol",
        "eap": "eap", "icmpv6": "icmp6", "PacketTooBig": "toobig", "TimeExceeded": "timex6",
        "NDRouterSolicitation": "rs", "NDRouterAdvertisement": "ra",
        "NDNeighborSolicitation": "ns", "NDNeighborAdvertisement": "na"}


def kind_of(obj):
  n = type(obj).__name__
  if n in ("echo", "unreach"):            # same class names in icmp.py and icmpv6.py
    six = type(obj).__module__.endswith("icmpv6")
    return n + ("6" if six else "")
  k = KIND.get(n)
  if k is None:
    raise Machinery("C15 adapter: unknown layer class %s.%s" % (type(obj).__module__, n))
  return k


where = c15_env.where


def raised(e):
  return {"raised": type(e).__name__, "where": where(e), "msg": str(e)[:120]}


def walk(top):
  """(layer objects from the top down to and including the first unparsed one, what follows)"""
  objs = []
  p = top
  while isinstance(p, packet_base):
    objs.append(p)
    if getattr(p, "parsed", None) is not True:
      return objs, None
    p = getattr(p, "next", None)
  return objs, p


def remainder(top):
  """bytes kept unparsed below the parsed layers; None = they are gone"""
  objs, tail = walk(top)
  if objs and getattr(objs[-1], "parsed", None) is not True:
    r = getattr(objs[-1], "raw", None)
    if r is None:
      return b""                  # the unparsed layer object holds no bytes at all
    return r if isinstance(r, bytes) else None
  if tail is None:
    return b""
  if isinstance(tail, bytes):
    return tail
  return None


def occurrences(hay, needle, limit=64):
  """offsets at which needle occurs in hay: the last `limit/2` and the first `limit/2` ones (a kept
  remainder is usually the tail of the frame; deeply nested frames repeat themselves a lot)"""
  out = []
  i = hay.find(needle)
  while i >= 0 and len(out) < limit // 2:
    out.append(i)
    i = hay.find(needle, i + 1)
  back = []
  j = hay.rfind(needle)
  while j >= 0 and len(back) < limit // 2 and j not in out:
    back.append(j)
    j = hay.rfind(needle, 0, j + len(needle) - 1) if j > 0 else -1
  return sorted(set(out + back))


def observe_rest(top, data):
  r = remainder(top)
  if r is None:
    return {"len": -1, "starts": []}
  if len(r) == 0:
    return {"len": 0, "starts": "any"}
  return {"len": len(r), "starts": occurrences(data, r)}


def do_print(top):
  objs, _ = walk(top)
  for o in objs:
    try:
      with c15_env.deadline():
        s = str(o)
    except (Exception, c15_env.Diverged) as e:
      d = raised(e)
      d["ok"] = False
      d["layer"] = kind_of(o)
      return d
    if not isinstance(s, str):
      return {"ok": False, "raised": "not-a-string", "where": kind_of(o), "layer": kind_of(o)}
  return {"ok": True}


def do_dump(top):
  try:
    with c15_env.deadline():
      s = top.dump()
  except (Exception, c15_env.Diverged) as e:
    d = raised(e)
    d["ok"] = False
    return d
  return {"ok": True} if isinstance(s, str) else {"ok": False, "raised": "not-a-string", "where": "dump"}


def do_pack(top):
  try:
    with c15_env.deadline():
      b = top.pack()
  except (Exception, c15_env.Diverged) as e:
    d = raised(e)
    d["ok"] = False
    return d
  return {"ok": True} if isinstance(b, bytes) else {"ok": False, "raised": "not-bytes:" + type(b).__name__,
                                                    "where": "pack"}


class Adapter(object):
  def __init__(self):
    self.ch = c15_env.channel()
    self.args = None
    self.data = None
    self.top = None

  def step(self, a, args):
    if a == "Offer":
      st = F.expand(args)
      frame, lay = F.build(st, args["plen"], args["pad"])
      npre = len(args["st"])          # the spec logs the offsets of the explicit prefix
      offs = [x["off"] for x in lay[:npre]] + [lay[npre - 1]["off"] + lay[npre - 1]["hlen"]]
      if len(frame) != args["total"] or offs != list(args["offs"]):
        raise Machinery("C15: byte builder and PktGrammarLib disagree on the layout of %s: %s vs %s"
                        % (st, offs, args["offs"]))
      self.args = args
      self.data = frame[:args["cut"]]
      rec = self.ch.offer(self.data)
      if "exc" in rec:
        return {"returned": False, "raised": rec["exc"][0], "where": rec["exc"][2],
                "msg": rec["exc"][1][:120]}
      self.top = rec["parsed"]
      return {"returned": True}
    if a == "Layer":
      objs, _ = walk(self.top)
      i = args["i"]
      if i <= len(objs) and getattr(objs[i - 1], "parsed", None) is True:
        return {"k": kind_of(objs[i - 1]), "parsed": True}
      return {"k": "?", "parsed": False}
    if a == "Rest":
      return observe_rest(self.top, self.data)
    if a == "Print":
      return do_print(self.top)
    if a == "Dump":
      return do_dump(self.top)
    if a == "Repack":
      return do_pack(self.top)
    raise Machinery("C15 adapter: unknown action %s" % a)

  def normalize(self, obs, exp):
    """Rest: the spec's expectation [start, len, lo] stands for every remainder
    frame[s : start+len] with lo <= s <= start (s < start only below a leaf layer that keeps a
    tail of its body raw).  The observed remainder is located in the offered bytes and folded
    into that canonical form: start = the spec's start, len = what it holds beyond start."""
    if isinstance(obs, dict) and "starts" in obs and isinstance(exp, dict) and "start" in exp:
      n, st = obs["len"], obs["starts"]
      lo, at = exp["lo"], exp["start"]
      if n < 0:
        return {"start": -1, "len": n, "lo": lo}
      cands = [at] if st == "any" else [s for s in st if lo <= s <= at and s + n >= at]
      if cands:
        fit = [s for s in cands if n - (at - s) == exp["len"]]
        s = fit[0] if fit else max(cands)
        return {"start": at, "len": n - (at - s), "lo": lo}
      return {"start": st[0] if st else -1, "len": n, "lo": lo}
    return obs

  def signature(self, st, obs):
    a = st["a"]
    sig = {"action": a}
    A = self.args or {}
    stack = [{"k": k, "v": v} for k, v in F.expand(A)] if A else []
    if a in ("Offer", "Print", "Dump", "Repack"):
      sig["observed"] = "raise"
      sig["exc"] = obs.get("raised", "?") if isinstance(obs, dict) else "?"
      sig["where"] = obs.get("where", "?") if isinstance(obs, dict) else "?"
      return sig
    if a == "Layer":
      i = st["args"]["i"]
      l = stack[i - 1]
      sig["k"] = l["k"]
      sig["v"] = l["v"]
      sig["under"] = "%s.%s" % (stack[i - 2]["k"], stack[i - 2]["v"]) if i > 1 else "-"
      sig["expected_parsed"] = st["exp"]["parsed"]
      sig["whole"] = A.get("cut", 0) >= A.get("total", 0) - A.get("pad", 0)
      if isinstance(obs, dict) and obs.get("parsed") and st["exp"]["parsed"]:
        sig["observed_k"] = obs.get("k")
      return sig
    if a == "Rest":
      objs, _ = walk(self.top)
      done = [o for o in objs if getattr(o, "parsed", None) is True]
      sig["below"] = kind_of(done[-1]) if done else "-"
      n = obs.get("len", -1) if isinstance(obs, dict) else -1
      sig["observed"] = "lost" if n < st["exp"]["len"] else ("misplaced" if n == st["exp"]["len"] else "extra")
      return sig
    return sig
