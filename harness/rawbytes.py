"""OpenFlow 1.0 byte builders and parser written from the standard with
`struct` only.  Nothing here imports POX: bytes fed *into* POX decoders and
the decoding of bytes POX *wrote* are independent of libopenflow_01.
Layouts mirror specs/wire/OFWire.tla.
"""
import struct

OFP_VERSION = 1
(HELLO, ERROR, ECHO_REQUEST, ECHO_REPLY, VENDOR, FEATURES_REQUEST,
 FEATURES_REPLY, GET_CONFIG_REQUEST, GET_CONFIG_REPLY, SET_CONFIG, PACKET_IN,
 FLOW_REMOVED, PORT_STATUS, PACKET_OUT, FLOW_MOD, PORT_MOD, STATS_REQUEST,
 STATS_REPLY, BARRIER_REQUEST, BARRIER_REPLY, QUEUE_GET_CONFIG_REQUEST,
 QUEUE_GET_CONFIG_REPLY) = range(22)
TYPE_NAMES = ["HELLO", "ERROR", "ECHO_REQUEST", "ECHO_REPLY", "VENDOR",
              "FEATURES_REQUEST", "FEATURES_REPLY", "GET_CONFIG_REQUEST",
              "GET_CONFIG_REPLY", "SET_CONFIG", "PACKET_IN", "FLOW_REMOVED",
              "PORT_STATUS", "PACKET_OUT", "FLOW_MOD", "PORT_MOD",
              "STATS_REQUEST", "STATS_REPLY", "BARRIER_REQUEST",
              "BARRIER_REPLY", "QUEUE_GET_CONFIG_REQUEST",
              "QUEUE_GET_CONFIG_REPLY"]

OFPP_MAX = 0xff00
OFPP_IN_PORT = 0xfff8
OFPP_TABLE = 0xfff9
OFPP_NORMAL = 0xfffa
OFPP_FLOOD = 0xfffb
OFPP_ALL = 0xfffc
OFPP_CONTROLLER = 0xfffd
OFPP_LOCAL = 0xfffe
OFPP_NONE = 0xffff
NO_BUFFER = 0xffffffff

FC_ADD, FC_MODIFY, FC_MODIFY_STRICT, FC_DELETE, FC_DELETE_STRICT = range(5)
FF_SEND_FLOW_REM, FF_CHECK_OVERLAP, FF_EMERG = 1, 2, 4

FW_IN_PORT = 1 << 0
FW_DL_VLAN = 1 << 1
FW_DL_SRC = 1 << 2
FW_DL_DST = 1 << 3
FW_DL_TYPE = 1 << 4
FW_NW_PROTO = 1 << 5
FW_TP_SRC = 1 << 6
FW_TP_DST = 1 << 7
FW_NW_SRC_SHIFT = 8
FW_NW_DST_SHIFT = 14
FW_NW_SRC_ALL = 32 << 8
FW_NW_DST_ALL = 32 << 14
FW_DL_VLAN_PCP = 1 << 20
FW_NW_TOS = 1 << 21
FW_ALL = (1 << 22) - 1

(ST_DESC, ST_FLOW, ST_AGGREGATE, ST_TABLE, ST_PORT, ST_QUEUE) = range(6)
ST_VENDOR = 0xffff

PC_PORT_DOWN, PC_NO_STP, PC_NO_RECV, PC_NO_RECV_STP, PC_NO_FLOOD, PC_NO_FWD, \
    PC_NO_PACKET_IN = (1 << i for i in range(7))
PS_LINK_DOWN = 1


def mac(x):
  if isinstance(x, bytes):
    assert len(x) == 6
    return x
  if isinstance(x, int):
    return x.to_bytes(6, "big")
  return bytes(int(p, 16) for p in x.split(":"))


def ip(x):
  if isinstance(x, bytes):
    return x
  if isinstance(x, int):
    return struct.pack("!I", x)
  return bytes(int(p) for p in x.split("."))


def header(typ, length, xid=0, version=OFP_VERSION):
  return struct.pack("!BBHI", version, typ, length & 0xffff, xid & 0xffffffff)


def msg(typ, body=b"", xid=0):
  return header(typ, 8 + len(body), xid) + body


# ---- match
MATCH_DEFAULT = dict(wildcards=FW_ALL, in_port=0, dl_src=b"\0" * 6,
                     dl_dst=b"\0" * 6, dl_vlan=0, dl_vlan_pcp=0, dl_type=0,
                     nw_tos=0, nw_proto=0, nw_src=0, nw_dst=0, tp_src=0,
                     tp_dst=0)


def match(**kw):
  m = dict(MATCH_DEFAULT)
  m.update(kw)
  return struct.pack("!IH6s6sHBxHBBxx4s4sHH", m["wildcards"], m["in_port"],
                     mac(m["dl_src"]), mac(m["dl_dst"]), m["dl_vlan"],
                     m["dl_vlan_pcp"], m["dl_type"], m["nw_tos"],
                     m["nw_proto"], ip(m["nw_src"]), ip(m["nw_dst"]),
                     m["tp_src"], m["tp_dst"])


def parse_match(b):
  (w, inp, src, dst, vlan, pcp, typ, tos, proto, nsrc, ndst, tsrc,
   tdst) = struct.unpack("!IH6s6sHBxHBBxx4s4sHH", b[:40])
  return dict(wildcards=w, in_port=inp, dl_src=src.hex(), dl_dst=dst.hex(),
              dl_vlan=vlan, dl_vlan_pcp=pcp, dl_type=typ, nw_tos=tos,
              nw_proto=proto, nw_src=nsrc.hex(), nw_dst=ndst.hex(),
              tp_src=tsrc, tp_dst=tdst)


# ---- actions
def a_output(port, max_len=0xffff):
  return struct.pack("!HHHH", 0, 8, port, max_len)


def a_vlan_vid(v):
  return struct.pack("!HHHxx", 1, 8, v)


def a_vlan_pcp(v):
  return struct.pack("!HHBxxx", 2, 8, v)


def a_strip_vlan():
  return struct.pack("!HHxxxx", 3, 8)


def a_dl_src(a):
  return struct.pack("!HH6sxxxxxx", 4, 16, mac(a))


def a_dl_dst(a):
  return struct.pack("!HH6sxxxxxx", 5, 16, mac(a))


def a_nw_src(a):
  return struct.pack("!HH4s", 6, 8, ip(a))


def a_nw_dst(a):
  return struct.pack("!HH4s", 7, 8, ip(a))


def a_nw_tos(v):
  return struct.pack("!HHBxxx", 8, 8, v)


def a_tp_src(v):
  return struct.pack("!HHHxx", 9, 8, v)


def a_tp_dst(v):
  return struct.pack("!HHHxx", 10, 8, v)


def a_enqueue(port, queue):
  return struct.pack("!HHHxxxxxxI", 11, 16, port, queue)


def a_vendor(vendor, body=b""):
  pad = (-len(body)) % 8
  return struct.pack("!HHI", 0xffff, 8 + len(body) + pad, vendor) + body + \
      b"\0" * pad


def parse_actions(b):
  out = []
  off = 0
  while off + 4 <= len(b):
    t, l = struct.unpack_from("!HH", b, off)
    if l < 4:
      out.append(dict(type=t, bad_len=l))
      break
    out.append(dict(type=t, len=l, body=b[off + 4:off + l].hex()))
    off += l
  return out


# ---- controller -> switch
def hello(xid=0):
  return msg(HELLO, b"", xid)


def echo_request(body=b"", xid=0):
  return msg(ECHO_REQUEST, body, xid)


def echo_reply(body=b"", xid=0):
  return msg(ECHO_REPLY, body, xid)


def features_request(xid=0):
  return msg(FEATURES_REQUEST, b"", xid)


def get_config_request(xid=0):
  return msg(GET_CONFIG_REQUEST, b"", xid)


def set_config(flags=0, miss_send_len=128, xid=0):
  return msg(SET_CONFIG, struct.pack("!HH", flags, miss_send_len), xid)


def barrier_request(xid=0):
  return msg(BARRIER_REQUEST, b"", xid)


def vendor(vendor_id, data=b"", xid=0):
  return msg(VENDOR, struct.pack("!I", vendor_id) + data, xid)


def flow_mod(match_bytes=None, cookie=0, command=FC_ADD, idle=0, hard=0,
             priority=0x8000, buffer_id=NO_BUFFER, out_port=OFPP_NONE,
             flags=0, actions=b"", xid=0):
  if match_bytes is None:
    match_bytes = match()
  body = match_bytes + struct.pack("!QHHHHIHH", cookie, command, idle, hard,
                                   priority, buffer_id, out_port, flags)
  return msg(FLOW_MOD, body + actions, xid)


def packet_out(buffer_id=NO_BUFFER, in_port=OFPP_NONE, actions=b"", data=b"",
               xid=0):
  body = struct.pack("!IHH", buffer_id, in_port, len(actions))
  return msg(PACKET_OUT, body + actions + data, xid)


def port_mod(port_no, hw_addr, config=0, mask=0, advertise=0, xid=0):
  return msg(PORT_MOD, struct.pack("!H6sIIIxxxx", port_no, mac(hw_addr),
                                   config, mask, advertise), xid)


def stats_request(stype, body=b"", flags=0, xid=0):
  return msg(STATS_REQUEST, struct.pack("!HH", stype, flags) + body, xid)


def flow_stats_request_body(match_bytes=None, table_id=0xff,
                            out_port=OFPP_NONE):
  if match_bytes is None:
    match_bytes = match()
  return match_bytes + struct.pack("!BxH", table_id, out_port)


def port_stats_request_body(port_no=OFPP_NONE):
  return struct.pack("!Hxxxxxx", port_no)


def queue_stats_request_body(port_no=OFPP_ALL, queue_id=0xffffffff):
  return struct.pack("!HxxI", port_no, queue_id)


def queue_get_config_request(port, xid=0):
  return msg(QUEUE_GET_CONFIG_REQUEST, struct.pack("!Hxx", port), xid)


# ---- switch -> controller (to feed the controller side)
def phy_port(port_no, hw_addr, name, config=0, state=0, curr=0, advertised=0,
             supported=0, peer=0):
  if isinstance(name, str):
    name = name.encode()
  return struct.pack("!H6s16sIIIIII", port_no, mac(hw_addr), name, config,
                     state, curr, advertised, supported, peer)


def features_reply(dpid, ports=(), n_buffers=0, n_tables=1, capabilities=0,
                   actions=0, xid=0):
  body = struct.pack("!QIBxxxII", dpid, n_buffers, n_tables, capabilities,
                     actions)
  return msg(FEATURES_REPLY, body + b"".join(ports), xid)


def barrier_reply(xid=0):
  return msg(BARRIER_REPLY, b"", xid)


def error(etype, code, data=b"", xid=0):
  return msg(ERROR, struct.pack("!HH", etype, code) + data, xid)


def port_status(reason, port_bytes, xid=0):
  return msg(PORT_STATUS, struct.pack("!Bxxxxxxx", reason) + port_bytes, xid)


def packet_in(buffer_id, total_len, in_port, reason, data, xid=0):
  return msg(PACKET_IN, struct.pack("!IHHBx", buffer_id, total_len, in_port,
                                    reason) + data, xid)


def stats_reply(stype, body=b"", flags=0, xid=0):
  return msg(STATS_REPLY, struct.pack("!HH", stype, flags) + body, xid)


def flow_stats_entry(match_bytes=None, table_id=0, duration_sec=0,
                     duration_nsec=0, priority=0x8000, idle=0, hard=0,
                     cookie=0, packet_count=0, byte_count=0, actions=b""):
  if match_bytes is None:
    match_bytes = match()
  ln = 88 + len(actions)
  return (struct.pack("!HBx", ln, table_id) + match_bytes +
          struct.pack("!IIHHHxxxxxxQQQ", duration_sec, duration_nsec,
                      priority, idle, hard, cookie, packet_count,
                      byte_count) + actions)


def port_stats_entry(port_no, vals=None):
  vals = list(vals or [0] * 12)
  return struct.pack("!Hxxxxxx12Q", port_no, *vals)


def table_stats_entry(table_id=0, name=b"t", wildcards=FW_ALL, max_entries=1,
                      active=0, lookup=0, matched=0):
  return struct.pack("!Bxxx32sIIIQQ", table_id, name, wildcards, max_entries,
                     active, lookup, matched)


def queue_stats_entry(port_no, queue_id, tx_bytes=0, tx_packets=0,
                      tx_errors=0):
  return struct.pack("!HxxIQQQ", port_no, queue_id, tx_bytes, tx_packets,
                     tx_errors)


def desc_stats_body(mfr=b"m", hw=b"h", sw=b"s", serial=b"1", dp=b"d"):
  return struct.pack("!256s256s256s32s256s", mfr, hw, sw, serial, dp)


def flow_removed(match_bytes, cookie, priority, reason, dsec, dnsec, idle,
                 pkts, byts, xid=0):
  return msg(FLOW_REMOVED, match_bytes + struct.pack(
      "!QHBxIIHxxQQ", cookie, priority, reason, dsec, dnsec, idle, pkts,
      byts), xid)


# ---- parser for bytes written by POX
class ParseError(Exception):
  pass


def split(stream):
  """Split a byte stream into messages using the header length only."""
  msgs = []
  off = 0
  while off < len(stream):
    if len(stream) - off < 8:
      raise ParseError("trailing %d bytes" % (len(stream) - off))
    v, t, l, x = struct.unpack_from("!BBHI", stream, off)
    if l < 8 or off + l > len(stream):
      raise ParseError("bad length %d at %d (have %d)" %
                       (l, off, len(stream) - off))
    msgs.append(stream[off:off + l])
    off += l
  return msgs


def _cstr(b):
  return b.split(b"\0", 1)[0].decode("latin-1")


def parse_phy_port(b):
  no, hw, name, config, state, curr, adv, sup, peer = struct.unpack(
      "!H6s16sIIIIII", b[:48])
  return dict(port_no=no, hw_addr=hw.hex(), name=_cstr(name), config=config,
              state=state, curr=curr, advertised=adv, supported=sup,
              peer=peer)


def parse(m):
  """Decode one complete message into a dict (kind-specific essentials)."""
  v, t, l, x = struct.unpack_from("!BBHI", m, 0)
  d = dict(version=v, type=t, name=TYPE_NAMES[t] if t < 22 else "T%d" % t,
           len=l, xid=x)
  if l != len(m):
    raise ParseError("length field %d != %d" % (l, len(m)))
  b = m[8:]
  if t == PACKET_IN:
    if len(b) < 10:
      raise ParseError("short packet_in")
    buf, total, inp, reason = struct.unpack_from("!IHHB", b, 0)
    d.update(buffer_id=buf, total_len=total, in_port=inp, reason=reason,
             data=b[10:])
  elif t == ERROR:
    et, ec = struct.unpack_from("!HH", b, 0)
    d.update(etype=et, code=ec, data=b[4:])
  elif t in (ECHO_REQUEST, ECHO_REPLY):
    d.update(body=b)
  elif t == FLOW_REMOVED:
    if len(b) != 80:
      raise ParseError("flow_removed size %d" % len(m))
    d.update(match=parse_match(b))
    (cookie, prio, reason, dsec, dnsec, idle, pkts,
     byts) = struct.unpack_from("!QHBxIIHxxQQ", b, 40)
    d.update(cookie=cookie, priority=prio, reason=reason, duration_sec=dsec,
             duration_nsec=dnsec, idle_timeout=idle, packet_count=pkts,
             byte_count=byts)
  elif t == PORT_STATUS:
    if len(b) != 56:
      raise ParseError("port_status size")
    d.update(reason=b[0], desc=parse_phy_port(b[8:]))
  elif t == FEATURES_REPLY:
    dpid, nbuf, ntab, caps, acts = struct.unpack_from("!QIBxxxII", b, 0)
    if (len(b) - 24) % 48:
      raise ParseError("features ports size")
    ports = [parse_phy_port(b[24 + i * 48:]) for i in
             range((len(b) - 24) // 48)]
    d.update(datapath_id=dpid, n_buffers=nbuf, n_tables=ntab,
             capabilities=caps, actions=acts, ports=ports)
  elif t == GET_CONFIG_REPLY:
    if len(b) != 4:
      raise ParseError("config size")
    fl, ml = struct.unpack("!HH", b)
    d.update(flags=fl, miss_send_len=ml)
  elif t == STATS_REPLY:
    st, fl = struct.unpack_from("!HH", b, 0)
    body = b[4:]
    d.update(stype=st, flags=fl)
    if st == ST_DESC:
      if len(body) != 1056:
        raise ParseError("desc size %d" % len(body))
      d.update(mfr=_cstr(body[:256]), hw=_cstr(body[256:512]),
               sw=_cstr(body[512:768]), serial=_cstr(body[768:800]),
               dp=_cstr(body[800:]))
    elif st == ST_FLOW:
      flows = []
      off = 0
      while off < len(body):
        ln, tid = struct.unpack_from("!HB", body, off)
        if ln < 88 or off + ln > len(body):
          raise ParseError("flow_stats entry len %d" % ln)
        e = dict(table_id=tid, match=parse_match(body[off + 4:off + 44]))
        (dsec, dnsec, prio, idle, hard, cookie, pkts,
         byts) = struct.unpack_from("!IIHHHxxxxxxQQQ", body, off + 44)
        e.update(duration_sec=dsec, duration_nsec=dnsec, priority=prio,
                 idle_timeout=idle, hard_timeout=hard, cookie=cookie,
                 packet_count=pkts, byte_count=byts,
                 actions=parse_actions(body[off + 88:off + ln]))
        flows.append(e)
        off += ln
      d.update(flows=flows)
    elif st == ST_AGGREGATE:
      if len(body) != 24:
        raise ParseError("aggregate size %d" % len(body))
      p, by, fc = struct.unpack_from("!QQI", body, 0)
      d.update(packet_count=p, byte_count=by, flow_count=fc)
    elif st == ST_TABLE:
      if len(body) % 64:
        raise ParseError("table_stats size %d" % len(body))
      tabs = []
      for i in range(len(body) // 64):
        (tid, name, wc, mx, act, look,
         mat) = struct.unpack_from("!Bxxx32sIIIQQ", body, i * 64)
        tabs.append(dict(table_id=tid, name=_cstr(name), wildcards=wc,
                         max_entries=mx, active_count=act, lookup_count=look,
                         matched_count=mat))
      d.update(tables=tabs)
    elif st == ST_PORT:
      if len(body) % 104:
        raise ParseError("port_stats size %d" % len(body))
      ps = []
      for i in range(len(body) // 104):
        vals = struct.unpack_from("!Hxxxxxx12Q", body, i * 104)
        ps.append(dict(port_no=vals[0], rx_packets=vals[1],
                       tx_packets=vals[2], rx_bytes=vals[3],
                       tx_bytes=vals[4], rest=list(vals[5:])))
      d.update(ports=ps)
    elif st == ST_QUEUE:
      if len(body) % 32:
        raise ParseError("queue_stats size %d" % len(body))
      d.update(queues=len(body) // 32)
    else:
      d.update(body=body)
  elif t == QUEUE_GET_CONFIG_REPLY:
    if len(b) < 8:
      raise ParseError("queue config size")
    d.update(port=struct.unpack_from("!H", b, 0)[0], queues_len=len(b) - 8)
  elif t == VENDOR:
    d.update(vendor=struct.unpack_from("!I", b, 0)[0], data=b[4:])
  elif t in (HELLO, BARRIER_REPLY, BARRIER_REQUEST, FEATURES_REQUEST,
             GET_CONFIG_REQUEST):
    d.update(body=b)
  elif t == FLOW_MOD:
    d.update(match=parse_match(b))
    (cookie, cmd, idle, hard, prio, buf, outp,
     flags) = struct.unpack_from("!QHHHHIHH", b, 40)
    d.update(cookie=cookie, command=cmd, idle_timeout=idle, hard_timeout=hard,
             priority=prio, buffer_id=buf, out_port=outp, flags=flags,
             actions=parse_actions(b[64:]))
  elif t == PACKET_OUT:
    buf, inp, alen = struct.unpack_from("!IHH", b, 0)
    d.update(buffer_id=buf, in_port=inp, actions=parse_actions(b[8:8 + alen]),
             data=b[8 + alen:])
  elif t == PORT_MOD:
    no, hw, config, mask, adv = struct.unpack_from("!H6sIII", b, 0)
    d.update(port_no=no, hw_addr=hw.hex(), config=config, mask=mask,
             advertise=adv)
  elif t == STATS_REQUEST:
    st, fl = struct.unpack_from("!HH", b, 0)
    d.update(stype=st, flags=fl, body=b[4:])
  elif t == SET_CONFIG:
    fl, ml = struct.unpack("!HH", b[:4])
    d.update(flags=fl, miss_send_len=ml)
  else:
    d.update(body=b)
  return d


def parse_stream(stream):
  return [parse(m) for m in split(stream)]


# ---- Ethernet frames (enough for switch-side properties)
def eth(dst, src, ethertype, payload=b""):
  return mac(dst) + mac(src) + struct.pack("!H", ethertype) + payload


def pad_to(frame, n):
  if len(frame) < n:
    frame += bytes((i * 7 + 3) & 0xff for i in range(n - len(frame)))
  return frame


def csum(data):
  """RFC 1071 ones-complement checksum."""
  if len(data) % 2:
    data += b"\0"
  s = sum(struct.unpack("!%dH" % (len(data) // 2), data))
  while s >> 16:
    s = (s & 0xffff) + (s >> 16)
  return (~s) & 0xffff
