"""Run one hand-off scenario of the real recoco code under the thread controller."""
import select as _select

from harness.threadctl import (Controller, ThreadingShim, TDeque, TPinger, TEvent, TLock, TQueue,
                               recoco, putil, NOARG)

from harness import poxenv
import pox.lib.revent.revent as revent

core = poxenv.boot()

CL = ["CL", "", 0, 0]
TT = ["T", "", 0, 0]


class FakeThread(object):
  def __init__(self, *a, **k):
    self.daemon = True

  def start(self):
    pass


def kind_of(task):
  v = getattr(task, "vname", None)
  return v[0] if v else "?"


def run_scenario(progs, threaded, seed=0, policy="random", schedule=None, max_steps=4000):
  """progs: {1: [ops], 2: [ops]} with ops in call|sched|sync.  Returns dict(events, end, ...)."""
  ctl = Controller(seed, policy, schedule)
  shim = ThreadingShim(ctl)

  class QLock(TLock):
    """lock that is silent until it gets a name (fresh locks are thread-private)"""
    def __init__(self):
      TLock.__init__(self, ctl, "anon")
      self.traced = False

    def acquire(self, blocking=True, timeout=-1):
      if not self.traced:
        self.held = True
        return True
      return TLock.acquire(self, blocking, timeout)

    def release(self):
      if not self.traced:
        self.held = False
        return
      return TLock.release(self)

  shim.Lock = QLock
  shim.Event = lambda: TEvent(ctl, "ev")

  saved = dict(threading=recoco.threading, Thread=recoco.Thread, makePinger=putil.makePinger,
               cl_init=recoco.CallLaterTask.__init__, st_init=recoco.ScheduleTask.__init__,
               sy_init=recoco.SyncTask.__init__, default=recoco.defaultScheduler)
  pingers = []

  def mk_pinger():
    p = TPinger(ctl, "hubpipe" if not pingers else "clpipe", saved["makePinger"]())
    pingers.append(p)
    return p

  def cl_init(self):
    saved["cl_init"](self)
    self._calls = TDeque(ctl, "calls")
    self.vname = CL

  def st_init(self, scheduler, task):
    saved["st_init"](self, scheduler, task)
    me = ctl.me()
    f = int(me.name[1:]) if me and me.name.startswith("F") else 0
    self.vname = ["ST", kind_of(task), f, me.opix if me else 0]

  def sy_init(self, *a, **k):
    saved["sy_init"](self, *a, **k)
    me = ctl.me()
    f = int(me.name[1:]) if me and me.name.startswith("F") else 0
    self.vname = ["SY", "", f, 0]
    for nm, lk in (("inlock", self.inlock), ("outlock", self.outlock)):
      lk.nm = nm
      lk.arg = ["L", "", f, 0]
      lk.traced = True

  recoco.threading = shim
  putil.makePinger = mk_pinger
  recoco.CallLaterTask.__init__ = cl_init
  recoco.ScheduleTask.__init__ = st_init
  recoco.SyncTask.__init__ = sy_init
  recoco.Thread = FakeThread
  result = {}
  try:
    sched = recoco.Scheduler(isDefaultScheduler=True, startInThread=False, threaded_selecthub=threaded)
    recoco.defaultScheduler = sched
    saved["core_sched"] = core.scheduler
    core.scheduler = sched
    recoco.Thread = saved["Thread"]
    sched._ready = TDeque(ctl, "ready")
    sched._lock.nm = "slock"
    sched._lock.arg = None
    sched._lock.traced = True
    hub = sched._selectHub
    hub._incoming = TQueue(ctl, "incoming")
    if threaded:
      hub._event = TEvent(ctl, "ev")

    def ctl_select(rl, wl, xl, timeout):
      rl = list(rl)

      def poll():
        return _select.select(rl, [], [], 0)[0]

      def code(r):
        names = sorted(getattr(x, "nm", "?") for x in r[0])
        return "+".join(names)
      return ctl.op("hub.select", None, lambda: (poll(), [], []), enabled=lambda: bool(poll()), res=code)
    hub._select_func = ctl_select

    class TTask(recoco.BaseTask):
      vname = TT

      def run(self):
        while True:
          ctl.op("run", TT, lambda: None)
          yield False
    ttask = TTask()

    def make_cb(f, i):
      def cb():
        ctl.op("run", ["F", "", f, i], lambda: None)
        if i == 1:
          # the first function each foreign thread hands over FAILS after it has run: that is the function's
          # business - every other function handed over must still run exactly once (Threads.tla: a failing
          # function is a function that has run; nothing else in the model depends on it)
          raise RuntimeError("call-later'd function fails (scripted)")
      cb.vname = ["F", "", f, i]
      return cb

    class Ping(revent.Event):
      pass

    class Src(revent.EventMixin):
      _eventMixin_events = set([Ping])

    def make_src(f, i):
      src = Src()
      src.vname = ["F", "", f, i]
      src.addListener(Ping, lambda ev: ctl.op("run", ["F", "", f, i], lambda: None))
      return src

    def foreign(f, prog):
      def body():
        me = ctl.me()
        for i, op in enumerate(prog, 1):
          me.opix = i
          if op == "call":
            # through the public wrappers of pox.core: call_later / raiseLater
            if i % 2 == 1:
              core.call_later(make_cb(f, i))
            else:
              core.raiseLater(make_src(f, i), Ping)
          elif op == "sched":
            sched.schedule(ttask)
          elif op == "sync":
            with sched.synchronized():
              ctl.op("cs.enter", ["L", "", f, 0], lambda: None)
              ctl.op("cs.exit", ["L", "", f, 0], lambda: None)
          else:
            raise ValueError(op)
      return body

    s = ctl.spawn("S", sched.run)
    sched._thread = s.thread
    if threaded:
      ctl.spawn("H", hub._threadProc)
    fts = [ctl.spawn("F%d" % f, foreign(f, prog)) for f, prog in sorted(progs.items())]
    end = ctl.run(max_steps)
    result = dict(events=ctl.events, end=end, errors=list(ctl.errors),
                  foreign_done=all(t.done for t in fts),
                  ready=sched._ready.snapshot(),
                  choices=ctl.choices)
    sched._hasQuit = True
    ctl.shutdown()
  finally:
    recoco.threading = saved["threading"]
    recoco.Thread = saved["Thread"]
    putil.makePinger = saved["makePinger"]
    recoco.CallLaterTask.__init__ = saved["cl_init"]
    recoco.ScheduleTask.__init__ = saved["st_init"]
    recoco.SyncTask.__init__ = saved["sy_init"]
    recoco.defaultScheduler = saved["default"]
    if "core_sched" in saved:
      core.scheduler = saved["core_sched"]
    for p in pingers:
      p.close()
  return result


if __name__ == "__main__":
  import sys
  r = run_scenario({1: ["call", "sync"], 2: ["sched"]}, threaded=(sys.argv[1] == "t"), seed=int(sys.argv[2]))
  for e in r["events"]:
    print(e["th"], e["op"], e["arg"], e["res"])
  print(r["end"], r["errors"], r["foreign_done"], r["ready"])
