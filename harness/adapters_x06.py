"""X06 adapter: NatTable.tla actions -> the real pox.misc.nat.NAT over a real SoftwareSwitch.

Every step performs the spec action on the real code (frames in on switch ports, virtual time, the NAT's own
Timer) and returns the observation in exactly the JSON shape of the spec's `exp`:

  pin    packet-ins the step caused          fms   flow-mods the controller sent, in order, abstracted
  em     IP frames that left ports           arp   ARP frames that left ports
  rnd    calls of nat's random source        frem  FLOW_REMOVED messages        err  exceptions escaping handlers
  tbl / used / gw   projection of NAT._record_by_outgoing/_record_by_incoming, _used_ports, _gateway_eth
  nflows entries in the switch's flow table  due   the NAT's expiry Timer is due now

Symbols of the spec are mapped injectively to concrete addresses here; anything the code produces that has no
symbol is rendered as "?<value>", which no spec action yields.
"""
import struct

from harness import rawbytes as rb
from harness import x06_net as X

UNIT = 30            # seconds per spec time unit (NatTable!Unit)

MAC = {"h1": "00:00:00:00:aa:01", "h2": "00:00:00:00:aa:02", "h3": "00:00:00:00:aa:03",
       "lan1": X.PORT_MAC[1], "lan2": X.PORT_MAC[2], "wan": X.PORT_MAC[3],
       "gw": X.GATEWAY_MAC, "gw2": "00:00:00:00:99:03", "other": X.OTHER_MAC, "bcast": "ff:ff:ff:ff:ff:ff"}
IP = {"h1": "172.16.1.101", "h2": "172.16.1.102", "h3": "172.16.1.103", "in": X.INSIDE_IP, "out": X.OUTSIDE_IP,
      "gwip": X.GATEWAY_IP, "dns": X.DNS_IP, "r1": "198.51.100.10", "r2": "192.0.2.20"}
HOST_PORT = {"h1": 1, "h2": 2}
RMAC = {v: k for k, v in MAC.items()}
RIP = {v: k for k, v in IP.items()}
WC = {3145730: "nat_out", 3145738: "nat_in", 0: "exact", 1048606: "port", 3153966: "port_ip_dst"}
ACT = {4: "dl_src", 5: "dl_dst", 6: "nw_src", 7: "nw_dst", 9: "tp_src", 10: "tp_dst", 0: "output"}
OTHER_ACTIONS = ("Start", "ArpReply", "ArpRequest", "Other", "Advance", "Expire")


def mac_sym(x):
  """x: 'aa:bb:..' or 12 hex digits"""
  if ":" not in x:
    x = ":".join(x[i:i + 2] for i in range(0, 12, 2))
  return RMAC.get(x, "?" + x)


def ip_sym(x):
  if "." not in x:
    x = ".".join(str(int(x[i:i + 2], 16)) for i in range(0, 8, 2))
  return RIP.get(x, "?" + x)


def lan(h):
  return "lan%d" % HOST_PORT[h]


def skey(x):
  import json
  return json.dumps(x, sort_keys=True)


class Adapter(object):
  def __init__(self, dns=True, max_buffers=16, dpid=1, memT=None):
    """memT: the memory timeout in spec units, configured through nat.FLOW_MEMORY_TIMEOUT (None = as shipped)"""
    self.consts = {} if memT is None else {"FLOW_MEMORY_TIMEOUT": memT * UNIT}
    self.dns = dns
    self.max_buffers = max_buffers
    self.dpid = dpid
    self.net = None

  def close(self):
    if self.net is not None:
      self.net.close()

  # ------------------------------------------------------------------ abstraction of what was observed
  def _fm(self, m, pkt):
    mt = m["match"]
    wc = WC.get(mt["wildcards"], "?%d" % mt["wildcards"])
    if m["command"] != rb.FC_ADD:
      wc = "?cmd%d" % m["command"]
    w = mt["wildcards"]
    star_dl = lambda bit, v: "*" if w & bit else mac_sym(v)
    nw_src_w = (w >> 8) & 0x3f
    nw_dst_w = (w >> 14) & 0x3f
    acts = []
    for a in m["actions"]:
      t = ACT.get(a["type"], "?%d" % a["type"])
      body = bytes.fromhex(a["body"])
      s, n = "", 0
      if t in ("dl_src", "dl_dst"):
        s = mac_sym(body[:6].hex())
      elif t in ("nw_src", "nw_dst"):
        s = ip_sym(body[:4].hex())
      elif t in ("tp_src", "tp_dst"):
        n = struct.unpack("!H", body[:2])[0]
      elif t == "output":
        n = struct.unpack("!H", body[:2])[0]
      acts.append({"t": t, "s": s, "n": n})
    typed = not (w & rb.FW_DL_TYPE)
    return {"wc": wc, "inport": 0 if w & rb.FW_IN_PORT else mt["in_port"],
            "es": star_dl(rb.FW_DL_SRC, mt["dl_src"]), "ed": star_dl(rb.FW_DL_DST, mt["dl_dst"]),
            "sip": "*" if (nw_src_w >= 32 or not typed) else ip_sym(mt["nw_src"]),
            "dip": "*" if (nw_dst_w >= 32 or not typed) else ip_sym(mt["nw_dst"]),
            "sp": 0 if (w & rb.FW_TP_SRC or not typed) else mt["tp_src"],
            "dp": 0 if (w & rb.FW_TP_DST or not typed) else mt["tp_dst"],
            "pr": 0 if (w & rb.FW_NW_PROTO or not typed) else mt["nw_proto"],
            "acts": acts, "idle": m["idle_timeout"], "hard": m["hard_timeout"], "prio": m["priority"],
            "flags": m["flags"], "pkt": pkt}

  def _frame(self, port, fr):
    d = X.decode_frame(fr)
    if d["kind"] == "arp":
      e = {"port": port, "op": d["op"], "es": mac_sym(d["es"]), "ed": mac_sym(d["ed"]), "sha": mac_sym(d["sha"]),
           "spa": ip_sym(d["spa"]), "tha": mac_sym(d["tha"]), "tpa": ip_sym(d["tpa"])}
      if not d["std"]:
        e["bad"] = "arp header"
      return "arp", e
    if d["kind"] == "ip" and "sport" in d:
      e = {"port": port, "es": mac_sym(d["es"]), "ed": mac_sym(d["ed"]), "sip": ip_sym(d["sip"]),
           "dip": ip_sym(d["dip"]), "sp": d["sport"], "dp": d["dport"], "pr": d["proto"]}
      bad = []
      if d["payload"] != X.PAYLOAD:
        bad.append("payload")
      if (d["ttl"], d["tos"], d["ident"]) != (64, 0, 0x1234):
        bad.append("ip header")
      if not d["ipcsum_ok"]:
        bad.append("ip checksum")
      if not d["l4csum_ok"]:
        bad.append("l4 checksum")
      if bad:
        e["bad"] = bad
      return "em", e
    return "em", {"port": port, "raw": fr[:40].hex()}

  def _project(self):
    nat = self.net.nat
    tbl = []
    out, inc = nat._record_by_outgoing, nat._record_by_incoming
    for k, r in out.items():
      om, im = r.outgoing_match, r.incoming_match
      e = {"h": ip_sym(str(om.nw_src)), "sp": om.tp_src, "d": ip_sym(str(om.nw_dst)), "dp": om.tp_dst,
           "pr": om.nw_proto, "fake": r.fake_srcport if r.fake_srcport is not None else 0,
           "g": mac_sym(str(im.dl_src))}
      bad = []
      if k != om or r.real_srcport != om.tp_src or mac_sym(str(om.dl_src)) != e["h"]:
        bad.append("outgoing key")
      if inc.get(im) is not r:
        bad.append("not indexed by its incoming match")
      if r.fake_srcport is not None and (im.tp_dst != r.fake_srcport or im.tp_src != om.tp_dst or
                                         im.nw_proto != om.nw_proto or str(im.nw_dst) != X.OUTSIDE_IP):
        bad.append("incoming key")
      if bad:
        e["inconsistent"] = bad
      tbl.append(e)
    if len(inc) != len(out):
      tbl.append({"inconsistent": "%d incoming vs %d outgoing records" % (len(inc), len(out))})
    used = [{"pr": pr, "port": p if p is not None else 0} for pr, p in nat._used_ports]
    g = nat._gateway_eth
    return (sorted(tbl, key=skey), sorted(used, key=skey), "none" if g is None else mac_sym(str(g)))

  def _obs(self, r, rnd_calls=(), start=False):
    pin = sum(1 for m in r["s2c"] if m["type"] == rb.PACKET_IN)
    frem = sum(1 for m in r["s2c"] if m["type"] == rb.FLOW_REMOVED)
    fms = []
    msgs = [m for m in r["c2s"] if m["type"] in (rb.FLOW_MOD, rb.PACKET_OUT, rb.BARRIER_REQUEST)]
    i = 0
    while i < len(msgs):
      m = msgs[i]
      if m["type"] == rb.FLOW_MOD:
        w = m["match"]["wildcards"]
        if m["command"] == rb.FC_DELETE and not m["actions"] and w & rb.FW_IN_PORT and w & rb.FW_DL_TYPE:
          i += 1           # the connection handshake clearing the table (of_01), not the NAT
          continue
        if m["command"] == rb.FC_ADD and m["match"]["dl_type"] == 0x0806 and m["priority"] == 0x8000 - 0x1000:
          i += 1           # the ARP helper's own entry (sends ARP to the controller)
          continue
        pkt = m["buffer_id"] != rb.NO_BUFFER
        # an unbuffered packet travels as flow-mod, barrier, packet-out(data, the same actions)
        if not pkt and i + 2 < len(msgs) and msgs[i + 1]["type"] == rb.BARRIER_REQUEST \
            and msgs[i + 2]["type"] == rb.PACKET_OUT and msgs[i + 2]["actions"] == m["actions"] \
            and msgs[i + 2]["buffer_id"] == rb.NO_BUFFER and X.decode_frame(msgs[i + 2]["data"])["kind"] == "ip":
          fms.append(self._fm(m, True))
          i += 3
          continue
        fms.append(self._fm(m, pkt))
      elif m["type"] == rb.PACKET_OUT:
        d = X.decode_frame(m["data"]) if m["data"] else {"kind": "none"}
        if d["kind"] != "arp":       # ARP requests/replies show up as emitted frames
          fms.append({"wc": "?PACKET_OUT", "data": m["data"][:40].hex(), "buffer": m["buffer_id"]})
      elif not start:      # (the connection handshake has a barrier of its own)
        fms.append({"wc": "?BARRIER"})
      i += 1
    em, arp = [], []
    for p, fr in r["emitted"]:
      k, e = self._frame(p, fr)
      (arp if k == "arp" else em).append(e)
    rnd = len(rnd_calls)
    for c in rnd_calls:
      if tuple(c) != (49152, 65534):
        rnd = "randint%r" % (tuple(c),)
    tbl, used, gw = self._project()
    return {"pin": pin, "fms": fms, "em": sorted(em, key=skey), "arp": sorted(arp, key=skey), "rnd": rnd,
            "frem": frem, "err": len(r["errors"]), "tbl": tbl, "used": used,
            "nflows": len(self.net.flows()), "gw": gw, "due": self.net.timer_due()}

  # ------------------------------------------------------------------ the actions
  def step(self, a, args):
    if a == "Start":
      if self.net is not None:
        raise ValueError("Start twice")
      self.net = X.Net(dpid=self.dpid, max_buffers=self.max_buffers, dns=self.dns, late=bool(args["late"]),
                       consts=self.consts)
      return self._obs(self.net.bring_up(), start=True)
    net = self.net
    if a == "ArpReply":
      port = args["port"]
      fr = X.arp_frame(X.PORT_MAC[port], MAC[args["sha"]], 2, MAC[args["sha"]], IP[args["spa"]],
                       X.PORT_MAC[port], X.OUTSIDE_IP if port == X.OUT_PORT else X.INSIDE_IP)
      return self._obs(net.inject(port, fr))
    if a == "ArpRequest":
      asker = args["asker"]
      aip = IP["gwip"] if asker == "gw" else IP[asker]
      fr = X.arp_frame(MAC["bcast"], MAC[asker], 1, MAC[asker], aip, "00:00:00:00:00:00", IP[args["tpa"]])
      return self._obs(net.inject(args["port"], fr))
    if a == "Out":
      h = args["h"]
      fr = X.l4_frame(MAC[lan(h)], MAC[h], IP[h], IP[args["d"]], args["pr"], args["sp"], args["dp"])
      r = net.inject(HOST_PORT[h], fr, rnd=[args["rnd"]] if args["rnd"] else [])
      return self._obs(r, r["rnd_calls"])
    if a == "In":
      fr = X.l4_frame(MAC["wan"], MAC[args["via"]], IP[args["r"]], IP["out"], args["pr"], args["rp"], args["fp"])
      r = net.inject(X.OUT_PORT, fr)
      return self._obs(r, r["rnd_calls"])
    if a == "Other":
      k = args["kind"]
      if k == "icmp_out":
        r = net.inject(1, X.icmp_frame(MAC["lan1"], MAC["h1"], IP["h1"], IP["r1"]))
      elif k == "icmp_in":
        r = net.inject(X.OUT_PORT, X.icmp_frame(MAC["wan"], MAC["gw"], IP["r1"], IP["out"]))
      elif k == "in_other":
        r = net.inject(X.OUT_PORT, X.l4_frame(MAC["wan"], MAC["gw"], IP["r1"], IP["r2"], 6, 80, 5000))
      else:
        raise ValueError(k)
      return self._obs(r, r["rnd_calls"])
    if a == "Advance":
      net.tick(UNIT)
      return self._obs(net.take())
    if a == "Expire":
      net.run_timers()
      return self._obs(net.take())
    raise ValueError(a)

  def signature(self, st, obs):
    sig = {"action": st["a"]}
    exp = st["exp"]
    if st["a"] in ("Out", "In"):
      sig["case"] = st["args"].get("case")
    if isinstance(obs, dict) and "EXC" in obs:
      sig["observed"] = "exception:" + obs["EXC"]
      return sig
    if isinstance(obs, dict):
      sig["fields"] = sorted(k for k in exp if obs.get(k) != exp[k])
    return sig
