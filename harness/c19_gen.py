"""C19 scenario generators (environment histories in Topo.tla's vocabulary).

Only the ENVIRONMENT is generated here (wiring, which wires are up, switch
connects/disconnects, time steps, flood probes); what the controller does in
response is recorded from the real code and judged by TLC.
"""
import itertools
import random

DETECT = 6      # Cycle + Slack      (Topo.tla, default configuration)
EXPIRE = 16     # Timeout + CheckPeriod + Slack

DEFAULT_CFG = dict(to=10, flow=True, drop=True, eat=False, nofl=False, hold=False)
TIMEOUTS = [1, 2, 2, 3, 3, 4, 4, 4, 5, 7, 9, 10, 11, 20, 30]     # legal --link_timeout values tried
SENDS_PER_SEC = 15


def timing(cfg):
  """the derived times of Topo.tla for a configuration"""
  cyc = (cfg["to"] + 1) // 2
  modal = cfg["nofl"] or cfg["hold"]
  return dict(detect=cyc + 1, expire=cfg["to"] + 5 + 1, holdcap=cyc + 2,
              settle=(cyc + 2 if modal else cyc + 1))


def fits(cfg, n, np):
  """Topo.tla CfgFits: one probe per port and cycle within the sender's rate limit"""
  return 2 * n * np <= SENDS_PER_SEC * cfg["to"]


def random_cfg(rnd, n, np, modes=None):
  """a legal configuration for a net of n switches with np ports each"""
  tos = [t for t in TIMEOUTS if fits(dict(to=t), n, np)]
  c = dict(DEFAULT_CFG)
  c["to"] = rnd.choice(tos)
  nofl, hold = modes if modes is not None else rnd.choice([(False, False), (False, False), (True, True),
                                                            (True, True), (False, True), (True, False)])
  c["nofl"], c["hold"] = nofl, hold
  if rnd.random() < 0.4:
    c["flow"] = rnd.random() < 0.5
    c["drop"] = rnd.random() < 0.5
    c["eat"] = rnd.random() < 0.5
  return c


def flip(l):
  return [l[2], l[3], l[0], l[1]]


def full_universe(n, cables=2):
  """every pair of switches joined by `cables` cables; one host port each.
  Returns (np, list of cables as (wire a->b, wire b->a))."""
  np = cables * (n - 1) + 1

  def port(x, y, k):
    others = [z for z in range(1, n + 1) if z != x]
    return cables * others.index(y) + k + 1
  cab = []
  for a in range(1, n + 1):
    for b in range(a + 1, n + 1):
      for k in range(cables):
        w = [a, port(a, b, k), b, port(b, a, k)]
        cab.append((w, flip(w)))
  return np, cab


def static_scenario(n, bits, idx, cables=2, variant=0, seed=0, floods="all", cfg=None):
  """bits: one int per directed wire of the full universe (1 = up)."""
  if cfg is not None:
    return config_static(n, bits, idx, cables, variant, seed, floods, cfg)
  np, cab = full_universe(n, cables)
  wires = [w for c in cab for w in c]
  phys = [w for w, b in zip(wires, bits) if b]
  rnd = random.Random(seed * 1000003 + idx)
  order = list(range(1, n + 1))
  rnd.shuffle(order)
  steps = []
  if variant == 0:            # all switches connect at the same instant
    steps += [dict(a="SwitchUp", s=s) for s in order]
    steps.append(dict(a="Advance", d=DETECT))
  elif variant == 1:          # the network grows switch by switch
    for s in order:
      steps.append(dict(a="SwitchUp", s=s))
      steps.append(dict(a="Advance", d=DETECT))
  else:                       # connect, half a cycle, rest of the cycle
    steps += [dict(a="SwitchUp", s=s) for s in order]
    steps += [dict(a="Advance", d=2), dict(a="Advance", d=4)]
  src = range(1, n + 1) if floods == "all" else [1 + idx % n]
  steps += [dict(a="Flood", s=s, p=np) for s in src]
  return dict(n=n, np=np, wires=wires, phys=phys, steps=steps, seed=seed * 31 + idx,
              kind="static%d" % n)


def config_static(n, bits, idx, cables, variant, seed, floods, cfg):
  """a wiring brought up under a non-default configuration; the times are those of the configuration"""
  np, cab = full_universe(n, cables)
  wires = [w for c in cab for w in c]
  phys = [w for w, b in zip(wires, bits) if b]
  rnd = random.Random(seed * 1000003 + idx + 17)
  order = list(range(1, n + 1))
  rnd.shuffle(order)
  t = timing(cfg)
  steps = []
  if variant == 0:            # all at once; wait until every clause is in force again
    steps += [dict(a="SwitchUp", s=s) for s in order]
    steps.append(dict(a="Advance", d=t["settle"]))
  elif variant == 1:          # the network grows switch by switch
    for s in order:
      steps.append(dict(a="SwitchUp", s=s))
      steps.append(dict(a="Advance", d=t["detect"]))
    steps.append(dict(a="Advance", d=1))
  else:                       # all at once, then watched over several expiry checks
    steps += [dict(a="SwitchUp", s=s) for s in order]
    steps += [dict(a="Advance", d=1), dict(a="Advance", d=t["detect"]), dict(a="Advance", d=t["expire"]),
              dict(a="Advance", d=5), dict(a="Advance", d=rnd.choice([1, 2, 3, 4, 5, 6]))]
  src = range(1, n + 1) if floods == "all" else [1 + idx % n]
  steps += [dict(a="Flood", s=s, p=np) for s in src]
  return dict(n=n, np=np, wires=wires, phys=phys, steps=steps, seed=seed * 31 + idx,
              kind="cfgstatic%d" % n, cfg=dict(cfg))


def all_static(n, cables=2, seed=0, limit=None, variants=(0, 1, 2), canonical=False, floods="all"):
  """every wiring of the full universe (each directed wire up or down).
  canonical=True keeps one representative per class of wirings that differ
  only by swapping the two parallel cables of a pair (the concretisation
  gives the cables random port numbers anyway)."""
  np, cab = full_universe(n, cables)
  nw = 2 * len(cab)
  total = 1 << nw

  def is_canon(i):
    # wires are ordered pair by pair: (c0 fwd, c0 back, c1 fwd, c1 back)
    for k in range(0, nw, 2 * cables):
      st = [(i >> (k + 2 * c)) & 3 for c in range(cables)]
      if st != sorted(st):
        return False
    return True
  if limit is None or limit >= total:
    idxs = range(total)
  else:
    rnd = random.Random(seed * 77 + n)
    idxs = sorted(rnd.sample(range(total), limit))
  out = []
  for i in idxs:
    if canonical and not is_canon(i):
      continue
    bits = [(i >> k) & 1 for k in range(nw)]
    out.append(static_scenario(n, bits, i, cables, variant=variants[i % len(variants)], seed=seed,
                               floods=floods))
  return out


def flight_scenario(n, bits, idx, cables=2, seed=0, cfg=None, variant=None):
  """a wiring is brought up and discovered; probes over some of its live wires are delayed; then the
  environment changes in one of the ways below BEFORE the delayed probes reach the controller (Topo.tla
  Delay / Late); then the network settles again and is flooded."""
  np, cab = full_universe(n, cables)
  wires = [w for c in cab for w in c]
  phys = [w for w, b in zip(wires, bits) if b]
  rnd = random.Random(seed * 1000003 + idx + 29)
  t = timing(cfg or DEFAULT_CFG)
  order = list(range(1, n + 1))
  rnd.shuffle(order)
  steps = [dict(a="SwitchUp", s=s) for s in order] + [dict(a="Advance", d=t["settle"])]
  if rnd.random() < 0.3:
    steps.append(dict(a="Advance", d=rnd.choice([1, 2, t["detect"]])))
  held = rnd.sample(phys, min(len(phys), rnd.choice([1, 1, 2, 3]))) if phys else []
  steps += [dict(a="Delay", lk=list(w)) for w in held]
  late = [dict(a="Late", lk=list(w)) for w in held]
  rnd.shuffle(late)
  w0 = held[0] if held else [1, 1, 2, 1]
  variant = (idx + seed) % 9 if variant is None else variant
  back = []                        # what brings every switch back afterwards
  if variant == 0:                 # the sender disconnects, then its probe arrives
    steps += [dict(a="SwitchDown", s=w0[0])] + late
    back = [w0[0]]
  elif variant == 1:               # ... and some time passes first (the adjacency has long forgotten the switch)
    steps += [dict(a="SwitchDown", s=w0[0]), dict(a="Advance", d=rnd.choice([1, t["detect"], t["expire"]]))] + late
    back = [w0[0]]
  elif variant == 2:               # the wire is cut (both directions) while the probe is on its way
    steps += [dict(a="Cut", lk=list(x)) for x in (w0, flip(w0)) if x in phys] + late + \
             [dict(a="Advance", d=t["expire"])]
  elif variant == 3:               # nothing happens: the late probe is a mere refresh
    steps += late
  elif variant == 4:               # the receiver reconnects meanwhile
    steps += [dict(a="SwitchDown", s=w0[2]), dict(a="SwitchUp", s=w0[2])] + late
  elif variant == 5:               # the sender reconnects meanwhile
    steps += [dict(a="SwitchDown", s=w0[0]), dict(a="SwitchUp", s=w0[0])] + late
  elif variant == 6:               # a third party (or the sender) goes away; late probes arrive one by one with pauses
    s = rnd.randint(1, n)
    steps += [dict(a="SwitchDown", s=s)]
    for x in late:
      steps += [x, dict(a="Advance", d=rnd.choice([1, 2]))]
    back = [s]
  elif variant == 8:               # the wire is cut AND the sender disconnects
    steps += [dict(a="Cut", lk=list(x)) for x in (w0, flip(w0)) if x in phys] + [dict(a="SwitchDown", s=w0[0])] + late
    back = [w0[0]]
  else:                            # the sender goes away for longer than the link timeout, the probe arrives, it returns
    steps += [dict(a="SwitchDown", s=w0[0]), dict(a="Advance", d=t["expire"])] + late
    back = [w0[0]]
  if back:
    steps += [dict(a="Advance", d=t["detect"])] + [dict(a="SwitchUp", s=s) for s in back]
  steps += [dict(a="Advance", d=t["settle"]), dict(a="Advance", d=t["expire"])]
  steps += [dict(a="Flood", s=1 + idx % n, p=np)]
  sc = dict(n=n, np=np, wires=wires, phys=phys, steps=steps, seed=seed * 31 + idx, kind="flight%d" % n)
  if cfg is not None:
    sc["cfg"] = dict(cfg)
  return sc


def random_net(rnd, n, np, density=0.5, selfloops=False):
  """random wiring: each switch keeps port np as host port"""
  free = {s: list(range(1, np)) for s in range(1, n + 1)}
  for s in free:
    rnd.shuffle(free[s])
  cab = []
  pairs = [(a, b) for a in range(1, n + 1) for b in range(a + 1, n + 1)]
  rnd.shuffle(pairs)
  # a random spanning structure first, then extras (parallel ones included)
  cand = pairs + [rnd.choice(pairs) for _ in range(len(pairs))] if pairs else []
  for a, b in cand:
    if rnd.random() > density:
      continue
    if free[a] and free[b]:
      w = [a, free[a].pop(), b, free[b].pop()]
      cab.append((w, flip(w)))
  if selfloops:
    for s in range(1, n + 1):
      if len(free[s]) >= 2 and rnd.random() < 0.3:
        w = [s, free[s].pop(), s, free[s].pop()]
        cab.append((w, flip(w)))
  return cab


def random_history(seed, n=None, np=None, steps=30, selfloops=False, maxn=5, cfg=None, flight=0.0):
  """cfg: None = default configuration, "random" = a seeded legal one, or an option record"""
  rnd = random.Random(seed)
  n = n or rnd.randint(2, maxn)
  np = np or rnd.randint(3, 5)
  if cfg == "random":
    cfg = random_cfg(random.Random(seed * 48271 + 11), n, np)
  tm = timing(cfg or DEFAULT_CFG)
  DETECT, EXPIRE, SETTLE = tm["detect"], tm["expire"], tm["settle"]
  cab = random_net(rnd, n, np, density=rnd.choice([0.4, 0.7, 1.0]), selfloops=selfloops)
  wires = [w for c in cab for w in c]
  # some wires exist in one direction only (one-way links), some start down
  wires = [w for w in wires if rnd.random() < 0.9]
  phys = [w for w in wires if rnd.random() < 0.8]
  up = set()
  cur = set(map(tuple, phys))
  quiet = 99
  still = 99                 # time since the last environment change of any kind
  out = []
  pending = []               # wires with a delayed probe on its way (Topo.tla flight)
  # usually start by connecting everybody
  if rnd.random() < 0.8:
    order = list(range(1, n + 1))
    rnd.shuffle(order)
    for s in order:
      out.append(dict(a="SwitchUp", s=s))
      up.add(s)
    quiet = still = 0
  while len(out) < steps:
    k = rnd.random()
    if flight and rnd.random() < flight:
      # probes in flight: delay one over a wire that should be known by now / let a delayed one arrive
      # (the runner performs the step only where Topo.tla enables it)
      cand = [w for w in wires if tuple(w) in cur and w[0] in up and w[2] in up and w not in pending]
      if pending and (not cand or rnd.random() < 0.5):
        w = pending.pop(rnd.randrange(len(pending)))
        if w[2] in up:
          out.append(dict(a="Late", lk=list(w)))
        else:
          pending.append(w)
      elif cand and still >= DETECT and quiet >= DETECT and len(pending) < 3:
        w = rnd.choice(cand)
        out.append(dict(a="Delay", lk=list(w)))
        pending.append(w)
      continue
    if k < 0.40:
      d = rnd.choice([1, 1, 2, 3, max(1, DETECT - 2), max(1, DETECT - 1), DETECT, DETECT, DETECT + 1,
                      EXPIRE - 6, EXPIRE - 5, EXPIRE - 1, EXPIRE, EXPIRE, EXPIRE + 1, EXPIRE + 9])
      out.append(dict(a="Advance", d=d))
      quiet += d
      still += d
    elif k < 0.58 and wires:
      w = rnd.choice(wires)
      both = rnd.random() < 0.5
      for x in ([w, flip(w)] if both else [w]):
        if x not in wires:
          continue
        if tuple(x) in cur:
          out.append(dict(a="Cut", lk=list(x)))
          cur.discard(tuple(x))
        else:
          out.append(dict(a="Restore", lk=list(x)))
          cur.add(tuple(x))
      still = 0
    elif k < 0.76:
      if not (quiet == 0 or quiet >= DETECT):
        continue
      # a batch of membership changes at one instant
      for _ in range(rnd.choice([1, 1, 2, 3])):
        s = rnd.randint(1, n)
        if s in up:
          out.append(dict(a="SwitchDown", s=s))
          up.discard(s)
        else:
          out.append(dict(a="SwitchUp", s=s))
          up.add(s)
      quiet = still = 0
    elif k < 0.90:
      if len(up) == n and still >= EXPIRE and quiet >= SETTLE:
        s = rnd.randint(1, n)
        out.append(dict(a="Flood", s=s, p=np))
      else:
        d = rnd.choice([DETECT, EXPIRE])
        out.append(dict(a="Advance", d=d))
        quiet += d
        still += d
    else:
      # settle completely, then flood from everywhere
      if quiet != 0 and quiet < DETECT:
        continue
      for s in range(1, n + 1):
        if s not in up:
          out.append(dict(a="SwitchUp", s=s))
          up.add(s)
          quiet = still = 0
      out.append(dict(a="Advance", d=EXPIRE))
      quiet += EXPIRE
      still += EXPIRE
      for s in range(1, n + 1):
        out.append(dict(a="Flood", s=s, p=np))
  sc = dict(n=n, np=np, wires=wires, phys=phys, steps=out, seed=seed, kind="history")
  if cfg is not None:
    sc["cfg"] = dict(cfg)
    sc["kind"] = "cfghistory"
  if flight:
    sc["kind"] = "flight" + sc["kind"]
  return sc


def from_tlc(beh, net, seed):
  """a behaviour exported by TLC (hist of Topo.tla under NextRef) -> scenario"""
  steps = []
  for st in beh["h"]:
    a, g = st["a"], st["args"]
    if a in ("SwitchUp", "SwitchDown"):
      steps.append(dict(a=a, s=g["s"]))
    elif a == "Advance":
      steps.append(dict(a=a, d=g["d"]))
    elif a in ("Cut", "Restore", "Delay", "Late"):
      steps.append(dict(a=a, lk=list(g["l"])))
    elif a == "Flood":
      steps.append(dict(a=a, s=g["s"], p=g["p"]))
  return dict(n=beh["net"]["n"], np=beh["net"]["np"], wires=sorted(beh["net"]["wires"]),
              phys=sorted(beh["phys0"]), steps=steps, seed=seed, kind="tlc", cfg=dict(beh["cfg"]))
