"""C19 network simulator: real discovery + spanning_tree over real switches.

* N real `SoftwareSwitch` instances, each behind a real `OFConnection` on a
  fake IOWorker, connected byte for byte to a real `of_01.Connection` on a
  fake socket (controller side).  A synchronous pump moves the bytes until
  nothing moves any more.
* Inter-switch wiring: a set of DIRECTED physical links (s1, p1) -> (s2, p2).
  A frame a switch emits on a port (`DpPacketOut`) is re-injected into the
  neighbour's `rx_packet` iff that direction of the wire is up.  Frames
  leaving through a port without an outgoing link are recorded as
  host deliveries.
* The recoco scheduler is owned by the harness: `advance(d)` steps
  `scheduler.cycle()` / `hub._select()` under a virtual clock so that the LLDP
  send timer, the link-timeout timer and spanning_tree's port-refresh timers
  fire at exactly their virtual times.
* Fresh controller per `Net`: new OpenFlowNexus, new `Discovery` (through
  `discovery.launch()`), spanning_tree attached through its own `launch()`,
  module state of spanning_tree cleared, old timers dropped.  Both launchers
  get the options of the history's configuration (`disc_opts`, `st_opts`:
  exactly the keyword arguments the POX command line would pass, strings
  included).  With `--no_flow` discovery does not install its LLDP flow; the
  operator who sets that option has to get LLDP frames to the controller
  himself, so the harness installs the equivalent entry (`lldp_entry`).

Nothing here decides anything about the property: the module only drives the
real code and projects what happened (adjacency, LinkEvents, NO_FLOOD bits,
frames) for TLC to judge.
"""
import select as _select
import struct

from harness import poxenv
from harness import rawbytes as rb

core = poxenv.boot()

import pox.openflow as ofmod                                  # noqa: E402
import pox.openflow.of_01 as of_01                            # noqa: E402
import pox.openflow.libopenflow_01 as of                      # noqa: E402
import pox.lib.recoco.recoco as recoco                        # noqa: E402
from pox.lib.ioworker import IOWorker                         # noqa: E402
from pox.datapaths import switch as swmod                     # noqa: E402
from pox.openflow import flow_table as ftmod                  # noqa: E402
from pox.lib.packet.ethernet import ethernet                  # noqa: E402
from pox.lib.addresses import EthAddr                         # noqa: E402

ofmod.launch()
of_01.DeferredSender.start = lambda self: None
if of_01.deferredSender is None:
  of_01.deferredSender = of_01.DeferredSender()

import pox.openflow.discovery as discmod                      # noqa: E402
import pox.openflow.spanning_tree as stmod                    # noqa: E402

clock = poxenv.install_clock(recoco, of_01, discmod, stmod, swmod, ftmod)
# LLDPSender uses random() only when > 75 probes/cycle are needed; keep it
# deterministic anyway
discmod.random = lambda: 0.5

NO_FLOOD = 1 << 4
FLOOD_FRAME_TYPE = 0x88b5          # experimental ethertype of the test frame


class SimError(Exception):
  """the simulator itself is stuck / inconsistent: machinery, never a verdict"""


class LaunchError(Exception):
  """a component's launcher raised: an observation about the code under test"""


class Horizon(Exception):
  """raised by the select shim when the next timer lies beyond the target"""


class CtlSock(object):
  """Controller-side end of one OpenFlow TCP session."""
  _fileno = 5000

  def __init__(self, name):
    self.name = name
    self.inq = []
    self.out = b""
    self.eof = False
    self.closed = False
    self.shut = False
    CtlSock._fileno += 1
    self._fd = CtlSock._fileno

  def fileno(self):
    return self._fd

  def getpeername(self):
    return ("10.9.0.1", 40000 + (self._fd % 20000))

  def setblocking(self, v):
    pass

  def send(self, data):
    if self.closed or self.shut:
      import socket
      raise socket.error(32, "Broken pipe")
    self.out += data
    return len(data)

  def recv(self, n, flags=0):
    if self.inq:
      d = self.inq.pop(0)
      if len(d) > n:
        self.inq.insert(0, d[n:])
        d = d[:n]
      return d
    if self.eof or self.shut or self.closed:
      return b""
    import socket
    raise socket.error(11, "Resource temporarily unavailable")

  def shutdown(self, how):
    self.shut = True

  def close(self):
    self.closed = True


class SwSock(object):
  def getpeername(self):
    return ("127.0.0.1", 6633)


class Node(object):
  """One switch and (when connected) its OpenFlow session."""
  def __init__(self, net, dpid, ports):
    self.net = net
    self.dpid = dpid
    self.port_nos = list(ports)
    plist = []
    for p in self.port_nos:
      pp = of.ofp_phy_port()
      pp.port_no = p
      # locally administered unicast address unique per (switch index, port)
      pp.hw_addr = EthAddr(struct.pack("!BBHH", 0x02, 0xc1, net.index_of(dpid) & 0xffff, p & 0xffff))
      pp.name = "s%d-p%d" % (net.index_of(dpid), p)
      pp.config = 0
      pp.curr = pp.advertised = pp.supported = pp.peer = of.OFPPF_10MB_HD
      plist.append(pp)
    self.sw = swmod.SoftwareSwitch(dpid, ports=plist, max_buffers=0)
    self.sw.addListenerByName("DpPacketOut", self._on_out)
    self.worker = None
    self.sock = None
    self.con = None

  def _on_out(self, e):
    self.net.frames.append((self.dpid, e.port.port_no, e.packet.pack()))

  @property
  def connected(self):
    return self.con is not None

  def noflood(self, p):
    return bool(self.sw.ports[p].config & NO_FLOOD)


class Net(object):
  def __init__(self, dpids, ports, disc_opts=None, st_opts=None, lldp_entry=False):
    """dpids: list of 64-bit datapath ids (index i+1 is the spec's switch
    number); ports: dict dpid -> list of port numbers; disc_opts / st_opts:
    keyword arguments of openflow.discovery.launch / openflow.spanning_tree.launch."""
    self.dpids = list(dpids)
    self._idx = {d: i + 1 for i, d in enumerate(self.dpids)}
    self.frames = []             # (dpid, out port, frame bytes) in flight
    self.host_rx = []            # frames that left through unwired ports
    self.phys = set()            # directed links (d1, p1, d2, p2) that are up
    self.events = []             # LinkEvents: ["add"/"rem", d1, p1, d2, p2]
    self.flood_rx = None         # per-dpid arrival counter during a flood test
    self.carried = {}            # wire -> the last discovery probe (frame bytes) it carried
    self.flight = {}             # wire -> a delayed copy of a probe that is still on its way
    self.frame_budget = 0
    self.lldp_entry = lldp_entry
    self._reset_controller(disc_opts or {}, st_opts or {})
    self.nodes = {d: Node(self, d, ports[d]) for d in self.dpids}

  def index_of(self, dpid):
    return self._idx[dpid]

  # ---------------------------------------------------------- controller
  def _reset_controller(self, disc_opts, st_opts):
    sched = core.scheduler
    hub = sched._selectHub
    self.sched, self.hub = sched, hub
    hub._select_func = self._vselect
    # drop every timer of an earlier Net (LLDP sender, expiry, port checks)
    sched._ready.clear()
    for t in list(hub._tasks):
      if isinstance(t, recoco.Timer):
        t._cancelled = True
        del hub._tasks[t]
    keep = []
    while not hub._incoming.empty():
      it = hub._incoming.get(True)
      hub._incoming.task_done()
      if not isinstance(it[0], recoco.Timer):
        keep.append(it)
    for it in keep:
      hub._incoming.put(it)
    old = core.components.get("openflow")
    if old is not None:
      try:
        core.removeListener(old._handle_DownEvent)
      except Exception:
        pass
    self.nexus = ofmod.OpenFlowNexus()
    core.components["openflow"] = self.nexus
    core.components["OpenFlowConnectionArbiter"] = ofmod.OpenFlowConnectionArbiter()
    core.components.pop("openflow_discovery", None)
    of_01.Connection.ID = 0
    stmod._prev.clear()
    stmod._dirty_switches.clear()
    stmod._noflood_by_default = False
    stmod._hold_down = False
    try:
      discmod.launch(**disc_opts)
      self.disc = core.components["openflow_discovery"]
      stmod.launch(**st_opts)
    except Exception as e:
      raise LaunchError("%s: %s" % (type(e).__name__, str(e)[:200]))
    self.disc.addListenerByName("LinkEvent", self._on_link_event, priority=1000000)
    if not self.disc._eventMixin_handlers.get(discmod.LinkEvent):
      raise SimError("spanning_tree did not attach to discovery")

  def _on_link_event(self, e):
    l = e.link
    self.events.append(["add" if e.added else "rem", l.dpid1, l.port1, l.dpid2, l.port2])

  # ---------------------------------------------------------- time
  def _vselect(self, r, w, x, timeout):
    ro, wo, xo = _select.select(list(r), list(w), list(x), 0)
    if ro or wo or xo:
      return ro, wo, xo
    if timeout is None:
      raise Horizon()
    if clock.now + timeout > self._target:
      raise Horizon()
    clock.advance(timeout)
    return [], [], []

  def _settle(self):
    """run ready tasks and move bytes/frames until nothing is pending"""
    for _ in range(100000):
      busy = False
      while self.sched._ready:
        self.sched.cycle()
        busy = True
      if self.pump():
        busy = True
      if not busy:
        return
    raise SimError("netsim did not settle")

  def advance(self, d):
    """let virtual time pass; timers fire at their exact virtual times"""
    self._target = clock.now + d
    for _ in range(1000000):
      self._settle()
      try:
        self.hub._select(self.hub._tasks, {})
      except Horizon:
        if not self.sched._ready:
          break
    else:
      raise SimError("advance: too many timer steps")
    self._settle()
    clock.now = self._target

  # ---------------------------------------------------------- bytes / frames
  def pump(self):
    moved = False
    for _ in range(100000):
      again = False
      for n in self.nodes.values():
        if n.con is None:
          continue
        if n.sock.out:
          data, n.sock.out = n.sock.out, b""
          n.worker._push_receive_data(data)
          again = True
        if n.worker is not None and n.worker.send_buf:
          data, n.worker.send_buf = n.worker.send_buf, b""
          n.sock.inq.append(data)
          while n.sock.inq:
            if n.con.read() is False:
              n.con.close()
              break
          again = True
      while self.frames:
        d, p, fr = self.frames.pop(0)
        self._deliver(d, p, fr)
        again = True
      if not again:
        return moved
      moved = True
    raise SimError("pump did not reach quiescence")

  def _deliver(self, d, p, fr):
    dst = None
    for l in self.phys:
      if l[0] == d and l[1] == p:
        dst = l
        break
    if dst is None:
      self.host_rx.append((d, p, fr))
      return
    if self.flood_rx is not None:
      if self.frame_budget <= 0:
        return
      self.frame_budget -= 1
      et = struct.unpack("!H", fr[12:14])[0]
      if et == FLOOD_FRAME_TYPE:
        self.flood_rx[dst[2]] = self.flood_rx.get(dst[2], 0) + 1
    elif fr[12:14] == b"\x88\xcc":
      self.carried[dst] = fr
    self.nodes[dst[2]].sw.rx_packet(ethernet(raw=fr), dst[3])

  # ---------------------------------------------------------- probes in flight
  def delay(self, l):
    """a copy of the last probe that travelled over wire l is delayed on its way (in the network / in the
    receiving switch); False when no probe has travelled over l yet"""
    l = tuple(l)
    if l not in self.carried:
      return False
    self.flight[l] = self.carried[l]
    return True

  def late(self, l):
    """the delayed probe now arrives at the far end of wire l (whatever happened to the wire or to the
    sending switch meanwhile); the receiving switch hands it to the controller as usual"""
    l = tuple(l)
    fr = self.flight.pop(l)
    if self.nodes[l[2]].con is None:
      raise SimError("late probe for a switch without OpenFlow session")
    self.nodes[l[2]].sw.rx_packet(ethernet(raw=fr), l[3])
    self._settle()

  # ---------------------------------------------------------- environment
  def switch_up(self, dpid):
    n = self.nodes[dpid]
    if n.con is not None:
      raise SimError("already connected")
    n.worker = IOWorker()
    n.worker.socket = SwSock()
    ofc = swmod.OFConnection(n.worker)
    n.sw.set_connection(ofc)
    n.sock = CtlSock("s%d" % self._idx[dpid])
    n.con = of_01.Connection(n.sock)
    self._settle()
    if self.nexus.getConnection(dpid) is not n.con or n.con.connect_time is None:
      raise SimError("handshake did not complete for %x" % dpid)
    # what a learning/forwarding component would do with unknown traffic:
    # flood it.  Installed directly (not under test here); LLDP has priority.
    te = ftmod.TableEntry(priority=1, match=of.ofp_match(),
                          actions=[of.ofp_action_output(port=of.OFPP_FLOOD)])
    n.sw.table.add_entry(te)
    if self.lldp_entry:
      # --no_flow: the entry discovery would have installed, put there by the operator (after the handshake,
      # which clears the table; a probe that arrives earlier is a table miss and goes to the controller too)
      m = of.ofp_match(dl_type=0x88cc, dl_dst=EthAddr("01:23:20:00:00:01"))
      n.sw.table.add_entry(ftmod.TableEntry(priority=65000, match=m,
                                            actions=[of.ofp_action_output(port=of.OFPP_CONTROLLER)]))

  def switch_down(self, dpid):
    n = self.nodes[dpid]
    if n.con is None:
      raise SimError("not connected")
    n.sock.eof = True
    con = n.con
    if con.read() is False:           # what the of_01 loop does on EOF
      con.close()
    n.sw._connection = None
    n.con = None
    n.worker = None
    self._settle()

  def link_up(self, l):
    self.phys.add(tuple(l))

  def link_down(self, l):
    self.phys.discard(tuple(l))

  # ---------------------------------------------------------- projections
  def adjacency(self):
    return sorted([l.dpid1, l.port1, l.dpid2, l.port2] for l in self.disc.adjacency)

  def take_events(self):
    e, self.events = self.events, []
    return e

  def noflood_ports(self):
    """(dpid, port) of connected switches whose NO_FLOOD bit is set ON THE SWITCH"""
    return sorted([d, p] for d, n in self.nodes.items() if n.connected
                  for p in n.port_nos if n.noflood(p))

  def flood_from(self, dpid, in_port, budget=400):
    """A frame enters switch dpid on (host) port in_port and is flooded by
    every switch that receives it.  Returns ({dpid: arrivals over wires},
    storm) where storm = the frame budget ran out (a forwarding loop)."""
    self._settle()
    self.flood_rx = {}
    self.frame_budget = budget
    fr = rb.pad_to(rb.eth("ff:ff:ff:ff:ff:ff", "02:00:00:00:aa:01", FLOOD_FRAME_TYPE), 60)
    try:
      self.nodes[dpid].sw.rx_packet(ethernet(raw=fr), in_port)
      self.pump()
      storm = self.frame_budget <= 0
      return dict(self.flood_rx), storm
    finally:
      self.flood_rx = None
      self.frames = []

  def close(self):
    for n in self.nodes.values():
      if n.con is not None:
        try:
          n.sock.eof = True
          n.con.close()
        except Exception:
          pass
        n.con = None
