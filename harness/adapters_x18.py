"""X18 adapters: WorkConsumer.tla / EventWaiter.tla actions -> the real pox.lib.recoco.consumer and
pox.lib.recoco.events on a real recoco Scheduler whose cooperative thread is a real thread stepped by the
harness (harness/x18_env.py).  No source hooks: the consumers are subclasses overriding the documented
extension points (_do_work / _on_exception), the waiting task is an ordinary recoco Task."""
import threading

from harness.x18_env import Env, Diverged            # noqa: F401  (boots POX, virtual clock, quiet recoco)

import pox.lib.recoco.recoco as recoco               # noqa: E402
import pox.lib.recoco.consumer as consumer           # noqa: E402
import pox.lib.recoco.events as events               # noqa: E402
import pox.lib.revent as revent                      # noqa: E402


class WorkError(Exception):
  """a work item fails; _on_exception says: keep going"""


class HaltError(Exception):
  """a work item fails; _on_exception says: stop"""


class ItemAbort(BaseException):
  """what a work item may also die of: not an Exception (like SystemExit / KeyboardInterrupt / GeneratorExit)"""


def _name(e):
  return type(e).__name__


# ----------------------------------------------------------------------------
# work consumers

class ConsumerAdapter(object):
  def __init__(self, batch=(2,), lo=(), flex=()):
    self.batch = list(batch)
    self.lo = set(lo)
    self.flex = set(flex)
    self.env = Env()
    self.cons = {}                   # c -> consumer object
    self.sub = {}                    # c -> items submitted so far
    self.ran = []
    self.fp = {}                     # c -> handles of foreign threads stopped between appendleft and schedule
    self._mk_classes()

  def _mk_classes(self):
    ad = self

    class Mixin(object):
      def _on_exception(self, exc, work):
        # the library's own handler decides "keep going" (it logs and returns True) ...
        r = consumer.BaseConsumer._on_exception(self, exc, work)
        if isinstance(exc, HaltError):
          # ... unless this application wants to stop: anything but True; which falsy value varies
          return (False, None)[ad._item(work) % 2]
        return r

    class HBase(Mixin, consumer.BaseConsumer):
      def _do_work(self, work):
        ad._execute(self.vid, work)

    class HFlex(Mixin, consumer.FlexConsumer):
      pass                           # FlexConsumer._do_work unpacks (callable, args, kw) itself

    self.HBase, self.HFlex = HBase, HFlex

  # -- the work item itself (runs on the scheduler thread, inside _do_work)
  def _item(self, work):
    if isinstance(work, tuple) and len(work) == 3 and isinstance(work[1], tuple) and work[1]:
      return work[1][1]
    return work

  def _execute(self, c, item, badargs=False):
    out = self.env.park(("item", c, item))
    self.ran.append({"c": c, "i": item if not badargs else -item, "o": out})
    if out == "raise":
      raise WorkError("work item %s fails (scripted)" % item)
    if out == "halt":
      raise HaltError("work item %s fails, consumer must stop (scripted)" % item)
    if out == "base":
      raise ItemAbort("work item %s dies of something that is not an Exception (scripted)" % item)

  def _flexcall(self, c, item, *rest, **kw):
    self._execute(c, item, badargs=(rest != ("x",) or kw != {"tag": item}))

  # -- projection of the real objects
  def _rid(self, t):
    if isinstance(t, recoco.ScheduleTask):
      c = getattr(t._task, "vid", 0)
      return 10 + c
    return getattr(t, "vid", -1)

  def _state(self, c):
    o = self.cons.get(c)
    if o is None:
      return "none"
    if o.gen.gi_frame is None:
      return "dead"
    return "live" if o.running is True else "stopping"

  def project(self, err="-", wait=False):
    env = self.env
    n = len(self.batch)
    cur = []
    if env.parked is not None and env.parked[0] == "item":
      cur = [env.parked[1], env.parked[2]]
    ran, self.ran = self.ran, []
    return {
        "ready": [self._rid(t) for t in list(env.sched._ready)],
        "fp": [len(self.fp.get(c, [])) for c in range(1, n + 1)],
        "q": [[self._item(w) for w in reversed(list(self.cons[c].queue))] if c in self.cons else []
              for c in range(1, n + 1)],
        "st": [self._state(c) for c in range(1, n + 1)],
        "cur": cur,
        "ran": ran,
        "pinged": env.pinged(),
        "err": err,
        "wait": wait,
        "hub": env.hub_load(),
    }

  def _by(self, thr, fn):
    if thr == "foreign":
      return self.env.foreign(fn)
    return self.env.coop(fn)

  # -- actions
  def step(self, a, args):
    env = self.env
    if a == "New":
      c = args["c"]
      cls = self.HFlex if c in self.flex else self.HBase
      b, lo, start = self.batch[c - 1], c in self.lo, args["start"]

      def mk():
        if b == 1 and not lo and start:
          o = cls()                                   # the documented defaults: batch_size 1, priority 1, started
        elif not lo and start:
          o = cls(batch_size=b)
        else:
          o = cls(batch_size=b, priority=0.5 if lo else 1, start=start)
        o.vid = c
        return o
      # (the object must carry its number before anybody looks at the deque: set inside mk, same thread)
      self.cons[c] = self._by(args["thr"], mk)
      self.sub[c] = 0
      return self.project()
    if a == "AddWork":
      c, form = args["c"], args["form"]
      o = self.cons[c]
      item = self.sub[c] + 1
      err = "-"
      if form == "base":
        call = lambda: o.add_work(item)                                                    # noqa
      elif form == "flex":
        call = lambda: o.add_work(self._flexcall, c, item, "x", tag=item)                  # noqa
      else:
        call = lambda: consumer.BaseConsumer.add_work(o, (self._flexcall, (c, item, "x"), {"tag": item}))   # noqa
      try:
        if args["thr"] == "fsplit":
          h = env.foreign_split(call)
          if h.parked:
            self.fp.setdefault(c, []).append(h)
          elif h.exc is not None:
            raise h.exc
          else:
            return dict(self.project(), err="add_work returned without calling schedule()")
        else:
          self._by(args["thr"], call)
        self.sub[c] = item
      except Diverged:
        raise
      except Exception as e:       # noqa
        err = _name(e)
      return self.project(err=err)
    if a == "FSched":
      env.foreign_finish(self.fp[args["c"]].pop(0))
      return self.project()
    if a == "Stop":
      self.cons[args["c"]].running = False
      return self.project()
    if a == "Cycle":
      # the scheduler's random draws are the environment's input: k times "more than the task's priority"
      draws = [1.0] * args.get("k", 0)
      env.sched._random = lambda: draws.pop() if draws else 0.0
      env.call(env.sched.cycle)
      return self.project()
    if a == "Finish":
      env.release(args["o"])
      return self.project()
    if a == "Idle":
      w = env.idle()
      return self.project(wait=w)
    raise ValueError(a)

  def close(self):
    self.env.close(unpark=lambda info: "ok")
    for o in self.cons.values():
      try:
        o.gen.close()
      except BaseException:        # noqa
        pass

  def signature(self, st, obs):
    sig = {"spec": "WorkConsumer", "action": st["a"]}
    exp = st["exp"]
    if isinstance(obs, dict) and "EXC" in obs:
      sig["observed"] = "exception:" + obs["EXC"]
      return sig
    sig["fields"] = sorted(k for k in exp if obs.get(k) != exp[k])
    if st["a"] == "AddWork":
      sig["thr"], sig["form"] = st["args"]["thr"], st["args"]["form"]
      sig["err"] = [exp.get("err"), obs.get("err")]
    if st["a"] == "Finish":
      sig["o"] = st["args"]["o"]
    if st["a"] == "Cycle":
      sig["t"] = "st" if st["args"]["t"] > 10 else "consumer"
    return sig


# ----------------------------------------------------------------------------
# event waiter

class XEvent(revent.Event):
  def __init__(self, i):
    revent.Event.__init__(self)
    self.i = i


class Ev1(XEvent):
  pass


class Ev2(XEvent):
  pass


EVS = {1: Ev1, 2: Ev2}


class Source(revent.EventMixin):
  _eventMixin_events = set([Ev1, Ev2])


class WaiterAdapter(object):
  def __init__(self, ne=2):
    self.ne = ne
    self.env = Env()
    self.src = Source()
    self.waiter = events.ReventWaiter()
    self.task = None
    self.nev = 0
    self.seen = []
    self.got = []
    self.finished = False
    self.fw = None                   # a foreign thread stopped inside _check, before schedule(task)

  # -- the waiting task (its body runs on the scheduler thread)
  def _describe(self, mode, v):
    """what the task was handed -> [m, [event ids]]; anything unexpected is spelled out"""
    def one(x):
      # (source, positional arguments of the handler call, keyword arguments): an Ev1 is raised with extra
      # arguments ("x", tag=i), an Ev2 through its class without any
      if (isinstance(x, tuple) and len(x) == 3 and x[0] is self.src and isinstance(x[1], tuple) and x[1]
          and isinstance(x[1][0], XEvent)):
        ev = x[1][0]
        want = ((ev, "x"), {"tag": ev.i}) if isinstance(ev, Ev1) else ((ev,), {})
        if (x[1], x[2]) == want:
          return ev.i
      return "?" + repr(x)[:40]
    if mode == "none":
      return {"m": "none", "ev": []} if v is None else {"m": "none", "ev": ["?" + repr(v)[:40]]}
    if mode == "def":
      return {"m": "def", "ev": []} if v is self.waiter else {"m": "def", "ev": ["?" + repr(v)[:40]]}
    if mode == "one":
      return {"m": "one", "ev": [] if v is None else [one(v)]}
    if not isinstance(v, list):
      return {"m": "all", "ev": ["?" + repr(v)[:40]]}
    return {"m": "all", "ev": [one(x) for x in v]}

  def _prog(self):
    w = self.waiter
    mode, v = "none", None
    try:
      while True:
        self.got.append(self._describe(mode, v))
        op = self.env.park(("body",))
        if op == "exit":
          return
        if op == "resched":
          mode = "none"
          v = yield 0
        elif op == "one":
          mode = "one"
          v = yield w.waitOne()
        elif op == "all":
          mode = "all"
          v = yield w.waitAll()
        else:
          mode = "def"
          v = yield events.WaitOnEvents(w)
    finally:
      self.finished = True

  # -- projection
  def _rid(self, t):
    if isinstance(t, recoco.ScheduleTask):
      return 11 if t._task is self.task else 19
    return 1 if t is self.task else 9

  def _regs(self):
    reg, oth = [], []
    for e in (1, 2):
      hs = self.src._eventMixin_handlers.get(EVS[e], []) if hasattr(self.src, "_eventMixin_handlers") else []
      mine = [h for h in hs if getattr(getattr(h[1], "func", None), "__self__", None) is self.waiter]
      other = [h for h in hs if h not in mine]
      if len(mine) > 1:
        reg.append("many")
      else:
        reg.append("none" if not mine else ("once" if mine[0][2] else "perm"))
      oth.append(len(other))
    return reg, oth

  def _rf(self):
    f = getattr(self.task, "rf", None) if self.task is not None else None
    if f is None:
      return "none"
    q = getattr(f, "__qualname__", "")
    if "waitOne" in q:
      return "one"
    if "waitAll" in q:
      return "all"
    if "_default_rf" in q:
      return "def"
    return "?" + q

  def project(self, ne, err="-"):
    env, w = self.env, self.waiter
    if self.task is None:
      tst = "new"
    elif env.parked is not None:
      tst = "body"
    elif self.finished or self.task.gen.gi_frame is None:
      tst = "dead"
    else:
      tst = "susp"
    reg, oth = self._regs()
    got, self.got = self.got, []
    seen, self.seen = self.seen, []

    def ident(x):
      try:
        return x[1][0].i
      except Exception:          # noqa
        return "?" + repr(x)[:40]
    return {
        "ready": [self._rid(t) for t in list(env.sched._ready)],
        "fwake": self.fw is not None,
        "reg": reg[:ne], "oth": oth[:ne],
        "pend": [ident(x) for x in list(w._events)],
        "wakeable": bool(w._wakeable),
        "bound": (w._task is self.task and w._scheduler is env.sched) if self.task is not None and w._task is not None
                 else (w._task is not None),
        "tst": tst, "rf": self._rf(),
        "got": got, "seen": seen,
        "pinged": env.pinged(), "err": err,
    }

  def _by(self, thr, fn):
    if thr == "foreign":
      return self.env.foreign(fn)
    return self.env.coop(fn)

  def step(self, a, args):
    env = self.env
    ne = self.ne
    err = "-"
    if a == "Register":
      e, how = args["e"], args["how"]
      kw = {}
      if how == "once":
        kw["once"] = True
      if how == "weak":
        kw["weak"] = True
      try:
        if e == 2:
          self._by("coop", lambda: self.waiter.registerForEventByName(self.src, "Ev2", **kw))
        else:
          self._by("coop", lambda: self.waiter.registerForEvent(self.src, Ev1, **kw))
      except Diverged:
        raise
      except Exception as x:       # noqa
        err = _name(x)
    elif a == "Other":
      e = args["e"]
      try:
        self._by("coop", lambda: self.src.addListener(EVS[e], lambda ev, *a, **k: self.seen.append(ev.i)))
      except Diverged:
        raise
      except Exception as x:       # noqa
        err = _name(x)
    elif a == "Raise":
      e = args["e"]
      self.nev += 1
      i = self.nev
      if e == 1:
        call = lambda: self.src.raiseEvent(Ev1(i), "x", tag=i)                  # noqa  extra handler arguments
      else:
        call = lambda: self.src.raiseEventNoErrors(Ev2, i)                      # noqa  class + constructor arguments
      if args["thr"] == "fsplit":
        h = env.foreign_split(call)
        if h.parked:
          self.fw = h
        elif h.exc is not None:
          raise h.exc
      else:
        self._by(args["thr"], call)
    elif a == "FSched":
      h, self.fw = self.fw, None
      env.foreign_finish(h)
    elif a == "Start":
      def mk():
        t = recoco.Task(target=self._prog)
        self.task = t
        t.start()
      env.coop(mk)
    elif a == "Cycle":
      env.call(env.sched.cycle)
    elif a == "Yield":
      env.release(args["op"])
    elif a == "Get":
      m = args["m"]
      v = env.inside(self.waiter.getEvent if m == "one" else self.waiter.getEvents)
      self.got.append(self._describe(m, v))
    else:
      raise ValueError(a)
    return self.project(ne, err=err)

  def close(self):
    self.env.close(unpark=lambda info: "exit")
    if self.task is not None:
      try:
        self.task.gen.close()
      except BaseException:        # noqa
        pass

  def signature(self, st, obs):
    sig = {"spec": "EventWaiter", "action": st["a"]}
    exp = st["exp"]
    if isinstance(obs, dict) and "EXC" in obs:
      sig["observed"] = "exception:" + obs["EXC"]
      return sig
    sig["fields"] = sorted(k for k in exp if obs.get(k) != exp[k])
    for k in ("how", "op", "m", "thr"):
      if k in st["args"]:
        sig[k] = st["args"][k]
    if "err" in sig["fields"]:
      sig["err"] = [exp.get("err"), obs.get("err")]
    if st["a"] == "Cycle":
      sig["rf"] = exp.get("got", [{}])[0].get("m") if exp.get("got") else "-"
    return sig
