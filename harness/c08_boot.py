"""C08 through pox.boot.boot(): start-up order comes from a command line.

Same actions and observations as harness.adapters_c08.Adapter, but POX is
started by the real pox.boot.boot(argv) running in a second thread:

  argv = --no-openflow --unthreaded-sh --handle-signals=False
         c08slot0 --k=0  c08slot1 --k=1 ...  c08main

Each c08slotK is a synthetic component module whose launch() performs the
next operation of the behaviour (register / call_when_ready /
listen_to_dependencies) - so the operations before GoUp are executed by
boot._do_launch in command line order, each as one component launch.  The GoUp
step lets _do_launch finish; boot() then runs _post_startup() and
core.goUp() itself and calls the main-thread function (installed by c08main),
from which the remaining operations are served.  Quit lets the main function
return, so that boot()'s own final core.quit() shuts POX down.

The two threads alternate strictly (queue hand-off), so runs are deterministic.
"""
import io
import logging
import queue
import sys
import threading
import types

from engine.core import Machinery
from harness import adapters_c08 as ac

import pox.boot as pboot          # noqa: E402
pcore = ac.pcore

NSLOTS = 24
TIMEOUT = 60
_CONTINUE = "continue"
_ABORT = "abort"


class BootAdapter(ac.Adapter):
  def _make_core(self):
    self.req = queue.Queue()
    self.resp = queue.Queue()
    self.phase = "startup"          # startup -> main -> done
    self.boot_error = None
    self.slot_seen = []
    self.saved_path = list(sys.path)
    self.saved_stdout = sys.stdout
    self.saved_stderr = sys.stderr
    sys.stdout = io.StringIO()
    sys.stderr = self.captured = io.StringIO()
    pcore.core = None
    pcore.time = ac._clock
    ac._recoco.defaultScheduler = None
    pboot._main_thread_function = None
    pboot.core = None
    sys.modules.pop("pox.py", None)               # binds `core` at import time
    self.modnames = []
    argv = ["--no-openflow", "--unthreaded-sh", "--handle-signals=False"]
    for k in range(NSLOTS):
      name = "c08slot%d" % k
      m = types.ModuleType("pox." + name)
      m.launch = self._slot_launch(k)
      sys.modules["pox." + name] = m
      self.modnames.append("pox." + name)
      argv += [name, "--k=%d" % k]
    m = types.ModuleType("pox.c08main")
    m.launch = self._main_launch()
    sys.modules["pox.c08main"] = m
    self.modnames.append("pox.c08main")
    argv.append("c08main")
    self.thread = threading.Thread(target=self._thread_main, args=(argv,))
    self.thread.daemon = True
    self.thread.start()
    self._wait()                                  # first slot (or failure)
    if pcore.core is None:
      raise Machinery("pox.boot did not create a core: %r" % (self.boot_error,))
    hub = pcore.core.scheduler._selectHub
    hub._select_func = lambda r, w, x, t: ac.select.select(r, w, x, 0)
    return pcore.core

  # ---- boot thread side
  def _thread_main(self, argv):
    try:
      pboot.boot(argv)
    except BaseException as e:                    # boot() swallows most itself
      self.boot_error = e
    finally:
      self.phase = "done"
      self.resp.put(("done", None))

  def _serve(self, one_shot):
    """Run operations handed over by the replay thread.  Returns _CONTINUE/_ABORT."""
    while True:
      self.resp.put(("at", None))
      item = self.req.get()
      if item in (_CONTINUE, _ABORT):
        return item
      try:
        item()
        self.op_exc = None
      except BaseException as e:
        self.op_exc = e
      if one_shot:
        self.resp.put(("at-end", None))
        # one component launch = one operation; the next slot reports again
        return None

  def _slot_launch(self, k):
    def launch(k="?"):
      self.slot_seen.append(k)
      if self.phase != "startup":
        return None
      r = self._serve(one_shot=True)
      if r == _CONTINUE:
        self.phase = "going-up"
      elif r == _ABORT:
        self.phase = "aborted"
        return False
      return None
    return launch

  def _main_launch(self):
    def launch():
      pboot.set_main_function(self._main_function)
    return launch

  def _main_function(self):
    self.phase = "main"
    self._serve(one_shot=False)
    self.phase = "quitting"

  # ---- replay thread side
  def _wait(self):
    try:
      return self.resp.get(timeout=TIMEOUT)
    except queue.Empty:
      raise Machinery("boot thread did not hand control back (phase %s)" % self.phase)

  def _in_boot(self, fn):
    """Run fn in the boot thread at its current serving point."""
    self.req.put(fn)
    r = self._wait()
    if self.phase == "startup" and r[0] == "at-end":
      r = self._wait()                            # next slot is serving
    if self.op_exc is not None:
      e, self.op_exc = self.op_exc, None
      raise e

  op_exc = None

  def step(self, a, args):
    if self.phase in ("startup", "main") and a in ("Register", "CallWhenReady", "ListenTo", "Release", "GetDeferral"):
      if self.phase == "startup" and len(self.slot_seen) >= NSLOTS:
        raise Machinery("behaviour has more start-up operations than slots")
      box = []
      self._in_boot(lambda: box.append(ac.Adapter.step(self, a, args)))
      return self._check_slots(box[0])
    return self._check_slots(ac.Adapter.step(self, a, args))

  def _check_slots(self, obs):
    # the harness maps the k-th operation to the k-th component on the command
    # line; if boot launches in another order the mapping is void (not a verdict)
    if self.slot_seen != [str(i) for i in range(len(self.slot_seen))]:
      raise Machinery("pox.boot launched the slot components as %r" % (self.slot_seen,))
    return obs

  def _go_up(self):
    if self.phase != "startup":
      raise Machinery("GoUp outside start-up")
    self.req.put(_CONTINUE)
    r = self._wait()
    if r[0] == "done":
      # boot() returned without reaching the main function: goUp() raised.  When
      # the Up handler's program ends in "raise" that is what goUp() may do (boot
      # prints the traceback and gives up); anything else is reported.
      if "ScriptedFailure" in self.captured.getvalue() and any(op["k"] == "raise" for op in self.upprog):
        raise ac.ScriptedFailure("propagated through pox.boot.boot()")
      raise RuntimeError("pox.boot.boot() aborted during goUp: %r" % (self.boot_error,))

  def _quit(self):
    if self.phase == "main":
      self.req.put(_CONTINUE)                     # main function returns: boot() quits
      r = self._wait()
      while r[0] != "done":
        r = self._wait()
      self.thread.join(TIMEOUT)
    else:
      self.core.quit()

  def close(self):
    try:
      if self.phase in ("startup", "main"):
        ph = self.phase
        self.requit = False
        self.req.put(_ABORT if ph == "startup" else _CONTINUE)
        r = self._wait()
        while r[0] != "done":
          r = self._wait()
      self.thread.join(TIMEOUT)
      if self.thread.is_alive():
        raise Machinery("boot thread still alive")
    finally:
      sys.stdout = self.saved_stdout
      sys.stderr = self.saved_stderr
      sys.path[:] = self.saved_path
      for n in self.modnames:
        sys.modules.pop(n, None)
      h = getattr(pcore, "_default_log_handler", None)
      if h is not None:
        logging.getLogger().removeHandler(h)
      pboot._main_thread_function = None
      ac.Adapter.close(self)
