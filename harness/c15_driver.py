"""C15 drivers (code -> spec): run the real packet library on damaged frames /
arbitrary bytes and record what it did, in the event schema of
PktGrammarAnyTrace.tla.  The verdict is TLC's; this module only records.

Every byte string goes the same way as in the replay adapter: data of an
OFPT_PACKET_IN -> real of_01.Connection -> PacketIn handler -> event.parsed.
"""
import json
import random

from harness import c15_frames as F
from harness import c15_env
from harness.adapters_c15 import walk, kind_of, observe_rest, do_print, do_dump, do_pack

CORRUPT_VALUES = ("zero", "ff", "flip80", "inc")


def E(a, k="-", n=0, ln=0, starts=(), any_=False, ok=True):
  return {"a": a, "k": k, "n": n, "len": ln, "starts": list(starts), "any": any_, "ok": ok}


def record(data):
  """-> (events, details) ; details[i] explains a not-ok event (never seen by TLC)"""
  ch = c15_env.channel()
  rec = ch.offer(data)
  ev, det = [], {}
  if "exc" in rec:
    ev.append(E("Offer", n=len(data), ok=False))
    det[0] = {"raised": rec["exc"][0], "where": rec["exc"][2], "msg": rec["exc"][1][:120]}
    return ev, det
  ev.append(E("Offer", n=len(data)))
  top = rec["parsed"]
  objs, _ = walk(top)
  for o in objs:
    if getattr(o, "parsed", None) is True:
      ev.append(E("Layer", k=kind_of(o)))
  r = observe_rest(top, data)
  if r["starts"] == "any":
    ev.append(E("Rest", ln=0, any_=True))
  else:
    ev.append(E("Rest", ln=r["len"], starts=r["starts"]))
    if r["len"] < 0:
      det[len(ev) - 1] = {"raised": "remainder-not-kept", "where": kind_of(objs[-1]) if objs else "-"}
    elif not r["starts"]:
      det[len(ev) - 1] = {"raised": "remainder-not-from-frame", "where": kind_of(objs[-1]) if objs else "-"}
  for name, f in (("Print", do_print), ("Dump", do_dump), ("Repack", do_pack)):
    o = f(top)
    ev.append(E(name, ok=o["ok"]))
    if not o["ok"]:
      det[len(ev) - 1] = {"raised": o.get("raised", "?"), "where": o.get("where", "?"), "msg": o.get("msg", "")}
  return ev, det


class Bag(object):
  """distinct traces with multiplicity and one example input each"""
  def __init__(self):
    self.d = {}

  def add(self, ev, det, label, data):
    key = json.dumps(ev, sort_keys=True, separators=(",", ":")) + "|" + json.dumps(det, sort_keys=True)
    e = self.d.get(key)
    if e is None:
      self.d[key] = [ev, det, 1, label, data.hex()]
    else:
      e[2] += 1

  def items(self):
    return list(self.d.values())


def corrupt_value(name, x):
  if isinstance(name, int):            # thorough tier: every byte value
    return name
  return {"zero": 0, "ff": 0xff, "flip80": x ^ 0x80, "inc": (x + 1) & 0xff}[name]


def drive_corrupt(item):
  """every single-byte corruption of one frame, as is and with checksums re-computed"""
  desc, values = item[0], item[1]
  reseal = item[2] if len(item) > 2 else True
  st = F.expand(desc)
  frame, lay = F.build(st, desc["plen"], desc["pad"])
  bag = Bag()
  n = 0
  for pos in range(len(frame)):
    for vn in values:
      v = corrupt_value(vn, frame[pos])
      if v == frame[pos]:
        continue
      m = bytearray(frame)
      m[pos] = v
      m = bytes(m)
      variants = [("raw", m)]
      s = F.reseal(m, lay) if reseal else m
      if s != m:
        variants.append(("resealed", s))
      for tag, data in variants:
        ev, det = record(data)
        bag.add(ev, det, dict(kind="corrupt", st=desc["st"], unit=desc.get("unit", []), n=desc.get("n", 0),
                              post=desc.get("post", []), plen=desc["plen"], pad=desc["pad"], pos=pos,
                              value=vn, sealed=tag), data)
        n += 1
  return n, bag.items()


def field_value(cls, w, x):
  top = (1 << (8 * w)) - 1
  if cls[0] == "s" and cls[1:].isdigit():        # selector value "s<n>"
    return int(cls[1:]) & top
  return {"zero": 0, "one": 1, "hi": 1 << (8 * w - 1), "max": top,
          "inc": (x + 1) & top, "dec": (x - 1) & top}[cls]


def apply_scenario(sc):
  st = [[x["k"], x["v"]] for x in sc["st"]]
  frame, lay = F.build(st, sc["plen"], 0)
  if len(frame) != sc["total"] or lay != [dict(x) for x in sc["lay"]]:
    from engine.core import Machinery
    raise Machinery("C15: byte builder and PktGrammarLib disagree on the layout of %s" % (st,))
  m = bytearray(frame)
  for mu in sc["muts"]:
    off = lay[mu["i"] - 1]["off"] + mu["o"]
    w = mu["w"]
    x = int.from_bytes(m[off:off + w], "big")
    m[off:off + w] = field_value(mu["val"], w, x).to_bytes(w, "big")
  data = F.reseal(bytes(m), lay)
  return data[:sc["cut"]]


def drive_mutations(scs):
  bag = Bag()
  for sc in scs:
    data = apply_scenario(sc)
    ev, det = record(data)
    bag.add(ev, det, dict(kind="mutate", st=sc["st"], plen=sc["plen"], muts=sc["muts"], cut=sc["cut"]), data)
  return len(scs), bag.items()


def drive_random(item):
  """smoke sample: fully random bytes, and random bytes behind a plausible Ethernet header"""
  seed, count = item
  rnd = random.Random(seed)
  bag = Bag()
  types = [0x0800, 0x86dd, 0x0806, 0x8100, 0x88cc, 0x888e, 0x8847, 0x0026, 0x8035]
  for j in range(count):
    n = rnd.choice([0, 1, 13, 14, 15, 20, 34, 42, 60, 64, 128, 300]) if j % 3 == 0 else rnd.randint(0, 400)
    body = bytes(rnd.getrandbits(8) for _ in range(n))
    if j % 2:
      t = rnd.choice(types)
      body = (bytes(rnd.getrandbits(8) for _ in range(12)) + t.to_bytes(2, "big") + body)
      if t == 0x0800 and len(body) > 14:
        body = body[:14] + bytes([0x45]) + body[15:]
      if t == 0x86dd and len(body) > 14:
        body = body[:14] + bytes([0x60]) + body[15:]
    ev, det = record(body)
    bag.add(ev, det, dict(kind="random", seed=seed, index=j), body)
  return count, bag.items()


def ED(a, desc=None, ks=(), ln=0, starts=(), any_=False, ok=True, total=0):
  """event of PktGrammarTrace.tla"""
  d = desc or {}
  return {"a": a, "st": d.get("st", []), "unit": d.get("unit", []), "n": d.get("n", 0), "post": d.get("post", []),
          "plen": d.get("plen", 0), "pad": d.get("pad", 0), "cut": d.get("cut", 0), "total": total,
          "ks": list(ks), "len": ln, "starts": list(starts), "any": any_, "ok": ok}


def drive_deep(desc):
  """one deeply nested frame of the grammar at one truncation length -> (events, details, label)"""
  frame, lay = F.build(F.expand(desc), desc["plen"], desc["pad"])
  data = frame[:desc["cut"]]
  ch = c15_env.channel()
  rec = ch.offer(data)
  ev, det = [], {}
  label = dict(kind="deep", st=desc["st"], unit=desc["unit"], n=desc["n"], post=desc["post"], plen=desc["plen"],
               cut=desc["cut"], total=len(frame))
  if "exc" in rec:
    ev.append(ED("Offer", desc, ok=False, total=len(frame)))
    det[0] = {"raised": rec["exc"][0], "where": rec["exc"][2], "msg": rec["exc"][1][:120]}
    return ev, det, label
  ev.append(ED("Offer", desc, total=len(frame)))
  top = rec["parsed"]
  objs, _ = walk(top)
  ks = [kind_of(o) for o in objs if getattr(o, "parsed", None) is True]
  if ks:
    ev.append(ED("Layers", ks=ks))
  r = observe_rest(top, data)
  if r["starts"] == "any":
    ev.append(ED("Rest", ln=0, any_=True))
  else:
    ev.append(ED("Rest", ln=r["len"], starts=r["starts"]))
    if r["len"] < 0 or not r["starts"]:
      det[len(ev) - 1] = {"raised": "remainder-not-kept" if r["len"] < 0 else "remainder-not-from-frame",
                          "where": ks[-1] if ks else "-"}
  for name, f in (("Print", do_print), ("Dump", do_dump), ("Repack", do_pack)):
    o = f(top)
    ev.append(ED(name, ok=o["ok"]))
    if not o["ok"]:
      det[len(ev) - 1] = {"raised": o.get("raised", "?"), "where": o.get("where", "?"), "msg": o.get("msg", "")}
  return ev, det, label
