"""X05 adapters: L3Learn.tla / ArpResp.tla actions -> the real components over a real switch.

`L3Adapter.step(a, args)` performs one action of specs/l3/L3Learn.tla on the real
l3_learning component (started by its own launch()) behind a real of_01.Connection
and a real SoftwareSwitch (harness/x05_net.py), and returns the observation in exactly
the JSON shape of the spec's `exp`:

  pin   spec slot the packet-in's buffer id was bound to (0 = not buffered)
  msgs  controller -> switch messages of the step, decoded from the bytes on the wire
        by harness/rawbytes.py, abstracted to the spec's message records (buffer ids ->
        slots, addresses -> symbols); for "Tick" a bag [[msg, count]] (order not fixed)
  out   bag of frames that left the switch [[port, frame record, count]] (struct decoding)
  errs  number of OFPT_ERROR replies of the switch
  st    projection of the component's tables (deadlines relative to virtual now)

`ArpAdapter` does the same for specs/l3/ArpResp.tla and pox/proto/arp_responder.py.

Buffer ids are bound dynamically (DESIGN 2.4): the spec allocates the lowest free slot,
the adapter binds whatever id the switch announces to the lowest slot it considers free.
Concretisation of symbols is injective and chosen by `variant`.
"""
import json

from engine.core import Machinery
from harness import rawbytes as rb
from harness import x05_net as xn

FLOOD, INPORT, NONE = 65531, 65528, 65535
NOFRAME = {"k": "-", "op": 0, "es": "-", "ed": "-", "sha": "-", "spa": "-", "tha": "-", "tpa": "-"}

IP_FAMILIES = [
    {"a": "10.0.0.1", "b": "10.0.0.2", "c": "10.0.0.3", "g": "10.0.0.254", "h": "10.0.0.253"},
    {"a": "192.168.1.129", "b": "192.168.1.1", "c": "172.16.0.255", "g": "192.168.1.254", "h": "1.2.3.4"},
    {"a": "10.255.255.254", "b": "10.0.0.0", "c": "127.0.0.1", "g": "255.255.255.254", "h": "8.8.8.8"},
]
MAC_FAMILIES = [
    {"m1": "00:00:00:00:aa:01", "m2": "00:00:00:00:aa:02", "m3": "00:00:00:00:aa:03", "mx": "00:00:00:00:aa:0f",
     "ms": "00:00:00:00:aa:10", "rt": "00:00:00:00:00:fe"},
    {"m1": "02:00:00:00:01:01", "m2": "0e:ff:ff:ff:ff:fe", "m3": "00:80:c2:00:00:03", "mx": "fe:00:00:00:00:01",
     "ms": "00:00:5e:00:01:01", "rt": "00:00:5e:00:01:fe"},
    {"m1": "00:00:00:00:00:01", "m2": "00:00:00:00:01:00", "m3": "00:00:00:01:00:00", "mx": "00:00:01:00:00:00",
     "ms": "00:01:00:00:00:00", "rt": "0c:00:00:00:00:00"},
]
DPIDS = [0x2a, 0x0000beefcafe0001, 0x00120000000000ff]


def _dpid_mac(dpid):
  x = "%012x" % (dpid & 0xffffffffffff)
  return ":".join(x[i:i + 2] for i in range(0, 12, 2))


def canon(x):
  return json.dumps(x, sort_keys=True, separators=(",", ":"))


def bag(items):
  c = {}
  for it in items:
    c[canon(it)] = c.get(canon(it), 0) + 1
  return sorted((json.loads(k) + [n] for k, n in c.items()), key=canon)


class Base(object):
  def _init_syms(self, variant, dpid):
    self.ipmap = dict(IP_FAMILIES[variant % len(IP_FAMILIES)])
    self.ipmap["z"] = "0.0.0.0"
    self.macmap = dict(MAC_FAMILIES[variant % len(MAC_FAMILIES)])
    self.macmap.update({"bc": "ff:ff:ff:ff:ff:ff", "no": "00:00:00:00:00:00", "sw": _dpid_mac(dpid)})
    self.ipsym = {v: k for k, v in self.ipmap.items()}
    self.macsym = {v: k for k, v in self.macmap.items()}
    if len(self.ipsym) != len(self.ipmap) or len(self.macsym) != len(self.macmap):
      raise Machinery("concretisation not injective")

  def isym(self, x):
    return self.ipsym.get(str(x), "?" + str(x))

  def msym(self, x):
    return self.macsym.get(str(x).lower(), "?" + str(x))

  # -- frames
  def frame_rec(self, fr):
    d = xn.decode_frame(fr)
    if d["kind"] == "ip":
      k = "ip"
      orig = self.sent_ip.get(d.get("sport"))
      if orig is None or orig[12:] != fr[12:] or orig[6:12] != fr[6:12]:
        k = "ip-altered"                      # only the destination MAC may have been rewritten
      return {"k": k, "op": 0, "es": self.msym(d["es"]), "ed": self.msym(d["ed"]), "sha": "-",
              "spa": self.isym(d["sip"]), "tha": "-", "tpa": self.isym(d["dip"])}
    if d["kind"] == "arp":
      k = "arp" if d["htype"] == 1 else "arpx"
      if d["ptype"] != 0x0800 or d["hlen"] != 6 or d["plen"] != 4:
        k = "arp-malformed"
      if d["vlan"] is not None:
        k += "@%d.%d" % tuple(d["vlan"])
      return {"k": k, "op": d["op"], "es": self.msym(d["es"]), "ed": self.msym(d["ed"]), "sha": self.msym(d["sha"]),
              "spa": self.isym(d["spa"]), "tha": self.msym(d["tha"]), "tpa": self.isym(d["tpa"])}
    return {"k": "other:%04x" % d["et"], "op": 0, "es": self.msym(d["es"]), "ed": self.msym(d["ed"]), "sha": "-",
            "spa": "-", "tha": "-", "tpa": "-"}

  def acts_rec(self, acts):
    out = []
    for a in acts:
      if a.get("type") == 0 and a.get("len") == 8:
        out.append({"t": "out", "m": "-", "o": int(a["body"][:4], 16)})
      elif a.get("type") == 5 and a.get("len") == 16:
        b = bytes.fromhex(a["body"])[:6]
        out.append({"t": "dst", "m": self.msym(":".join("%02x" % x for x in b)), "o": 0})
      else:
        out.append({"t": "?type%s" % a.get("type"), "m": "-", "o": 0})
    return out

  # -- buffer ids
  def bind_pin(self, m):
    if m["buffer_id"] == rb.NO_BUFFER:
      return 0
    if m["buffer_id"] in self.bind:
      return "DUPLICATE-ID"
    free = [s for s in range(1, self.nbuf + 1) if s not in self.bind.values()]
    if not free:
      return "ID-BEYOND-POOL"
    self.bind[m["buffer_id"]] = free[0]
    return free[0]

  def slot_of(self, bid):
    if bid is None or bid == rb.NO_BUFFER:
      return 0
    return self.bind.get(bid, "STALE-ID")

  def msg_rec(self, m, used, exact=None):
    if m["type"] == rb.PACKET_OUT:
      buf = self.slot_of(m["buffer_id"])
      if isinstance(buf, int) and buf:
        used.append(m["buffer_id"])
      return {"k": "po", "buf": buf, "inp": m["in_port"], "acts": self.acts_rec(m["actions"]),
              "data": self.frame_rec(m["data"]) if m["data"] else dict(NOFRAME), "mt": "-", "idle": 0}
    if m["type"] == rb.FLOW_MOD:
      buf = self.slot_of(m["buffer_id"])
      if isinstance(buf, int) and buf:
        used.append(m["buffer_id"])
      mt = self.match_kind(m, exact)
      return {"k": "fm", "buf": buf, "inp": 0, "acts": self.acts_rec(m["actions"]), "data": dict(NOFRAME),
              "mt": mt, "idle": m["idle_timeout"]}
    return {"k": "?" + m["name"], "buf": 0, "inp": 0, "acts": [], "data": dict(NOFRAME), "mt": "-", "idle": 0}

  def match_kind(self, m, exact):
    if m["command"] != 0:
      return "command:%d" % m["command"]
    if m["hard_timeout"] != 0:
      return "hard:%d" % m["hard_timeout"]
    if exact is None:
      return "no-packet"
    mm = m["match"]
    bad = sorted(k for k, v in exact.items() if mm.get(k) != (v.hex() if isinstance(v, bytes) else v))
    return "exact" if not bad else "match-differs:" + ",".join(bad)

  def release_used(self, used, s2c):
    for bid in used:
      self.bind.pop(bid, None)
    return sum(1 for m in s2c if m["type"] == rb.ERROR)

  def rel(self, t):
    d = t - xn.clock.now
    if d != int(d):
      return "FRACTION:%r" % d
    return -1 if d < 0 else int(d)


class L3Adapter(Base):
  def __init__(self, nbuf=2, ports=2, ips=("a", "b", "g"), gws=("g",), consts=None, arp_for_unknowns=True,
               variant=0, wide=False):
    self.nbuf = nbuf
    self.ips = list(ips)
    self.gws = list(gws)
    self.dpid = DPIDS[variant % len(DPIDS)]
    self._init_syms(variant, self.dpid)
    self.net = xn.Net("l3", nports=ports, max_buffers=nbuf, dpid=self.dpid, consts=consts or {},
                      fakeways=",".join(self.ipmap[g] for g in self.gws),
                      arp_for_unknowns="True" if arp_for_unknowns else "False", wide=wide)
    self.comp = self.net.comp
    self.bind = {}
    self.sent_ip = {}
    self.sport = 1000 + 37 * variant
    if any(m["type"] in (rb.PACKET_OUT,) for m in self.net.setup_c2s):
      raise Machinery("unexpected traffic during set-up")

  def close(self):
    self.net.close()

  # -- projection of the component's tables
  def project(self):
    from pox.lib.addresses import IPAddr
    c = self.comp
    tbl, wait, arps = {}, {}, {}
    t = c.arpTable.get(self.dpid)
    for ip in self.ips:
      tbl[ip] = [0, "-", 0]
      wait[ip] = []
      arps[ip] = 0
    if t is None:
      for g in c.fakeways:
        tbl[self.isym(g)] = [NONE, "sw", 0]
    else:
      for k, e in t.items():
        tbl[self.isym(k)] = [e.port, self.msym(e.mac), 0 if e.port == NONE else self.rel(e.timeout)]
    for (dp, k), bucket in c.lost_buffers.items():
      key = self.isym(k) if dp == self.dpid else "?dpid%s/%s" % (dp, k)
      wait[key] = [[self.rel(x), self.slot_of(b), p] for (x, b, p) in bucket]
    for (dp, k), v in c.outstanding_arps.items():
      key = self.isym(k) if dp == self.dpid else "?dpid%s/%s" % (dp, k)
      r = self.rel(v)
      arps[key] = r if isinstance(r, int) and r > 0 else (0 if isinstance(r, int) else r)
    # an empty bucket is the same as no bucket
    return {"tbl": tbl, "wait": wait, "arps": arps}

  def _result(self, r, exact=None, tick=False):
    pins = [m for m in r["s2c"] if m["type"] == rb.PACKET_IN]
    other = [m for m in r["s2c"] if m["type"] not in (rb.PACKET_IN, rb.ERROR)]
    if tick:
      pin = 0 if not pins else "UNEXPECTED-PACKET-IN"
    elif len(pins) != 1:
      pin = "PACKET-INS:%d" % len(pins)
    else:
      pin = self.bind_pin(pins[0])
    used = []
    msgs = [self.msg_rec(m, used, exact) for m in r["c2s"]]
    errs = self.release_used(used, r["s2c"])
    obs = {"pin": pin, "msgs": bag([[m] for m in msgs]) if tick else msgs,
           "out": bag([[p, self.frame_rec(f)] for p, f in r["emitted"]]), "errs": errs, "st": self.project()}
    if other:
      obs["s2c"] = [m["name"] for m in other]
    return obs

  def step(self, a, args):
    if a == "IpIn":
      self.sport += 1
      fr = xn.ip_udp_frame(self.macmap["rt"], self.macmap[args["mac"]], self.ipmap[args["ip"]],
                           self.ipmap[args["dip"]], self.sport)
      self.sent_ip[self.sport] = fr
      exact = dict(wildcards=0, in_port=args["p"], dl_src=rb.mac(self.macmap[args["mac"]]),
                   dl_dst=rb.mac(self.macmap["rt"]), dl_vlan=0xffff, dl_vlan_pcp=0, dl_type=0x0800, nw_tos=0,
                   nw_proto=17, nw_src=rb.ip(self.ipmap[args["ip"]]), nw_dst=rb.ip(self.ipmap[args["dip"]]),
                   tp_src=self.sport, tp_dst=9)
      return self._result(self.net.inject(args["p"], fr), exact)
    if a == "ArpIn":
      op = args["op"]
      fr = xn.arp_frame(self.macmap["bc" if op == 1 else "rt"], self.macmap[args["es"]], op,
                        self.macmap[args["sha"]], self.ipmap[args["spa"]], self.macmap["no" if op == 1 else "rt"],
                        self.ipmap[args["tpa"]])
      if args["ht"] != 1:
        fr = fr[:14] + bytes([args["ht"] >> 8, args["ht"] & 0xff]) + fr[16:]
      return self._result(self.net.inject(args["p"], fr))
    if a == "OtherIn":
      fr = rb.pad_to(rb.eth(self.macmap["rt"], self.macmap["m1"], 0x88b5, b"\x01\x02\x03"), 60)
      return self._result(self.net.inject(args["p"], fr))
    if a == "Tick":
      self.net.advance(args["d"])
      return self._result(self.net.take(), tick=True)
    raise Machinery("unknown action " + a)

  def signature(self, st, obs):
    sig = {"action": st["a"]}
    exp = st["exp"]
    if isinstance(obs, dict) and "EXC" in obs:
      sig["observed"] = "exception:" + obs["EXC"]
      return sig
    sig["fields"] = sorted(k for k in set(exp) | set(obs) if obs.get(k) != exp.get(k))
    if "st" in sig["fields"] and isinstance(obs.get("st"), dict):
      sig["st"] = sorted(k for k in exp["st"] if obs["st"].get(k) != exp["st"][k])
    if "msgs" in sig["fields"]:
      sig["expected_msgs"] = len(exp.get("msgs", []))
      sig["observed_msgs"] = len(obs.get("msgs", []))
    return sig


class ArpAdapter(Base):
  """specs/l3/ArpResp.tla -> pox/proto/arp_responder.py (started by its launch()) over a real switch."""
  VLAN = (5, 3)

  def __init__(self, nbuf=2, ports=2, ips=("a", "h", "g"), statics=None, timeout=240, learn=True, eat=True, variant=0):
    self.nbuf = nbuf
    self.ips = list(ips)
    self.dpid = DPIDS[variant % len(DPIDS)]
    self._init_syms(variant, self.dpid)
    statics = {"h": "ms", "g": "SW"} if statics is None else statics
    kw = {self.ipmap[ip]: (True if m == "SW" else self.macmap[m]) for ip, m in statics.items()}
    self.net = xn.Net("arp", nports=ports, max_buffers=nbuf, dpid=self.dpid, timeout=timeout,
                      eat_packets="True" if eat else "False", no_learn=not learn, **kw)
    self.mod = xn.armod
    self.bind = {}
    self.sent_ip = {}
    self.sport = 2000 + 41 * variant

  def close(self):
    self.net.close()

  def project(self):
    tbl = {ip: ["-", False, False, 0] for ip in self.ips}
    for k, e in self.mod._arp_table.items():
      tbl[self.isym(k)] = ["SW" if e.mac is True else self.msym(e.mac), bool(e.static), bool(e.flood),
                           0 if e.static else self.rel(e.timeout)]
    return {"tbl": tbl, "fq": sorted(self.isym(k) for k in self.mod._failed_queries)}

  def _setup_rec(self, m):
    r = self.msg_rec(m, [])
    if m["type"] == rb.FLOW_MOD:
      mm = m["match"]
      w = mm["wildcards"]
      need = rb.FW_IN_PORT | rb.FW_DL_VLAN | rb.FW_DL_SRC | rb.FW_DL_DST | rb.FW_NW_PROTO | rb.FW_DL_VLAN_PCP
      # every ARP packet and nothing else: type given, everything that exists in an ARP packet wildcarded
      # (transport ports / ToS do not exist in ARP: C01/C03 decide how they are normalised)
      ok = (m["command"] == 0 and w & need == need and not w & rb.FW_DL_TYPE and mm["dl_type"] == 0x0806
            and (w >> rb.FW_NW_SRC_SHIFT) & 63 >= 32 and (w >> rb.FW_NW_DST_SHIFT) & 63 >= 32
            and m["hard_timeout"] == 0 and m["idle_timeout"] == 0)
      r["mt"] = "arp/p%d" % m["priority"] if ok else "unexpected-match:%s" % canon(mm)
    return r

  def _result(self, r, quiet=False):
    pins = [m for m in r["s2c"] if m["type"] == rb.PACKET_IN]
    other = [m for m in r["s2c"] if m["type"] not in (rb.PACKET_IN, rb.ERROR)]
    if quiet:
      pin = 0 if not pins else "UNEXPECTED-PACKET-IN"
      halted = bool(pins) and not r["seen"]
    elif len(pins) != 1:
      pin = "PACKET-INS:%d" % len(pins)
      halted = False
    else:
      pin = self.bind_pin(pins[0])
      halted = len(r["seen"]) == 0
      if len(r["seen"]) > 1:
        halted = "SEEN-%d-TIMES" % len(r["seen"])
    used = []
    msgs = [self.msg_rec(m, used) for m in r["c2s"]]
    errs = self.release_used(used, r["s2c"])
    obs = {"pin": pin, "msgs": msgs, "out": bag([[p, self.frame_rec(f)] for p, f in r["emitted"]]), "errs": errs,
           "halted": halted, "st": self.project()}
    if other:
      obs["s2c"] = [m["name"] for m in other]
    return obs

  def step(self, a, args):
    if a == "Up":
      # the connection came up in the constructor; what the component sent then (after the handshake's own
      # messages) is compared here
      msgs = [self._setup_rec(m) for m in self.net.setup_c2s if m["type"] in (rb.FLOW_MOD, rb.PACKET_OUT)
              and not (m["type"] == rb.FLOW_MOD and m["command"] == 3)]       # the nexus clears the tables first
      return {"pin": 0, "msgs": msgs, "out": [], "errs": 0, "halted": False, "st": self.project()}
    if a == "ArpIn":
      op = args["op"]
      fr = xn.arp_frame(self.macmap["bc" if op == 1 else "rt"], self.macmap[args["es"]], op,
                        self.macmap[args["sha"]], self.ipmap[args["spa"]], self.macmap["no" if op == 1 else "rt"],
                        self.ipmap[args["tpa"]], vlan=self.VLAN if args["vl"] else None)
      return self._result(self.net.inject(args["p"], fr))
    if a == "OtherIn":
      self.sport += 1
      fr = xn.ip_udp_frame(self.macmap["rt"], self.macmap["m1"], self.ipmap["a"], self.ipmap["g"], self.sport)
      self.sent_ip[self.sport] = fr
      return self._result(self.net.inject(args["p"], fr))
    if a == "Set":
      xn.core.Interactive.variables["arp"].set(self.ipmap[args["ip"]], True if args["mac"] == "SW" else self.macmap[args["mac"]],
                              static=args["static"])
      self.net._settle()
      return self._result(self.net.take(), quiet=True)
    if a == "Del":
      del xn.core.Interactive.variables["arp"][self.ipmap[args["ip"]]]
      self.net._settle()
      return self._result(self.net.take(), quiet=True)
    if a == "Tick":
      self.net.advance(args["d"])
      return self._result(self.net.take(), quiet=True)
    raise Machinery("unknown action " + a)

  signature = L3Adapter.signature
