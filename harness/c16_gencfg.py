"""Regenerates specs/addr/*.cfg (C16).  The .cfg files are committed; this
script only documents how the alphabets of the runs are composed:
  /venv/bin/python harness/c16_gencfg.py
"""
import os

D = os.path.join(os.path.dirname(os.path.dirname(os.path.abspath(__file__))), "specs", "addr")
ORDER = ["Areas", "Wide4", "Sweep4", "Base4", "Net4", "Flip4", "Cidr4B", "Sweep6", "Base6", "Net6", "Flip6",
         "Cidr6B", "Rich6", "Macs", "RichMacs", "Dpids", "DpidsRT"]
PROPS = ["INVARIANT TypeOK", "INVARIANT CanonRoundTrip", "PROPERTY ConstructOK", "PROPERTY TextRulesOK",
         "PROPERTY MembershipOK", "PROPERTY CidrRulesOK", "PROPERTY Immutable"]


def cfg(name, consts, mode):
  lines = ["CONSTANTS"] + ["  %s <- %s" % (c, consts[c]) for c in ORDER]
  lines += ["  Remake = %s" % consts.get("Remake", "FALSE"), "  D = %s" % consts.get("D", 2)]
  if mode == "trace":
    lines += ["INIT TrInit", "NEXT TrNext", "CONSTRAINT Progress", "POSTCONDITION Accepted",
              "INVARIANT TypeOK", "INVARIANT CanonRoundTrip", "PROPERTY MembershipOK", "PROPERTY Immutable"]
  else:
    lines += ["INIT Init", "NEXT Next"]
    if mode == "export":      # = model checking of this alphabet + one printed behaviour per transition
      lines += ["VIEW view", "ACTION_CONSTRAINT ExportT"] + PROPS
    elif mode == "sim":
      lines += ["INVARIANT Export"]
  lines.append("CHECK_DEADLOCK FALSE")
  with open(os.path.join(D, name), "w") as f:
    f.write("\n".join(lines) + "\n")


E = "MCEmpty"
off4 = dict(Wide4=E, Sweep4=E, Base4=E, Net4=E, Flip4=E, Cidr4B=E)
off6 = dict(Sweep6=E, Base6=E, Net6=E, Flip6=E, Cidr6B=E, Rich6=E)
offm = dict(Macs=E, RichMacs=E, Dpids=E, DpidsRT=E)
micro = dict(Areas="AllAreas", Wide4=E, Sweep4="MCMicro4", Base4="MCMicro4", Net4="MCMicro4", Flip4="MCMicroFlip",
             Cidr4B="MCMicro4", Sweep6="MCMicro6", Base6="MCMicro6", Net6="MCMicro6", Flip6="MCMicroFlip",
             Cidr6B="MCMicro6", Rich6="MCMicro6", Macs="MCMicroMac", RichMacs="MCMicroMac", Dpids="MCMicroDpid",
             DpidsRT="MCMicroDpid")
q4 = dict(Areas="OnlyV4", Wide4="MCWide4Q", Sweep4="MCSweep4QQ", Base4="MCBase4", Net4="MCNet4Q", Flip4="MCFlip4Q",
          Cidr4B="MCCidr4Q", **off6, **offm)
q6 = dict(Areas="OnlyV6", Sweep6="MCSweep6Q", Base6="MCBase6", Net6="MCNet6Q", Flip6="MCFlip6QQ", Cidr6B="MCCidr6Q",
          Rich6="MCRich6", Macs="MCMicroMac", RichMacs=E, Dpids=E, DpidsRT=E, **off4)
qm = dict(Areas="OnlyMacDpid", Macs="MCMacs", RichMacs="MCRichMacs", Dpids="MCDpidsQ", DpidsRT="MCDpidsRTQ",
          **off4, **off6)
cfg("EX_q_v4.cfg", q4, "export")
cfg("EX_q_v6.cfg", q6, "export")
cfg("EX_q_md.cfg", qm, "export")
only4 = dict(off6, **offm)
none4 = dict(Areas="OnlyV4", Wide4=E, Sweep4=E, Base4=E, Net4=E, Flip4=E, Cidr4B=E, **only4)
none6 = dict(Areas="OnlyV6", Macs="MCMicroMac", RichMacs=E, Dpids=E, DpidsRT=E, **off4, **off6)
thorough = {
    "t_v4a": dict(none4, Wide4="MCWide4T"),                          # octet sweep, reduced forms
    "t_v4b": dict(none4, Sweep4="MCSweep4T"),                        # octet sweep, every form
    "t_v4c": dict(none4, Base4="MCBase4", Net4="MCBase4", Flip4="MCFlip4T", Cidr4B="MCBase4"),
    "t_v6a": dict(none6, Sweep6="MCSweep6T"),                        # zero patterns x value classes
    "t_v6b": dict(none6, Base6="MCBase6", Net6="MCBase6", Flip6="MCFlip6Q"),
    "t_v6c": dict(none6, Base6="MCNet6Q", Net6="MCNet6Q", Flip6="MCFlip6T"),
    "t_v6d": dict(none6, Cidr6B="MCBase6"),
    "t_md": dict(qm, DpidsRT="MCDpidsRTT"),
}
for n, c in thorough.items():
  cfg("EX_%s.cfg" % n, c, "export")
# long random behaviours: micro alphabets (TLC's simulator generates every candidate
# successor of the action it picks, so the alphabets decide the cost of a step)
sim = dict(micro, Rich6=E, RichMacs=E, Cidr4B=E, Cidr6B=E, Remake="TRUE", D=7)
cfg("EX_sim.cfg", sim, "sim")
cfg("Trace.cfg", dict(micro, Remake="TRUE", D=0), "trace")
