"""X08 adapter: HostTracker.tla actions -> the real host_tracker behind real switches.

step(a, args) performs the spec action on the real code (frames into real SoftwareSwitches, virtual time,
the component's own Timer) and returns the observation in exactly the JSON shape of the spec's `exp`
(sets -> sorted lists on both sides).
"""
import json

from harness import x08_net as xn
from harness import rawbytes as rb

MAC_FAMILIES = [
    {"m1": "00:00:00:00:0a:01", "m2": "00:00:00:00:0a:02", "m3": "00:00:00:00:0a:03"},
    {"m1": "0e:11:22:33:44:55", "m2": "0e:11:22:33:44:56", "m3": "0e:11:22:33:45:55"},
    {"m1": "00:a0:c9:ff:ff:fe", "m2": "00:a0:c9:00:00:01", "m3": "fe:ff:ff:ff:ff:fe"},
]
IP_FAMILIES = [
    {"i1": "10.0.0.1", "i2": "10.0.0.2", "i3": "10.0.0.3"},
    {"i1": "192.168.255.254", "i2": "192.168.0.1", "i3": "172.16.0.9"},
    {"i1": "1.0.0.0", "i2": "223.255.255.255", "i3": "100.64.0.1"},
]
DPID_FAMILIES = [[1, 2, 3], [2, 1, 7], [0x00a0c9000001, 0x7fffffffffffffff, 0x100000000]]
OTHER_MAC = "00:00:00:00:0b:77"
OTHER_IP = "10.9.9.9"
BCAST = "ff:ff:ff:ff:ff:ff"
ZMAC = "00:00:00:00:00:00"


def canon(x):
  return json.dumps(x, sort_keys=True, separators=(",", ":"))


def caps(c):
  """the age caps of HostTracker.tla (CapM, CapI, CapP)"""
  return (max(c["MacLife"], c["entryMove"]) + 1, max(c["arpAware"], c["arpSilent"]) + 1, c["arpReply"] + 1)


class Adapter(object):
  def __init__(self, consts=None, macs=("m1", "m2"), ips=("i1", "i2"), nsw=2, nports=3, variant=0, max_buffers=2):
    """consts: arpAware, arpSilent, arpReply, timerInterval, entryMove, pingLim (passed to host_tracker.launch)
    and MacLife (what the spec assumes for the liveness interval of a MAC entry; not passed anywhere)"""
    c = dict(arpAware=120, arpSilent=1200, arpReply=4, timerInterval=5, entryMove=60, pingLim=3, MacLife=120)
    c.update(consts or {})
    self.c = c
    self.capM, self.capI, self.capP = caps(c)
    fam = MAC_FAMILIES[variant % len(MAC_FAMILIES)]
    self.mac = {m: fam[m] for m in macs}
    self.mac_sym = {v: k for k, v in self.mac.items()}
    fam = IP_FAMILIES[variant % len(IP_FAMILIES)]
    self.ip = {i: fam[i] for i in ips}
    self.ip_sym = {v: k for k, v in self.ip.items()}
    self.macs, self.ips = list(macs), list(ips)
    dp = DPID_FAMILIES[variant % len(DPID_FAMILIES)][:nsw]
    launch = {k: v for k, v in c.items() if k != "MacLife"}
    self.net = xn.Net(nsw=nsw, nports=nports, max_buffers=max_buffers, consts=launch, dpids=dp)
    self.sport = 4000
    for s in range(1, nsw + 1):
      if self._flows(self.net.setup[s]["c2s"][s]) != 1:
        raise xn.Machinery("no ping flow installed at start-up")

  def close(self):
    self.net.close()

  # ------------------------------------------------------------------ projections
  def _age(self, a, cap):
    a = min(a, cap)
    return int(a) if float(a).is_integer() else a

  def _tab(self):
    t = self.net.table()
    out = {}
    extra = []
    for m in self.macs:
      out[m] = [0, 0, 0, {i: [0, 0, 0, 0, 0] for i in self.ips}]
    for mac, (dpid, port, age, ips, macattr, _iv) in t.items():
      m = self.mac_sym.get(mac)
      if m is None or macattr != mac:
        extra.append(mac)
        continue
      row = [self.net.s_of.get(dpid, -1), port, self._age(age, self.capM), {i: [0, 0, 0, 0, 0] for i in self.ips}]
      for ipa, (has_arp, iage, pend, page, _iv2) in ips.items():
        i = self.ip_sym.get(ipa)
        if i is None:
          extra.append(mac + "/" + ipa)
          continue
        row[3][i] = [1, 1 if has_arp else 0, self._age(iage, self.capI), pend,
                     self._age(page, self.capP) if pend > 0 else 0]
      out[m] = row
    if extra:
      out["unexpected"] = sorted(extra)
    return out

  def _events(self, evs):
    out = []
    for e in evs:
      out.append(dict(k=e["k"], mac=self.mac_sym.get(e["mac"], e["mac"]), dpid=self.net.s_of.get(e["dpid"], -1),
                      port=e["port"], nd=self.net.s_of.get(e["nd"], -1) if e["k"] == "move" else 0, np=e["np"]))
    return sorted(out, key=canon)

  def _flows(self, msgs):
    """how many of these controller messages are the tracker's flow: ARP to the ping address -> controller,
    priority above the default"""
    n = 0
    for m in msgs:
      if m["type"] != rb.FLOW_MOD:
        continue
      mt = m["match"]
      if mt["dl_dst"] != rb.mac(xn.PING_MAC).hex():
        continue
      ok = (mt["dl_type"] == 0x0806 and not (mt["wildcards"] & (rb.FW_DL_TYPE | rb.FW_DL_DST)) and
            (mt["wildcards"] & rb.FW_IN_PORT) and (mt["wildcards"] & rb.FW_DL_SRC) and
            m["priority"] == 0x8001 and m["command"] == rb.FC_ADD and
            [(a["type"], a["body"][:4]) for a in m["actions"]] == [(0, "fffd")])
      n += 1 if ok else 1000
    return n

  def _trouble(self, r, allow_pin=None, allow_po=False):
    """anything the spec has no word for"""
    t = []
    if r["faults"]:
      t.append("exception:" + r["faults"][0])
    for lvl, msg in r["log"]:
      if lvl == "error":
        t.append("error:" + msg[:60])
    for s, msgs in r["s2c"].items():
      names = [m["name"] for m in msgs]
      if names != ["PACKET_IN"] * len(names) or len(names) > (allow_pin or {}).get(s, 0):
        t.append("s2c%d:%s" % (s, ",".join(names)))
    for s, msgs in r["c2s"].items():
      names = [m["name"] for m in msgs]
      if names and not (allow_po and names == ["PACKET_OUT"] * len(names)):
        t.append("c2s%d:%s" % (s, ",".join(names)))
    return t

  # ------------------------------------------------------------------ frames
  def _frame(self, m, k, i):
    mac = self.mac[m]
    ipa = self.ip.get(i)
    if k == "arpq":
      return xn.arp_frame(BCAST, mac, 1, mac, ipa, ZMAC, OTHER_IP)
    if k == "arpr":
      return xn.arp_frame(xn.PING_MAC, mac, 2, mac, ipa, xn.PING_MAC, "0.0.0.0")
    if k == "ip":
      self.sport += 1
      return xn.ip_udp_frame(OTHER_MAC, mac, ipa, OTHER_IP, sport=self.sport)
    if k == "ipp":
      self.sport += 1
      return xn.ip_udp_frame(xn.PING_MAC, mac, ipa, OTHER_IP, sport=self.sport)
    if k == "arp0":
      return xn.arp_frame(BCAST, mac, 1, mac, "0.0.0.0", ZMAC, OTHER_IP)
    if k == "raw":
      return rb.pad_to(rb.eth(OTHER_MAC, mac, 0x88b5, b"\x01\x02\x03"), 60)
    if k == "lldp":
      return xn.lldp_probe(0x77, 1, mac, dst=OTHER_MAC)
    raise ValueError(k)

  # ------------------------------------------------------------------ actions
  def step(self, a, args):
    net = self.net
    if a == "PacketIn":
      s, p = args["sw"], args["port"]
      r = net.inject(s, p, self._frame(args["mac"], args["kind"], args["ip"]))
      dups = sum(1 for lvl, msg in r["log"] if lvl == "warning" and msg.startswith("Possible duplicate"))
      obs = {"ev": self._events(r["events"]), "dup": dups == 1 if dups < 2 else dups,
             "halted": r["seen"] != [s], "msgs": sum(len(v) for v in r["c2s"].values()), "tab": self._tab()}
      t = self._trouble(r, allow_pin={s: 1}) + (["frames-out"] if r["emitted"] else [])
      if r["seen"] not in ([s], []):
        t.append("seen:%r" % (r["seen"],))
      other_w = [msg for lvl, msg in r["log"] if lvl == "warning" and not msg.startswith("Possible duplicate")]
      if other_w:
        t.append("warning:" + other_w[0][:60])
      if t:
        obs["unexpected"] = t
      return obs
    if a == "CheckTimeouts":
      due = net.timer_due()
      if due != 0:
        return {"timer_not_due": due}
      net.fire()
      r = net.take()
      pings, bad = [], []
      npo = {s: 0 for s in net.nodes}
      for s, p, fr in r["emitted"]:
        d = xn.decode_frame(fr)
        if d["et"] == 0x88cc:
          continue                      # a discovery probe (never within the horizon of a scenario)
        npo[s] += 1
        ok = (d["kind"] == "arp" and d["es"] == xn.PING_MAC and d["sha"] == xn.PING_MAC and d["op"] == 1 and
              d["htype"] == 1 and d["ptype"] == 0x0800 and d["hlen"] == 6 and d["plen"] == 4 and
              d["spa"] == "0.0.0.0" and d["ed"] == d["tha"] and d["ed"] in self.mac_sym and d["tpa"] in self.ip_sym)
        if ok:
          pings.append([s, p, self.mac_sym[d["ed"]], self.ip_sym[d["tpa"]]])
        else:
          bad.append("frame:%d.%d:%s" % (s, p, fr[:42].hex()))
      warn = sum(1 for lvl, msg in r["log"] if lvl == "warning" and "expired but still had IP" in msg)
      obs = {"pings": sorted(pings), "ev": self._events(r["events"]), "warn": warn, "due": self._num(net.timer_due()),
             "tab": self._tab()}
      t = self._trouble(r, allow_po=True) + bad
      for s, msgs in r["c2s"].items():
        if len(msgs) != npo[s]:
          t.append("packet_outs%d:%d/frames:%d" % (s, len(msgs), npo[s]))
      if r["seen"]:
        t.append("seen")
      other_w = [msg for lvl, msg in r["log"] if lvl == "warning" and "expired but still had IP" not in msg]
      if other_w:
        t.append("warning:" + other_w[0][:60])
      if t:
        obs["unexpected"] = t
      return obs
    if a == "Advance":
      net.advance(args["d"])
      r = net.take()
      obs = {"due": self._num(net.timer_due())}
      t = self._trouble(r)
      if r["events"] or r["emitted"] or r["seen"]:
        t.append("activity")
      if t:
        obs["unexpected"] = t
      return obs
    if a == "LinkUp":
      (s1, p1), (s2, p2) = args["a"], args["b"]
      before = self._tab()
      r = net.inject(s2, p2, xn.lldp_probe(net.nodes[s1].dpid, p1, net.port_mac(s1, p1)))
      obs = {"nonedge": net.nonedge()}
      t = self._trouble(r, allow_pin={s2: 1}, allow_po=True)     # discovery drops the probe's buffer explicitly
      if r["events"] or r["emitted"] or r["seen"] or self._tab() != before:
        t.append("activity")
      if t:
        obs["unexpected"] = t
      return obs
    if a == "ConnDown":
      before = self._tab()
      r = net.disconnect(args["sw"])
      obs = {"nonedge": net.nonedge(), "ev": self._events(r["events"])}
      t = self._trouble(r)
      if self._tab() != before or r["emitted"]:
        t.append("activity")
      if t:
        obs["unexpected"] = t
      return obs
    if a == "ConnUp":
      before = self._tab()
      s = args["sw"]
      r = net.connect(s)
      obs = {"flow": self._flows(r["c2s"][s]), "nonedge": net.nonedge(), "ev": self._events(r["events"])}
      t = []
      if r["faults"]:
        t.append("exception:" + r["faults"][0])
      if self._tab() != before:
        t.append("activity")
      if t:
        obs["unexpected"] = t
      return obs
    raise ValueError(a)

  @staticmethod
  def _num(x):
    return int(x) if float(x).is_integer() else x

  # ------------------------------------------------------------------ failure classification
  def signature(self, st, obs):
    sig = {"action": st["a"], "via": st.get("via", "?")}
    exp = st["exp"]
    if not isinstance(obs, dict):
      sig["observed"] = "garbage"
      return sig
    if "EXC" in obs:
      sig["observed"] = "exception:" + obs["EXC"]
      return sig
    if "unexpected" in obs:
      sig["unexpected"] = sorted(set(x.split(":")[0] for x in obs["unexpected"]))
    sig["fields"] = sorted(k for k in exp if obs.get(k) != exp[k])
    if st["a"] == "PacketIn":
      sig["kind"] = st["args"]["kind"]
    if "tab" in sig["fields"] and isinstance(obs.get("tab"), dict):
      cols = set()
      for m, row in exp["tab"].items():
        o = obs["tab"].get(m)
        if not isinstance(o, list) or len(o) != 4:
          cols.add("row")
          continue
        for name, x, y in zip(("dpid", "port", "age"), row[:3], o[:3]):
          if x != y:
            cols.add(name)
        for i, iv in row[3].items():
          ov = o[3].get(i, [])
          for name, x, y in zip(("on", "arp", "ipage", "pend", "pa"), iv, list(ov) + [None] * 5):
            if x != y:
              cols.add(name)
      sig["tab"] = sorted(cols)
    return sig
