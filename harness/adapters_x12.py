"""X12 adapters: Rip.tla / RipNet.tla actions -> the real rip_core code (see harness/x12_env.py).

Observation after EVERY step (same JSON shape as the spec's `exp`):
  tbl   sorted [[key, next hop, metric, dev, kind, changed, timer kind, time left]]   - the whole table, read
        from the real Entry objects and their real recoco Timers
  trig  time left on every live trigger_update Timer of the router (the spec allows at most one)
  out   per interface: adv = sorted [[key, metric]] of all entries of all packets sent in this step (a route sent
        twice shows up twice), sizes = entries per packet, in order
  sync  number of sync_table calls in this step
  orph  live timers that belong to nothing the spec knows (an entry that is no longer in the table, a second
        trigger timer, ...) or that are overdue
  wire  "ok" when every packet parsed back as RIP v2 RESPONSE with AF_INET / tag 0 / next hop 0.0.0.0 entries
"""
from engine.core import Machinery
from harness import x12_env as env
from harness.x12_env import IPAddr, RIP

IFACES = ["i1", "i2"]
ADDR = {"a": "10.0.1.2", "b": "10.0.1.3", "c": "10.0.2.2", "s1": "10.0.1.1", "s2": "10.0.2.1"}


def prefix_of(k):
  """abstract key -> (ip, bits)"""
  if k in ADDR:
    return ADDR[k], 32
  if k.startswith("p") and k[1:].isdigit():
    n = int(k[1:])
    return "172.%d.%d.0" % (16 + n // 256, n % 256), 24
  raise Machinery("unknown key %r" % (k,))


class Names(object):
  def __init__(self, addr=None):
    self.addr = dict(addr or ADDR)
    self.by_ip = {v: k for k, v in self.addr.items()}

  def prefix(self, k):
    if k in self.addr:
      return self.addr[k], 32
    return prefix_of(k)

  def key(self, ip, bits):
    ip = str(ip)
    if bits == 32 and ip in self.by_ip:
      return self.by_ip[ip]
    p = ip.split(".")
    if bits == 24 and p[0] == "172" and p[3] == "0":
      return "p%d" % ((int(p[1]) - 16) * 256 + int(p[2]))
    return "?%s/%s" % (ip, bits)

  def host(self, ip):
    if ip is None:
      return "-"
    return self.by_ip.get(str(ip), "?" + str(ip))


def observe(r, names):
  """-> (dict(tbl, trig) of one router read from the real objects, the live timers this accounts for)"""
  live = {t: due for t, due in env.timers() if not t._cancelled}
  tbl = []
  mine = set()
  for key, e in r.table.items():
    k = names.key(e.ip, e.size)
    if key != "%s/%s" % (e.ip, e.size):
      k = "badkey:" + key
    nh = names.host(e.next_hop)
    if e.origin != e.next_hop:
      nh = "origin!=next_hop"
    kind = "local" if e.local else "static" if e.static else "dyn"
    if e.t is None:
      tm, ttl = "none", 0
    elif e.t._cancelled or e.t not in live:
      tm, ttl = "dead", 0
    else:
      tm, ttl = env.cb_kind(e.t), env.remaining(live[e.t])
      mine.add(e.t)
    tbl.append([k, nh, e.metric, e.dev if e.dev else "-", kind, bool(e.changed), tm, ttl])
  trig = []
  for t, due in live.items():
    if t in mine or getattr(t._callback, "__self__", None) is not r:
      continue
    kind = env.cb_kind(t)
    if kind == "trig":
      trig.append(env.remaining(due))
      mine.add(t)
    elif kind == "per":
      mine.add(t)
  if bool(r.triggered_pending) != (len(trig) > 0):
    trig.append("pending=%s" % r.triggered_pending)
  return dict(tbl=sorted(tbl), trig=sorted(trig, key=str)), mine


def orphans(accounted):
  """live timers nothing accounts for (an entry no longer in a table, a second trigger timer ...) + overdue ones"""
  live = [(t, due) for t, due in env.timers() if not t._cancelled]
  return sum(1 for t, due in live if t not in accounted) + sum(1 for t, due in live if due < env.clock.now)


def decode_sent(sent, names, ifaces):
  """[(iface, bytes)] -> (out, wire)"""
  out = {i: dict(adv=[], sizes=[]) for i in ifaces}
  wires = set()
  for iface, data in sent:
    w, ents = env.rip_parse(data)
    wires.add(w)
    o = out.setdefault(iface, dict(adv=[], sizes=[]))
    o["sizes"].append(len(ents))
    for ip, bits, metric in ents:
      o["adv"].append([names.key(ip, bits), metric])
  for o in out.values():
    o["adv"].sort()
  wires.discard("ok")
  return out, ("ok" if not wires else ";".join(sorted(wires)))


def find_entry_timer(r, names, k, kind):
  ip, bits = names.prefix(k)
  e = r.table.get("%s/%s" % (ip, bits))
  if e is None:
    return None, "no entry %s" % k
  t = e.t
  if t is None or t._cancelled or t not in env.hub._tasks:
    return None, "entry %s has no live timer" % k
  if env.cb_kind(t) != kind:
    return None, "timer of %s is %s" % (k, env.cb_kind(t))
  if env.hub._tasks[t][4] != env.clock.now:
    return None, "timer of %s due in %s" % (k, env.remaining(env.hub._tasks[t][4]))
  return t, None


def find_trigger(r):
  for t, due in env.timers():
    if not t._cancelled and env.cb_kind(t) == "trig" and t._callback.__self__ is r:
      if due != env.clock.now:
        return None, "trigger timer due in %s" % env.remaining(due)
      return t, None
  return None, "no trigger timer"


def sweep_cancelled():
  """cancelled timers whose time has come wake up and quit - nothing observable"""
  for t, due in env.timers():
    if t._cancelled and due <= env.clock.now:
      env.release(t)


def wire_ents(names, ents):
  return [names.prefix(e["k"]) + (e["m"], e["tag"], e["af"]) for e in ents]


class Adapter(object):
  """Rip.tla: one router, neighbours a, b (i1), c (i2), own addresses s1 (i1), s2 (i2)."""

  def __init__(self, T=25, G=70, R=2, mtu=None, ifof=None, ifaces=None, local_src="s1"):
    env.reset()
    self.names = Names()
    self.ifof = dict(ifof or {"a": "i1", "b": "i1", "c": "i2", "s1": "i1", "s2": "i2"})
    self.ifaces = list(ifaces or IFACES)
    self.local_src = local_src
    self.r = env.MiniRouter("r", self.ifaces, T, G, R, mtu=mtu)
    env.settle()

  def close(self):
    env.reset()

  def _obs(self):
    env.settle()
    sweep_cancelled()
    o, mine = observe(self.r, self.names)
    o["orph"] = orphans(mine)
    o["out"], o["wire"] = decode_sent(self.r.sent, self.names, self.ifaces)
    o["sync"] = self.r.syncs
    return o

  def step(self, a, args):
    r = self.r
    r.sent = []
    r.syncs = 0
    nm = self.names
    if a == "Response":
      iface = None if args["i"] == "none" else args["i"]
      r.receive(iface, ADDR[args["n"]], env.rip_bytes(RIP.RIP_RESPONSE, wire_ents(nm, args["ents"])))
    elif a == "Request":
      r.receive(self.ifof[args["n"]], ADDR[args["n"]],
                env.rip_bytes(RIP.RIP_REQUEST, [("0.0.0.0", 0, 16, 0, "zero")]))
    elif a == "Advance":
      env.clock.advance(args["d"])
    elif a in ("Timeout", "Garbage"):
      t, err = find_entry_timer(r, nm, args["k"], "to" if a == "Timeout" else "gc")
      if t is None:
        o = self._obs()
        o["err"] = err
        return o
      env.release(t)
    elif a == "Fire":
      t, err = find_trigger(r)
      if t is None:
        o = self._obs()
        o["err"] = err
        return o
      env.release(t)
    elif a == "Periodic":
      r._on_send()
    elif a == "Query":
      dests = r._get_port_ip_map().get(args["i"])
      for p in r.get_responses(dests, force=args["force"], static_only=args["so"], mtu=args["mtu"]):
        r.sent.append((args["i"], p.pack()))
    elif a == "AddStatic":
      ip, bits = nm.prefix(args["k"])
      r.add_static_route((IPAddr(ip), bits), IPAddr(ADDR[args["nh"]]), metric=args["m"])
    elif a == "AddConnected":
      ip, bits = nm.prefix(args["k"])
      r.add_connected((IPAddr(ip), bits), args["i"])
    elif a == "AddLocal":
      ip, bits = nm.prefix(args["k"])
      r.add_local_route((IPAddr(ip), bits), IPAddr(ADDR[self.local_src]), metric=args["m"])
    elif a == "AddIface":
      r.add_iface_route(self.ifof[args["s"]], IPAddr(ADDR[args["s"]]))
    else:
      raise Machinery("unknown action %r" % (a,))
    return self._obs()

  def signature(self, st, obs):
    return signature(st, obs)


def signature(st, obs):
  sig = {"action": st["a"]}
  exp = st["exp"]
  if not isinstance(obs, dict) or "EXC" in obs:
    sig["observed"] = "exception:" + (obs.get("EXC", "?") if isinstance(obs, dict) else "?")
    return sig
  diff = sorted(k for k in set(exp) | set(obs) if obs.get(k) != exp.get(k))
  sig["fields"] = diff
  if "tbl" in diff and isinstance(obs.get("tbl"), list):
    cols = set()
    eo = {tuple(x[:1]): x for x in exp["tbl"]}
    oo = {tuple(x[:1]): x for x in obs["tbl"]}
    if set(eo) != set(oo):
      cols.add("keys")
    for k in set(eo) & set(oo):
      for j, c in enumerate(["k", "nh", "m", "dev", "kind", "chg", "tm", "ttl"]):
        if eo[k][j] != oo[k][j]:
          cols.add(c)
    sig["tbl_cols"] = sorted(cols)
  if "out" in diff and isinstance(obs.get("out"), dict):
    what = set()
    for i in set(exp["out"]) | set(obs["out"]):
      e, o = exp["out"].get(i, {}), obs["out"].get(i, {})
      if e.get("adv") != o.get("adv"):
        what.add("adv")
      if e.get("sizes") != o.get("sizes"):
        what.add("sizes")
    sig["out"] = sorted(what)
  if st["a"] == "Response":
    sig["iface"] = "none" if st["args"].get("i") == "none" else "some"
  return sig


# ----------------------------------------------------------------------------------------------------------
NETADDR = {"r1": "10.0.0.1", "r2": "10.0.0.2", "r3": "10.0.0.3", "r4": "10.0.0.4", "h": "10.0.9.9"}


class NetAdapter(object):
  """RipNet.tla: several real routers; the harness is the wire (a FIFO of datagram bytes per directed link)."""

  def __init__(self, routers, links, stubs, ifof, T, G, R, S, mtu=None):
    env.reset()
    self.names = Names(NETADDR)
    self.routers = list(routers)
    self.links = set(frozenset(l) for l in links)
    self.up = set(self.links)
    self.stubs = [tuple(s) for s in stubs]
    self.ifof = dict(ifof)
    self.par = dict(T=T, G=G, R=R, S=S, mtu=mtu)
    self.rt = {}
    self.chan = {}
    self.sent = []

  def close(self):
    env.reset()

  def neigh(self, r):
    return [s for s in self.routers if frozenset((r, s)) in self.links]

  def _boot(self, per):
    p = self.par
    for r in self.routers:
      around = self.neigh(r) + [h for h, at in self.stubs if at == r]
      ifaces = sorted(set(self.ifof[s] for s in around))
      m = env.MiniRouter(r, ifaces, p["T"], p["G"], p["R"], mtu=p["mtu"], periodic=(p["S"], per[r]))
      m.add_iface_route(self.ifof[r], IPAddr(NETADDR[r]))
      self.rt[r] = m
    for h, at in self.stubs:        # the host's one and only hello: its own /32
      self.rt[at].receive(self.ifof[h], NETADDR[h], env.rip_bytes(RIP.RIP_RESPONSE, [(NETADDR[h], 32, 1, 0, "inet")]))

  def _distribute(self, r):
    """what router r just sent goes to every live neighbour on that interface"""
    m = self.rt[r]
    for iface, data in m.sent:
      self.sent.append((iface, data))
      for s in self.neigh(r):
        if self.ifof[s] == iface and frozenset((r, s)) in self.up:
          self.chan.setdefault((r, s), []).append(data)
    m.sent = []

  def _find(self, r, kind):
    for t, due in env.timers():
      if not t._cancelled and env.cb_kind(t) == kind and getattr(t._callback, "__self__", None) is self.rt[r]:
        if due != env.clock.now:
          return None, "%s timer of %s due in %s" % (kind, r, env.remaining(due))
        return t, None
    return None, "no %s timer of %s" % (kind, r)

  def _obs(self, err=None):
    env.settle()
    sweep_cancelled()
    net = {}
    mine = set()
    for r, m in self.rt.items():
      o, mm = observe(m, self.names)
      net[r] = o
      mine |= mm
    sent = []
    wires = set()
    for iface, data in self.sent:
      w, ents = env.rip_parse(data)
      wires.add(w)
      sent.extend([iface, self.names.key(ip, bits), metric] for ip, bits, metric in ents)
    wires.discard("ok")
    o = dict(net=net, q=sorted([s, r, len(q)] for (s, r), q in self.chan.items() if q), sent=sorted(sent),
             orph=orphans(mine), wire="ok" if not wires else ";".join(sorted(wires)))
    if err:
      o["err"] = err
    return o

  def step(self, a, args):
    self.sent = []
    if a == "Boot":
      self._boot(args["per"])
    elif a in ("Send", "Fire"):
      t, err = self._find(args["r"], "per" if a == "Send" else "trig")
      if t is None:
        return self._obs(err)
      env.release(t)
      self._distribute(args["r"])
    elif a == "Deliver":
      q = self.chan.get((args["s"], args["r"]))
      if not q:
        return self._obs("nothing in flight from %s to %s" % (args["s"], args["r"]))
      self.rt[args["r"]].receive(self.ifof[args["s"]], NETADDR[args["s"]], q.pop(0))
    elif a in ("Timeout", "Garbage"):
      t, err = find_entry_timer(self.rt[args["r"]], self.names, args["k"], "to" if a == "Timeout" else "gc")
      if t is None:
        return self._obs(err)
      env.release(t)
    elif a == "LinkDown":
      l = frozenset(args["l"])
      self.up.discard(l)
      for (s, r) in list(self.chan):
        if frozenset((s, r)) == l:
          self.chan[(s, r)] = []
    elif a == "Advance":
      env.clock.advance(args["d"])
    else:
      raise Machinery("unknown action %r" % (a,))
    for m in self.rt.values():        # a router that sends outside its own step (it must not) would show here
      if m.sent:
        self._distribute(m.name)
    return self._obs()

  def signature(self, st, obs):
    sig = {"action": st["a"], "net": True}
    exp = st["exp"]
    if not isinstance(obs, dict) or "EXC" in obs:
      sig["observed"] = "exception:" + (obs.get("EXC", "?") if isinstance(obs, dict) else "?")
      return sig
    sig["fields"] = sorted(k for k in set(exp) | set(obs) if obs.get(k) != exp.get(k))
    if "net" in sig["fields"] and isinstance(obs.get("net"), dict):
      sig["routers"] = sorted(r for r in exp["net"] if obs["net"].get(r) != exp["net"][r])
    return sig
