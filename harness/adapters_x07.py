"""X07 adapter: LoadBalancer.tla actions -> the real pox.misc.ip_loadbalancer over a real SoftwareSwitch.

Every step performs the spec action on the real code (frames in on switch ports, virtual time, iplb's own chained
timers) and returns the observation in exactly the JSON shape of the spec's `exp`:

  pin    0 no packet-in / 1 buffered packet-in / 2 unbuffered packet-in
  msgs   what the controller sent, in order, abstracted (FLOW_MOD / BARRIER / PACKET_OUT)
  em     TCP/IP frames that left ports          arp    ARP frames that left ports
  cands  what iplb asked random.choice to choose from (set)
  exc    exception escaping the PacketIn handler ("" if none)
  st     projection of iplb.live_servers / outstanding_probes / memory / servers, the switch's flow table and
         buffer pool, the next firing of the probe timer - times in ticks relative to now

Symbols of the spec are mapped injectively to concrete addresses here; anything the code produces that has no
symbol is rendered as "?<value>", which no spec action yields.
"""
import json
import struct

from harness import rawbytes as rb
from harness import x07_net as X

IP = {"svc": "10.0.0.100", "s1": "10.0.1.1", "s2": "10.0.1.2", "s3": "10.0.1.3", "s4": "10.0.1.4", "s5": "10.0.1.5",
      "a": "10.0.2.1", "b": "10.0.2.2", "x": "10.0.9.9"}
MAC = {"bcast": "ff:ff:ff:ff:ff:ff", "m1": "00:00:00:00:05:01", "m2": "00:00:00:00:05:02", "m3": "00:00:00:00:05:03",
       "m4": "00:00:00:00:05:04", "m5": "00:00:00:00:05:05", "m1x": "00:00:00:00:05:f1",
       "ca": "00:00:00:00:0a:01", "cb": "00:00:00:00:0a:02"}
HOME = {"s1": ("m1", 3), "s2": ("m2", 4), "s3": ("m3", 3), "s4": ("m4", 4), "s5": ("m5", 4)}
FLOWDEF = {"f1": dict(cip="a", cmac="ca", sp=5000, dp=80), "f2": dict(cip="a", cmac="ca", sp=5001, dp=80),
           "f3": dict(cip="b", cmac="cb", sp=5000, dp=80)}
ACT = {4: "dl_src", 5: "dl_dst", 6: "nw_src", 7: "nw_dst", 0: "output"}
NONE = "-"


def skey(x):
  return json.dumps(x, sort_keys=True)


def sort_obs(o):
  """sets are compared as sets: sorted lists on both sides"""
  if not isinstance(o, dict):
    return o
  for k in ("em", "arp", "cands"):
    if isinstance(o.get(k), list):
      o[k] = sorted(o[k], key=skey)
  st = o.get("st")
  if isinstance(st, dict):
    for k in ("live", "probes", "mem", "flows"):
      if isinstance(st.get(k), list):
        st[k] = sorted(st[k], key=skey)
  return o


def _hexmac(x):
  if ":" not in x:
    x = ":".join(x[i:i + 2] for i in range(0, 12, 2))
  return x


def _hexip(x):
  if "." not in x:
    x = ".".join(str(int(x[i:i + 2], 16)) for i in range(0, 8, 2))
  return x


class Adapter(object):
  def __init__(self, servers=("s1", "s2"), unit=0.5, M=None, I=None, B=16, nports=4, dpid=1, free_random=None):
    """servers: the order of --servers; unit: seconds per spec tick; M, I: memory / idle timeout in ticks,
    configured through the module constants FLOW_MEMORY_TIMEOUT / FLOW_IDLE_TIMEOUT (None = as shipped);
    B: packet buffers of the switch.  probe_cycle_time (5 s) and arp_timeout (3 s) are always iplb's own."""
    self.servers = list(servers)
    self.unit = unit
    consts = {}
    if M is not None:
      consts["FLOW_MEMORY_TIMEOUT"] = M * unit
    if I is not None:
      if (I * unit) != int(I * unit):
        raise X.Machinery("idle timeout must be whole seconds")
      consts["FLOW_IDLE_TIMEOUT"] = int(I * unit)
    self.nports = nports
    self.mac = dict(MAC)
    self.mac["lb"] = _hexmac("%012x" % (dpid & 0xffffffffffff))
    self.rmac = {v: k for k, v in self.mac.items()}
    self.rip = {v: k for k, v in IP.items()}
    self.net = X.Net(IP["svc"], [IP[s] for s in self.servers], nports=nports, dpid=dpid, max_buffers=B,
                     consts=consts, free_random=free_random)
    self.consulted = False

  def close(self):
    if self.net is not None:
      self.net.close()

  # ------------------------------------------------------------------ symbols
  def mac_sym(self, x):
    x = _hexmac(x)
    return self.rmac.get(x, "?" + x)

  def ip_sym(self, x):
    x = _hexip(str(x))
    return self.rip.get(x, "?" + x)

  def ticks(self, seconds):
    t = seconds / self.unit
    r = int(round(t))
    return r if abs(t - r) < 1e-6 else "?%r" % t

  # ------------------------------------------------------------------ frames
  def cframe(self, f):
    d = FLOWDEF[f]
    return X.l4_frame(self.mac["lb"], self.mac[d["cmac"]], IP[d["cip"]], IP["svc"], 6, d["sp"], d["dp"])

  def sframe(self, s, f):
    d = FLOWDEF[f]
    return X.l4_frame(self.mac[d["cmac"]], self.mac[HOME[s][0]], IP[s], IP[d["cip"]], 6, d["dp"], d["sp"])

  def exact(self, fr, port):
    """the exact match ofp_match.from_packet gives for a TCP/IPv4 frame"""
    d = X.decode_frame(fr)
    return dict(wildcards=0, in_port=port, dl_src=d["es"].replace(":", ""), dl_dst=d["ed"].replace(":", ""),
                dl_vlan=0xffff, dl_vlan_pcp=0, dl_type=0x0800, nw_tos=0, nw_proto=6,
                nw_src=rb.ip(d["sip"]).hex(), nw_dst=rb.ip(d["dip"]).hex(), tp_src=d["sport"], tp_dst=d["dport"])

  def frame_keys(self):
    """every frame the steps can send, with the key the spec names it by"""
    out = []
    for f in FLOWDEF:
      for p in range(1, self.nports + 1):
        out.append(({"dir": "c", "f": f, "s": NONE, "p": p}, self.exact(self.cframe(f), p)))
      for s in self.servers:
        out.append(({"dir": "s", "f": f, "s": s, "p": HOME[s][1]}, self.exact(self.sframe(s, f), HOME[s][1])))
    return out

  # ------------------------------------------------------------------ abstraction of what was observed
  def _acts(self, actions):
    out = []
    for a in actions:
      t = ACT.get(a["type"], "?%d" % a["type"])
      body = bytes.fromhex(a["body"])
      s, n = "", 0
      if t in ("dl_src", "dl_dst"):
        s = self.mac_sym(body[:6].hex())
      elif t in ("nw_src", "nw_dst"):
        s = self.ip_sym(body[:4].hex())
      elif t == "output":
        n = struct.unpack("!H", body[:2])[0]
      out.append({"t": t, "s": s, "n": n})
    return out

  def _msg(self, m, pin, frame, inport):
    blank = {"t": "?", "buf": False, "data": False, "inport": 0, "mk": NONE, "acts": [], "idle": 0}
    pbuf = pin["buffer_id"] if pin is not None and pin["buffer_id"] != rb.NO_BUFFER else None

    def buf_of(b):
      if b == rb.NO_BUFFER:
        return False
      return True if b == pbuf else "?stale-or-foreign-buffer-%d" % b
    if m["type"] == rb.FLOW_MOD:
      mk = "exact"
      if frame is None or m["match"] != self.exact(frame, inport):
        mk = "?match " + skey(m["match"])
      std = (m["command"], m["hard_timeout"], m["priority"], m["flags"], m["cookie"], m["out_port"])
      if std != (rb.FC_ADD, 0, 32768, 0, 0, rb.OFPP_NONE):
        mk = "?cmd/hard/prio/flags/cookie/out_port %r" % (std,)
      return dict(blank, t="fm", buf=buf_of(m["buffer_id"]), mk=mk, acts=self._acts(m["actions"]),
                  idle=self.ticks(m["idle_timeout"]))
    if m["type"] == rb.PACKET_OUT:
      data = len(m["data"]) > 0
      if data and frame is not None and m["data"] != frame:
        data = "?other-data"
      return dict(blank, t="po", buf=buf_of(m["buffer_id"]), data=data, inport=m["in_port"],
                  acts=self._acts(m["actions"]))
    if m["type"] == rb.BARRIER_REQUEST:
      return dict(blank, t="bar")
    return dict(blank, t="?" + m["name"])

  def _frames(self, emitted):
    em, arp = [], []
    for port, fr in emitted:
      d = X.decode_frame(fr)
      if d["kind"] == "arp":
        e = {"port": port, "op": d["op"], "es": self.mac_sym(d["es"]), "ed": self.mac_sym(d["ed"]),
             "sha": self.mac_sym(d["sha"]), "spa": self.ip_sym(d["spa"]), "tha": self.mac_sym(d["tha"]),
             "tpa": self.ip_sym(d["tpa"])}
        if not d["std"]:
          e["bad"] = "arp header"
        arp.append(e)
      elif d["kind"] == "ip" and "sport" in d:
        e = {"port": port, "es": self.mac_sym(d["es"]), "ed": self.mac_sym(d["ed"]), "sip": self.ip_sym(d["sip"]),
             "dip": self.ip_sym(d["dip"]), "sp": d["sport"], "dp": d["dport"]}
        bad = []
        if d["proto"] != 6:
          bad.append("proto")
        if d["payload"] != X.PAYLOAD:
          bad.append("payload")
        if (d["ttl"], d["tos"], d["ident"]) != (64, 0, 0x1234):
          bad.append("ip header")
        if not d["ipcsum_ok"] or not d.get("l4csum_ok"):
          bad.append("checksum")
        if bad:
          e["bad"] = bad
        em.append(e)
      else:
        em.append({"port": port, "bad": "unknown frame " + fr[:20].hex()})
    return sorted(em, key=skey), sorted(arp, key=skey)

  def _mem_key(self, key):
    a, b, p1, p2 = key
    a, b = self.ip_sym(a), self.ip_sym(b)
    if b == "svc":
      for f, d in FLOWDEF.items():
        if (d["cip"], d["sp"], d["dp"]) == (a, p1, p2):
          return {"t": "c", "s": NONE, "f": f}
    if a in self.servers:
      for f, d in FLOWDEF.items():
        if (d["cip"], d["dp"], d["sp"]) == (b, p1, p2):
          return {"t": "s", "s": a, "f": f}
    return {"t": "?", "s": a, "f": "%s:%s:%s" % (b, p1, p2)}

  def project(self):
    lb = self.net.lb
    now = X.clock.now
    st = {}
    st["live"] = sorted(({"s": self.ip_sym(ip), "mac": self.mac_sym(str(v[0])), "port": v[1]}
                         for ip, v in lb.live_servers.items()), key=skey)
    st["probes"] = sorted(({"s": self.ip_sym(ip), "ttl": self.ticks(dl - now)}
                           for ip, dl in lb.outstanding_probes.items()), key=skey)
    mem = []
    for key, e in lb.memory.items():
      f = self._mem_key(e.key1)
      mem.append({"k": self._mem_key(key), "srv": self.ip_sym(e.server), "f": f["f"] if f["t"] == "c" else "?",
                  "cport": e.client_port, "ttl": self.ticks(e.timeout - now)})
    st["mem"] = sorted(mem, key=skey)
    fkeys = self.frame_keys()
    flows = []
    for e in self.net.flows():
      m = rb.parse_match(e.match.pack())
      k = [fk for fk, ex in fkeys if ex == m]
      acts = self._acts(rb.parse_actions(b"".join(a.pack() for a in e.actions)))
      std = (e.priority, e.hard_timeout, e.cookie, e.flags)
      if std != (32768, 0, 0, 0):
        acts.append({"t": "?prio/hard/cookie/flags %r" % (std,), "s": "", "n": 0})
      flows.append({"k": k[0] if len(k) == 1 else {"dir": "?", "f": skey(m), "s": NONE, "p": 0}, "acts": acts,
                    "ttl": self.ticks(e.idle_timeout - (now - e.last_touched))})
    st["flows"] = sorted(flows, key=skey)
    st["held"] = self.net.occupancy()
    nt = self.net.next_timer()
    st["timer"] = self.ticks(nt) if nt is not None else "?no-timer"
    st["rr"] = [self.ip_sym(ip) for ip in lb.servers]
    return st

  def _obs(self, r, frame=None, inport=None, start=False):
    pins = [m for m in r["s2c"] if m["type"] == rb.PACKET_IN]
    errs = [m for m in r["s2c"] if m["type"] == rb.ERROR]
    c2s = r["c2s"]
    if start:
      # the handshake (HELLO ... the table-clearing FLOW_MOD and its BARRIER) is of_01's; what follows is iplb's
      idx = [i for i, m in enumerate(c2s) if m["type"] == rb.BARRIER_REQUEST]
      c2s = c2s[idx[0] + 1:] if idx else c2s
    if len(pins) == 0:
      pin, p = 0, None
    elif len(pins) == 1:
      p = pins[0]
      pin = 2 if p["buffer_id"] == rb.NO_BUFFER else 1
      if frame is not None and (p["data"] != frame or p["in_port"] != inport):
        pin = "?packet-in is not the frame"
    else:
      pin, p = "?%d packet-ins" % len(pins), pins[-1]
    em, arp = self._frames(r["emitted"])
    calls = r["rnd_calls"]
    self.consulted = len(calls) > 0
    if len(calls) == 0:
      cands = []
    elif len(calls) == 1:
      cands = sorted(self.ip_sym(x) for x in calls[0])
    else:
      cands = ["?%d calls" % len(calls)]
    exc = "+".join(e.split(":")[0] for e in r["errors"])
    if errs:
      exc += "+switch-error %s" % ["%d/%d" % (m["etype"], m["code"]) for m in errs]
    return sort_obs({"pin": pin, "msgs": [self._msg(m, p, frame, inport) for m in c2s], "em": em, "arp": arp,
                     "cands": cands, "exc": exc, "st": self.project()})

  # ------------------------------------------------------------------ the spec's actions
  def step(self, a, args):
    net = self.net
    if a == "Start":
      return self._obs(net.connect(), start=True)
    if net.lb is None:
      raise X.Machinery("step %s before Start" % a)
    if a in ("Probe", "Advance", "Tick"):
      net.advance(args["d"] * self.unit)
      return self._obs(net.take())
    if a == "ArpReply":
      m = self.mac[args["mac"]]
      fr = X.arp_frame(self.mac["lb"], m, 2, m, IP[args["s"]], self.mac["lb"], IP["svc"])
      return self._obs(net.inject(args["port"], fr), fr, args["port"])
    if a == "Client":
      fr = self.cframe(args["f"])
      pick = args.get("pick", NONE)
      return self._obs(net.inject(args["p"], fr, prefer=IP[pick] if pick != NONE else None), fr, args["p"])
    if a == "Server":
      fr = self.sframe(args["s"], args["f"])
      return self._obs(net.inject(HOME[args["s"]][1], fr), fr, HOME[args["s"]][1])
    if a == "Other":
      k, p = args["kind"], args["p"]
      lb, ca = self.mac["lb"], self.mac["ca"]
      if k == "udp":
        fr = X.l4_frame(lb, ca, IP["a"], IP["svc"], 17, 5000, 80)
      elif k == "tcpx":
        fr = X.l4_frame(lb, ca, IP["a"], IP["x"], 6, 5000, 80)
      elif k == "arpreq":
        fr = X.arp_frame(self.mac["bcast"], ca, 1, ca, IP["a"], "00:00:00:00:00:00", IP["svc"])
      elif k == "arpcli":
        fr = X.arp_frame(lb, ca, 2, ca, IP["a"], lb, IP["svc"])
      else:
        raise ValueError(k)
      return self._obs(net.inject(p, fr), fr, p)
    raise ValueError(a)

  # ------------------------------------------------------------------ engine hooks
  def accept_alt(self, obs, st):
    """_pick_server is iplb's documented override point ("Alternate approach: hashing"): when the code did not
    ask the scripted random source, any live server is a legitimate pick; the rest of the behaviour is not replayed"""
    if st.get("via") != "ClientNew" or self.consulted or not isinstance(obs, dict):
      return False
    try:
      fm = [m for m in obs["msgs"] if m["t"] == "fm"]
      dst = [x["s"] for x in fm[0]["acts"] if x["t"] == "nw_dst"]
      return len(dst) == 1 and dst[0] in st["exp"]["cands"] and obs["pin"] == st["exp"]["pin"] and obs["exc"] == ""
    except Exception:
      return False

  def signature(self, st, obs):
    sig = {"action": st["a"], "via": st.get("via", "")}
    exp = st["exp"]
    if isinstance(obs, dict) and "EXC" in obs:
      sig["observed"] = "exception:" + obs["EXC"]
      return sig
    if not isinstance(obs, dict):
      sig["observed"] = "malformed"
      return sig
    sig["fields"] = sorted(k for k in exp if k != "st" and obs.get(k) != exp[k])
    so, se = obs.get("st", {}), exp.get("st", {})
    sig["st"] = sorted(k for k in se if not isinstance(so, dict) or so.get(k) != se[k])
    if "exc" in sig["fields"]:
      sig["exc"] = obs.get("exc")
    return sig
