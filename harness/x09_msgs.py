"""X09: the concrete JSON texts behind the symbols of specs/messenger/Destream.tla and Messenger.tla.

Destream.tla sees a text as a sequence of CHARACTER CLASSES ("{", "}", "q" = double quote, "e" = backslash,
"w" = whitespace, "c" = anything else); `Shapes` in MCDestream.tla is generated from TEXTS by `tla_shapes()`
and props/X09.py refuses to run (machinery failure) when the two disagree; on top of that the adapter checks the
classes of every chunk it feeds against the classes the spec logged for that chunk.
"""
import json
import os
import re

# every text is one JSON object that the default channel's bot answers ("test": v -> reply "test": v.upper()),
# so a dispatched message is visible twice: as a MessageReceived event and as a reply on the wire
TEXTS = {
  "A": '{"test":"a"}',                       # plain
  "B": '{"test":"}{"}',                      # braces inside a string
  "C": '{"test":"q\\"}"}',                   # escaped quote, then a brace, still inside the string
  "D": '{"o":{"k":"}"},"test":"d"}',         # nested object (with a brace in a nested string)
  "E": '{"test":"e\\\\"}',                   # string that ends in an escaped backslash
  "F": '{ "test" : "f" }',                   # whitespace inside the object
  "G": '{"test":"g h"}',                     # whitespace inside a string
  "H": '{"test":"\\u00e9{","XID":7}',        # \u escape, non-string member
}
WS = [" ", "\n", "\t", "\r"]


def classify(ch):
  if ch == "{" or ch == "}":
    return ch
  if ch == '"':
    return "q"
  if ch == "\\":
    return "e"
  if ch.isspace():
    return "w"
  return "c"


def shape(text):
  return [classify(ch) for ch in text]


def tla_shapes():
  out = []
  for k in sorted(TEXTS):
    out.append('  %s |-> <<%s>>' % (k, ", ".join('"%s"' % c for c in shape(TEXTS[k]))))
  return "MCShapes == [\n" + ",\n".join(out) + " ]"


def check_shapes(tla_path):
  """the shapes written into MCDestream.tla are the classes of TEXTS"""
  src = open(tla_path).read()
  m = re.search(r"MCShapes == \[\n(.*?) \]", src, re.S)
  if not m:
    return "MCShapes not found in %s" % tla_path
  got = {}
  for ln in m.group(1).splitlines():
    mm = re.match(r"\s*(\w+) \|-> <<(.*)>>,?\s*$", ln)
    if mm:
      got[mm.group(1)] = [x.strip().strip('"') for x in mm.group(2).split(",")]
  want = {k: shape(v) for k, v in TEXTS.items()}
  if got != want:
    return "MCShapes in %s differ from harness/x09_msgs.TEXTS (regenerate with tla_shapes())" % tla_path
  for k, v in TEXTS.items():
    json.loads(v)
  return None


def expected_reply(mid):
  """what the default bot replies to message `mid`: the record the adapters report (x09_env.msg_obs)"""
  d = json.loads(TEXTS[mid])
  return {"ch": "<null>", "k": "test", "v": d["test"].upper(), "x": d.get("XID", 0)}


if __name__ == "__main__":
  print(tla_shapes())
