"""X09 harness environment: the REAL pox.messenger objects under harness control.

* a fresh real `MessengerNexus` per behaviour (not registered on core: every transport / channel / bot
  of the messenger accepts the nexus object itself);
* "mem" connections: a minimal `Connection` subclass (send_raw records, the harness calls `_rx_raw`)
  behind a minimal `Transport` subclass - the documented extension points;
* "tcp" connections: the real `TCPTransport.run()` accept loop and the real `TCPConnection.run()` receive loop,
  both generators, driven by hand over scripted sockets (a fake `socket` module is put into tcp_transport's
  namespace so that no port is bound); the value of `yield Recv(sock)` is produced by recoco's own
  `Recv._recvReturnFunc` calling `recv()` of the scripted socket;
* recording listeners on the nexus, on every Channel object (attached when `ChannelCreate` fires) and on every
  connection; everything a connection sends is decoded from the text it handed to `send_raw` / the socket.

Harness-side neutralisations of defects of the pinned tree (see notes/X09.md, "Defects observed"); each one is
switched by a parameter and named in the spec (`Dev`):
  D1  session_shim : `MessengerNexus.generate_session` is re-compiled at run time from ITS OWN SOURCE with the
                     two-line repair applied textually (everything else of the function stays the code under test);
                     if the text to repair is not found the real function is used unchanged.
  D0  select_shim  : `Select([listener])` in TCPTransport.run gets the two missing arguments
  D2  lenient_send : the scripted socket accepts `str` in send() (a Python 2 socket did; a Python 3 one raises)
  D3  text_recv    : the scripted socket's recv() returns `str` (ditto)
"""
import errno
import inspect
import io
import json
import random as _random
import sys
import textwrap

from harness import poxenv
from engine.core import Machinery

core = poxenv.boot()
import pox.lib.recoco as recoco            # noqa: E402
import pox.messenger as M                  # noqa: E402
import pox.messenger.tcp_transport as T    # noqa: E402

poxenv.install_clock(M)


# ------------------------------------------------------------------ D1: session shim
_ORIG_GENERATE = M.MessengerNexus.__dict__["generate_session"]
_REPAIRS = [("r=hex(r)[2:].lower()\n", "r=hex(r)[2:].lower().encode()\n"),
            ("key = alphahex(r) + key\n", "key = (alphahex(r) + key).decode()\n")]
_SHIMMED = None


def _build_shim():
  global _SHIMMED
  if _SHIMMED is None:
    src = textwrap.dedent(inspect.getsource(_ORIG_GENERATE))
    n = 0
    for old, new in _REPAIRS:
      if old in src:
        src = src.replace(old, new)
        n += 1
    if n == 0:
      _SHIMMED = (_ORIG_GENERATE, 0)
    else:
      ns = {}
      exec(compile(src, "<x09 generate_session with the D1 repair>", "exec"), M.__dict__, ns)
      _SHIMMED = (ns["generate_session"], n)
  return _SHIMMED


def set_session_shim(on):
  M.MessengerNexus.generate_session = _build_shim()[0] if on else _ORIG_GENERATE


class _Rnd(object):
  """stands in for the `random` module inside pox.messenger: random() is a constant, so that distinct session
  keys can only come from the session counter (the deterministic part of the key)."""
  def random(self):
    return 0.5

  def __getattr__(self, n):
    return getattr(_random, n)


M.random = _Rnd()


class ScriptedRandint(object):
  """`_gen_channel_name` does `import random; random.randint(1, 100000)`: script the draws for one step."""
  def __init__(self, draws):
    self.draws = list(draws)
    self.used = 0

  def __enter__(self):
    self.saved = _random.randint

    def randint(a, b):
      if self.used >= len(self.draws):
        raise Machinery("x09: the code drew more random channel numbers than scripted")
      self.used += 1
      return self.draws[self.used - 1]
    _random.randint = randint
    return self

  def __exit__(self, *a):
    _random.randint = self.saved


# ------------------------------------------------------------------ D0: Select([listener])
def _select3(*args, **kw):
  """recoco.Select wants the three lists of select.select(); TCPTransport.run passes one (D0)"""
  return recoco.Select(*(list(args) + [None] * (3 - len(args))), **kw)


# ------------------------------------------------------------------ scripted sockets
EOF = ("EOF",)
ERR = ("ERR",)


class FakeSock(object):
  _n = 0

  def __init__(self, idx, lenient_send, text_recv):
    FakeSock._n += 1
    self.fd = 5000 + FakeSock._n
    self.idx = idx
    self.lenient_send = lenient_send
    self.text_recv = text_recv
    self.inq = []
    self.sent = []          # text accepted by the socket, one entry per send() call: (complete?, text)
    self.send_mode = "ok"
    self.shut = 0
    self.closed = 0
    self.typeerr = 0

  def fileno(self):
    return self.fd

  def getsockname(self):
    return ("10.0.0.1", 7790)

  def getpeername(self):
    return ("10.0.0.2", 40000 + self.idx)

  def setblocking(self, x):
    pass

  def send(self, data, flags=0):
    if isinstance(data, str):
      if not self.lenient_send:
        self.typeerr += 1
        raise TypeError("a bytes-like object is required, not 'str'")
      text = data
    else:
      text = bytes(data).decode("utf-8")
    if self.shut or self.closed:
      raise OSError(errno.EPIPE, "Broken pipe")
    if self.send_mode == "err":
      raise OSError(errno.EPIPE, "Broken pipe")
    if self.send_mode == "short":
      k = len(data) // 2
      self.sent.append((False, text[:k]))
      return k
    self.sent.append((True, text))
    return len(data)

  def recv(self, n, flags=0):
    if not self.inq:
      raise OSError(errno.EAGAIN, "would block")     # the harness only resumes the loop with something queued
    item = self.inq.pop(0)
    if item is ERR:
      raise OSError(errno.ECONNRESET, "Connection reset by peer")
    if item is EOF:
      return "" if self.text_recv else b""
    assert len(item) <= n
    return item if self.text_recv else item.encode("utf-8")

  def shutdown(self, how):
    self.shut += 1

  def close(self):
    self.closed += 1


class FakeListener(object):
  def __init__(self):
    self.pending = []
    self.closed = 0
    self.fd = 4999

  def fileno(self):
    return self.fd

  def setsockopt(self, *a):
    pass

  def bind(self, addr):
    self.addr = addr

  def listen(self, n):
    pass

  def accept(self):
    s = self.pending.pop(0)
    return s, s.getpeername()

  def close(self):
    self.closed += 1


class FakeSocketModule(object):
  """what tcp_transport needs of the socket module"""
  AF_INET, SOCK_STREAM, SOL_SOCKET, SO_REUSEADDR, SHUT_RDWR = 2, 1, 1, 2, 2
  error = OSError

  def __init__(self):
    self.listeners = []

  def socket(self, *a):
    l = FakeListener()
    self.listeners.append(l)
    return l


# ------------------------------------------------------------------ connections
class MemTransport(M.Transport):
  """what every transport of the messenger does: remember its connections, forget one when it closes"""
  def __init__(self, nexus):
    M.Transport.__init__(self, nexus)
    self._connections = set()

  def _forget(self, connection):
    if connection in self._connections:
      self._connections.remove(connection)


class MemConnection(M.Connection):
  """the smallest concrete Connection: a stream transport that hands text to _rx_raw"""
  def __init__(self, transport):
    self.x09_out = []
    M.Connection.__init__(self, transport)

  def send_raw(self, data):
    self.x09_out.append(data)


class HTCPConnection(T.TCPConnection):
  """TCPConnection whose task is stepped by the harness instead of the scheduler (connection_class is the
  documented way to substitute the connection class of a TCPTransport)."""
  x09_gen = None
  x09_op = None
  x09_task = "new"        # new | running | ended | died:<Exception>

  def start(self):
    self.x09_gen = self.run()
    self.x09_task = "running"
    self.x09_resume(None, first=True)

  def x09_resume(self, value, first=False):
    try:
      self.x09_op = next(self.x09_gen) if first else self.x09_gen.send(value)
    except StopIteration:
      self.x09_task = "ended"
      self.x09_op = None
    except Exception as e:          # what Scheduler.cycle does: the task is de-scheduled
      self.x09_task = "died:" + type(e).__name__
      self.x09_op = None


def msg_obs(d):
  """decoded message a connection sent -> the uniform record the spec logs: [ch, k, v, x]."""
  if not isinstance(d, dict):
    return {"ch": "?", "k": "?", "v": json.dumps(d, sort_keys=True), "x": 0}
  d = dict(d)
  ch = d.pop("CHANNEL", "<absent>")
  if ch is None:
    ch = "<null>"
  x = d.pop("XID", 0)
  if not isinstance(ch, str) or not isinstance(x, int):
    return {"ch": "?", "k": "?", "v": json.dumps(d, sort_keys=True, default=str), "x": 0}
  if len(d) == 1:
    k, v = list(d.items())[0]
    if isinstance(v, bool):
      v = "TRUE" if v else "FALSE"
    if isinstance(v, str):
      return {"ch": ch, "k": k, "v": v, "x": x}
  return {"ch": ch, "k": "?", "v": json.dumps(d, sort_keys=True, default=str), "x": x}


class ProbeBot(M.ChannelBot):
  """A bot for `invite`: every hook of the real ChannelBot framework does something observable.
     join   -> broadcast {"joined": <c>} to the channel (Channel.send to every connected member)
     leave  -> recorded (with the `empty` flag the framework computes)
     {"msg": v} -> unicast reply {"msg": v}   (ChannelBot.reply: CHANNEL and XID of the request)
     anything else -> recorded as unhandled;  destroyed -> recorded"""
  world = None

  def _init(self, extra):
    self.x09_world = ProbeBot.world
    self.x09_world.bots.append(self)

  def _join(self, event, connection, msg):
    self.x09_world.rec("bot_join", "B", self.channel, connection)
    self.send(joined="c%d" % self.x09_world.cidx(connection))

  def _leave(self, connection, empty):
    self.x09_world.rec("bot_leave", "B", self.channel, connection, "empty" if empty else "nonempty")

  def _exec_msg(self, event, value):
    self.reply(event, msg=value)

  def _unhandled(self, event):
    self.x09_world.rec("bot_unhandled", "B", self.channel, event.con, self.x09_world.mtag(event.msg))

  def _destroyed(self):
    self.x09_world.rec("bot_destroyed", "B", self.channel, None)


class World(object):
  """One fresh messenger: real nexus, recording listeners, connections by small integer index."""

  def __init__(self, session_shim=True, lenient_send=True, text_recv=True, select_shim=True, watched=(),
               mtag=None):
    set_session_shim(session_shim)
    T.Select = _select3 if select_shim else recoco.Select
    self.lenient_send = lenient_send
    self.text_recv = text_recv
    self.watched = set(watched)
    self.mtag = mtag or (lambda m: json.dumps(m, sort_keys=True))
    self.events = []
    self.bots = []
    self.cons = {}           # idx -> connection
    self.socks = {}          # idx -> FakeSock (tcp only)
    self.taken = {}          # idx -> number of sent items already reported
    self.chan_objs = {}      # id(Channel) -> [Channel, name, dead?]
    self.stderr = ""
    ProbeBot.world = self
    self.nexus = M.MessengerNexus()
    self.nexus.default_bot.add_bot(ProbeBot, "probe")
    for ev in (M.MissingChannel, M.ChannelDestroy, M.ChannelDestroyed, M.ChannelCreate, M.ConnectionOpened):
      self.nexus.addListener(ev, self._on_nexus)
    self._watch_channel(self.nexus._channels[""])
    self.mem_transport = MemTransport(self.nexus)
    self.tcp_transport = None
    self.tcp_gen = None
    self.tcp_state = "none"  # none | listening | ended | died:<Exception>
    self.sockmod = None

  # ---- recording
  def cidx(self, con):
    for i, c in self.cons.items():
      if c is con:
        return i
    return 99       # a connection object the harness never registered (e.g. one whose constructor raised)

  def rec(self, e, on, chan, con, m="-"):
    name = "-"
    if chan is not None:
      name = chan.name
      ent = self.chan_objs.get(id(chan))
      if ent is None or ent[0] is not chan:
        name = "UNKNOWN-CHANNEL-OBJECT:" + name
      elif ent[2] and not (e == "bot_destroyed" or (e == "ChannelDestroyed" and on == "N")):
        name = "ZOMBIE:" + name        # something happened on a Channel object after its ChannelDestroyed
    self.events.append({"e": e, "on": on, "ch": name, "c": self.cidx(con) if con is not None else 0, "m": m})

  def _on_nexus(self, event):
    n = type(event).__name__
    if isinstance(event, M.ChannelCreate):
      self._watch_channel(event.channel)
      self.rec(n, "N", event.channel, None)
    elif isinstance(event, M.MissingChannel):
      self.events.append({"e": n, "on": "N", "ch": str(event.channel_name), "c": self.cidx(event.con),
                          "m": self.mtag(event.msg)})
    elif isinstance(event, M.ConnectionOpened):
      self.rec(n, "N", None, event.con)
    else:
      self.rec(n, "N", event.channel, None)

  def _watch_channel(self, ch):
    self.chan_objs[id(ch)] = [ch, ch.name, False]
    evs = [M.MessageReceived, M.ChannelJoin, M.ChannelLeave, M.ChannelDestroyed]
    if ch.name in self.watched:
      # listening for ChannelDestroy ON THE CHANNEL changes what Channel._destroy does (D6): only for
      # the names the spec says are watched
      evs.append(M.ChannelDestroy)
    for ev in evs:
      ch.addListener(ev, self._on_channel)

  def _on_channel(self, event, *args):
    n = type(event).__name__
    if isinstance(event, M.MessageReceived):
      self.rec(n, "H", event.channel if isinstance(event.channel, M.Channel) else None, event.con,
               self.mtag(event.msg))
    elif isinstance(event, (M.ChannelJoin, M.ChannelLeave)):
      self.rec(n, "H", event.channel, event.con)
    else:
      if event.source is not event.channel and isinstance(event, M.ChannelDestroy):
        pass
      self.rec(n, "H", event.channel, None)
      if isinstance(event, M.ChannelDestroyed):
        self.chan_objs[id(event.channel)][2] = True

  def _on_con(self, event, *args):
    n = type(event).__name__
    if isinstance(event, M.MessageReceived):
      ch = event.channel
      self.events.append({"e": n, "on": "C", "ch": "-", "c": self.cidx(event.con), "m": self.mtag(event.msg)})
    else:
      self.rec(n, "C", None, event.con)

  def _watch_con(self, con):
    con.addListener(M.MessageReceived, self._on_con)
    con.addListener(M.ConnectionClosed, self._on_con)

  # ---- operations
  def open_mem(self, idx):
    """what a transport does for a new client: construct, register, (stream transports) welcome"""
    con = MemConnection(self.mem_transport)
    self.mem_transport._connections.add(con)
    self.cons[idx] = con
    self.taken[idx] = 0
    self._watch_con(con)
    self.nexus.register_session(con)
    con._send_welcome()
    return con

  def tcp_listen(self):
    self.sockmod = FakeSocketModule()
    T.socket = self.sockmod
    self.tcp_transport = T.TCPTransport(nexus=self.nexus, connection_class=HTCPConnection)
    self.tcp_gen = self.tcp_transport.run()
    self._tcp_step(None, first=True)

  def _tcp_step(self, value, first=False):
    old = sys.stderr
    sys.stderr = io.StringIO()
    try:
      op = next(self.tcp_gen) if first else self.tcp_gen.send(value)
      if not isinstance(op, recoco.Select):
        raise Machinery("x09: TCPTransport.run yielded %r" % (op,))
      self.tcp_state = "listening"
    except StopIteration:
      self.tcp_state = "ended"
    except Machinery:
      raise
    except Exception as e:
      self.tcp_state = "died:" + type(e).__name__
    finally:
      self.stderr += sys.stderr.getvalue()
      sys.stderr = old

  def tcp_accept(self, idx):
    """a client connects: the accept loop constructs the connection (which sends the welcome), registers the
    session and starts the connection's task.  Returns the connection or None."""
    if self.tcp_state != "listening":
      raise Machinery("x09: accept on a transport that is %s" % self.tcp_state)
    sock = FakeSock(idx, self.lenient_send, self.text_recv)
    self.socks[idx] = sock
    self.taken[idx] = 0
    lst = self.sockmod.listeners[0]
    lst.pending.append(sock)
    before = set(id(c) for c in self.tcp_transport._connections)
    # the connection must be watched before its first event; it only exists once the constructor ran, and the
    # accept loop registers it right after: hook register_session (the nexus raises ConnectionOpened there)
    world = self
    orig = self.nexus.register_session

    def register_session(session):
      world.cons[idx] = session
      world._watch_con(session)
      return orig(session)
    self.nexus.register_session = register_session
    try:
      self._tcp_step(([lst], [], []))
    finally:
      del self.nexus.register_session
    new = [c for c in self.tcp_transport._connections if id(c) not in before]
    return self.cons.get(idx)

  def tcp_feed(self, idx, item):
    """the socket becomes readable with `item` (text chunk, EOF or ERR): resume the connection's task"""
    con, sock = self.cons[idx], self.socks[idx]
    if con.x09_task != "running":
      return False
    op = con.x09_op
    if not isinstance(op, recoco.Recv) or op._fd is not sock:
      raise Machinery("x09: TCPConnection.run yielded %r" % (op,))
    if item is ERR:
      con.rv = ([], [], [sock])       # select reports the socket in the exceptional set
    else:
      sock.inq.append(item)
      con.rv = ([sock], [], [])
    value = op._recvReturnFunc(con)
    con.x09_resume(value)
    return True

  def feed(self, idx, text):
    """hand a chunk of text to connection idx through its transport's entry point"""
    con = self.cons[idx]
    if isinstance(con, MemConnection):
      con._rx_raw(text)
      return True
    return self.tcp_feed(idx, text)

  # ---- observation
  def take_events(self):
    ev, self.events = self.events, []
    return ev

  def sent_texts(self, idx):
    con = self.cons.get(idx)
    if idx in self.socks:
      return [t for ok, t in self.socks[idx].sent if ok]
    if con is None:
      return []
    return list(con.x09_out)

  def take_out(self):
    """[[c, [raw text, ...]], ...] for every connection that was sent something since the last call"""
    out = []
    for idx in sorted(set(self.cons) | set(self.socks)):
      texts = self.sent_texts(idx)
      new = texts[self.taken.get(idx, 0):]
      self.taken[idx] = len(texts)
      if new:
        out.append([idx, new])
    return out

  def project(self):
    """the registry as the code holds it: {name: [temporary, sorted member indexes]}"""
    return {name: [bool(ch.temporary is True), sorted(self.cidx(m) for m in ch._members)]
            for name, ch in self.nexus._channels.items()}

  def close(self):
    if self.tcp_gen is not None:
      old = sys.stderr
      sys.stderr = io.StringIO()      # the accept loop prints the GeneratorExit it catches
      try:
        self.tcp_gen.close()
      except Exception:
        pass
      finally:
        sys.stderr = old
      self.tcp_gen = None
    T.socket = _REAL_SOCKET
    T.Select = recoco.Select
    set_session_shim(False)


_REAL_SOCKET = T.socket
