"""C12 adapter: Datapath.tla actions -> real SoftwareSwitch.

Everything goes through real entry points: dataplane frames are bytes parsed by
the real packet library and handed to SoftwareSwitch.rx_packet; flow-mods,
packet-outs, port-mods, set-config, statistics and features requests are
OpenFlow bytes (harness/rawbytes.py) pushed through the real OFConnection.
Observed after EVERY step: (port, bytes) of every DpPacketOut (packed at the
moment the event is raised), every PACKET_IN (in_port, reason, total_len,
data), the port counters of all ports (OFPST_PORT over the wire) and - after
port-mods - the port configuration (FEATURES_REPLY over the wire).

The expectations carry bytes computed by TLC (Frames!Enc); this module compares
hex strings, it does not interpret frames.
"""
from harness import rawbytes as rb
from harness import c12_frames as fr
from harness.swharness import Harness

TRAFFIC = ("Rx", "PacketOut", "PacketOutBuf")
REASON = {0: "miss", 1: "action"}


class Adapter(object):
  def __init__(self, NP=3, MissLen=128, MaxHeld=0):
    self.NP, self.MissLen, self.MaxHeld = NP, MissLen, MaxHeld
    self.h = Harness(dpid=1, ports=NP, max_buffers=4096, miss_send_len=MissLen)
    self.h.send(rb.hello())
    self.hw = {p["port_no"]: p["hw_addr"] for p in self._features()["ports"]}
    self.h.take_emitted()
    self.bufs = []                      # outstanding buffer ids, oldest first
    self.off = {}                       # port -> [packets, bytes] refused at ingress but counted
    self.cur = None                     # (action, args) of the step being compared
    self.prev_raw = self._stats()

  # -- wire helpers ---------------------------------------------------------
  def _features(self):
    msgs = [m for m in self.h.send(rb.features_request(xid=7)) if m["type"] == rb.FEATURES_REPLY]
    if len(msgs) != 1:
      raise RuntimeError("no single FEATURES_REPLY")
    return msgs[0]

  def _stats(self):
    msgs = self.h.send(rb.stats_request(rb.ST_PORT, rb.port_stats_request_body(rb.OFPP_NONE), xid=9))
    rep = [m for m in msgs if m["type"] == rb.STATS_REPLY and m["stype"] == rb.ST_PORT]
    if len(rep) != 1:
      return "no-port-stats-reply"
    by = {p["port_no"]: p for p in rep[0]["ports"]}
    out = []
    for q in range(1, self.NP + 1):
      p = by.get(q)
      out.append([p["rx_packets"], p["rx_bytes"], p["tx_packets"], p["tx_bytes"]] if p else "absent")
    return out

  def _config(self):
    by = {p["port_no"]: p for p in self._features()["ports"]}
    out = []
    for q in range(1, self.NP + 1):
      c = by[q]["config"] if q in by else -1
      out.append(sorted(b for b in fr.MODEL_BITS if c >= 0 and c & fr.BITS[b]) if c >= 0 else "absent")
    return out

  def _traffic_obs(self, msgs):
    em = [[p, b.hex()] for p, b in self.h.take_emitted()]
    pins = []
    for m in msgs:
      if m["type"] != rb.PACKET_IN:
        continue                        # error replies etc. are C13's subject
      pins.append(dict(inport=m["in_port"], reason=REASON.get(m["reason"], str(m["reason"])),
                       total=m["total_len"], data=m["data"].hex()))
      if self.MaxHeld:
        self.bufs.append(m["buffer_id"])
    return dict(em=em, pins=pins, stats=self._stats())

  def _bits(self, names):
    v = 0
    for b in names:
      v |= fr.BITS[b]
    return v

  # -- one spec action ------------------------------------------------------------
  def step(self, a, args):
    self.cur = (a, args)
    h = self.h
    if a == "Rx":
      h.rx(bytes.fromhex(args["hex"]), args["p"])
      return self._traffic_obs(h.take_msgs())
    if a == "PacketOut":
      msgs = h.send(rb.packet_out(buffer_id=rb.NO_BUFFER, in_port=args["ip"],
                                  actions=fr.acts_bytes(args["acts"]), data=bytes.fromhex(args["hex"])))
      return self._traffic_obs(msgs)
    if a == "PacketOutBuf":
      k = args["k"]
      if k > len(self.bufs):
        return {"nobuffer": k, "have": len(self.bufs)}
      bid = self.bufs.pop(k - 1)
      if bid == rb.NO_BUFFER:
        return {"unbuffered": k}
      msgs = h.send(rb.packet_out(buffer_id=bid, in_port=rb.OFPP_NONE,
                                  actions=fr.acts_bytes(args["acts"])))
      return self._traffic_obs(msgs)
    if a == "FlowMod":
      msgs = h.send(rb.flow_mod(rb.match(), priority=100, actions=fr.acts_bytes(args["acts"])))
      return self._quiet(msgs)
    if a == "FlowDel":
      msgs = h.send(rb.flow_mod(rb.match(), command=rb.FC_DELETE))
      return self._quiet(msgs)
    if a == "PortMod":
      p = args["p"]
      h.send(rb.port_mod(p, bytes.fromhex(self.hw[p]), config=self._bits(args["conf"]),
                         mask=self._bits(args["mask"])))
      return {"config": self._config(), **self._stray()}
    if a == "PortModBad":
      p = args["p"]
      if args["kind"] == "badport":
        h.send(rb.port_mod(self.NP + 6, bytes.fromhex(self.hw[p]), config=self._bits(args["conf"]),
                           mask=self._bits(args["mask"])))
      else:
        wrong = bytes.fromhex(self.hw[p])[:5] + b"\xee"
        h.send(rb.port_mod(p, wrong, config=self._bits(args["conf"]), mask=self._bits(args["mask"])))
      return {"config": self._config(), **self._stray()}
    if a == "SetFrag":
      msgs = h.send(rb.set_config(flags=1 if args["drop"] else 0, miss_send_len=self.MissLen))
      return self._quiet(msgs)
    raise ValueError(a)

  def _stray(self):
    em = self.h.take_emitted()
    return {"emitted": len(em)} if em else {}

  def _quiet(self, msgs):
    r = {"x": 0}
    pins = [m for m in msgs if m["type"] == rb.PACKET_IN]
    if pins:
      r["pins"] = len(pins)
    r.update(self._stray())
    return r

  # -- latitude of the spec, bound to what the code chose ---------------------------
  def normalize(self, obs, exp):
    if not isinstance(obs, dict) or "EXC" in obs or not isinstance(exp, dict):
      return obs
    if "config" in exp and isinstance(obs.get("config"), list):
      obs["config"] = [sorted(c) if isinstance(c, list) else c for c in obs["config"]]
      return obs
    if "em" not in exp or "em" not in obs:
      return obs
    a, args = self.cur
    # a frame the property accepts in two forms (Frames!EncAlts: a datagram without UDP checksum leaves as it
    # is or with the checksum filled in): the spec logged one of them, map the other one onto it
    alts = exp.get("alts")
    if alts:
      obs["alts"] = alts                 # the spec's latitude, not an observation
      for x in obs["em"]:
        if isinstance(x, list) and len(x) == 2 and x[1] in alts:
          x[1] = alts[x[1]]
      for o in obs["pins"]:
        if o.get("data") in alts:
          o["data"] = alts[o["data"]]
    # frames one output action puts on several ports are a set: regroup the flat
    # observation by the sizes of the expected groups, order each group by port
    flat, groups, i = obs["em"], [], 0
    if len(flat) == sum(len(g) for g in exp["em"]):
      for g in exp["em"]:
        groups.append(sorted(flat[i:i + len(g)]))
        i += len(g)
    else:
      groups = [flat]
    obs["em"] = groups
    # output:CONTROLLER from a NO_PACKET_IN port may or may not send (opt)
    out, j = [], 0
    for e in exp["pins"]:
      o = obs["pins"][j] if j < len(obs["pins"]) else None
      if o is not None and all(o[k] == e[k] for k in ("inport", "reason", "total", "data")):
        out.append(dict(o, opt=e["opt"]))
        j += 1
      elif e["opt"]:
        out.append(e)
      else:
        break
    obs["pins"] = out + [dict(o, opt=False) for o in obs["pins"][j:]]
    # a frame refused at ingress may or may not be counted as received (both
    # packets and bytes, or neither); remember the code's choice per port
    raw = obs["stats"]
    if isinstance(raw, list) and all(isinstance(r, list) for r in raw):
      if a == "Rx" and exp.get("drop") and not obs["em"] and not obs["pins"]:
        p = args["p"]
        o = self.off.setdefault(p, [0, 0])
        n = len(args["hex"]) // 2
        adj = [raw[p - 1][0] - o[0], raw[p - 1][1] - o[1]]
        if adj == [exp["stats"][p - 1][0] + 1, exp["stats"][p - 1][1] + n]:
          o[0] += 1
          o[1] += n
      obs["stats"] = [[r[0] - self.off.get(q + 1, [0, 0])[0], r[1] - self.off.get(q + 1, [0, 0])[1],
                       r[2], r[3]] for q, r in enumerate(raw)]
    if "drop" in exp:
      obs["drop"] = exp["drop"]        # classification made by the spec, not an observation
    return obs

  # -- classification of a mismatch ---------------------------------------------------
  def signature(self, st, obs):
    a, args, exp = st["a"], st.get("args") or {}, st["exp"]
    sig = {"action": a}
    lists = [args.get("acts") or []] + [st.get("info", {}).get("flow") or []]
    types = set(x["t"] for l in lists for x in l)
    sig["enqueue"] = "enqueue" in types
    sig["table"] = any(x["t"] == "output" and x["n"] == rb.OFPP_TABLE for l in lists for x in l)
    # output:TABLE followed by further actions of the same packet-out list ('mid'), or closing it ('last')
    ix = [i for i, x in enumerate(args.get("acts") or []) if x["t"] == "output" and x["n"] == rb.OFPP_TABLE]
    sig["table_pos"] = "" if not ix or a == "Rx" else ("mid" if ix[0] < len(args["acts"]) - 1 else "last")
    sig["after_table_mid"] = bool(st.get("info", {}).get("after_table_mid"))
    shape = st.get("info", {}).get("shape", "")
    sig["odd_l4"] = shape.endswith("_odd")
    sig["cfi"] = shape == "t_cfi"
    sig["first_frag"] = shape in ("u_frag1", "t_frag1t", "u_frag1_ipopt")
    sig["options"] = "opt" in shape            # the frame carries IPv4 header options and/or TCP options
    sig["ecn"] = shape.endswith("_ecn") and "set_nw_tos" in types
    # the frame was solved to sit on a special value of the Internet checksum ('udp/zero', 'ip/carryle', ...)
    sig["csum_shape"] = st.get("info", {}).get("csum_shape", "")
    if isinstance(obs, dict) and "EXC" in obs:
      sig["observed"] = "exception:" + obs["EXC"]
      return sig
    if not isinstance(obs, dict):
      sig["observed"] = "garbage"
      return sig
    if a in TRAFFIC:
      for k in ("em", "pins", "stats"):
        if obs.get(k) != exp.get(k):
          sig["observed"] = k
          break
      else:
        sig["observed"] = "other"
      if sig["observed"] == "em":
        eo = [x for g in obs.get("em", []) for x in g]
        ee = [x for g in exp["em"] for x in g]
        sig["emitted"] = "fewer" if len(eo) < len(ee) else "more" if len(eo) > len(ee) else "different"
        if len(eo) == len(ee):
          ports_ok = [x[0] for x in eo] == [x[0] for x in ee]
          sig["emitted"] = "bytes" if ports_ok else "ports"
          if ports_ok:
            d = set()
            for x, y in zip(eo, ee):
              if x[1] != y[1]:
                d.update(fr.diff_fields(bytes.fromhex(x[1]), bytes.fromhex(y[1])))
            sig["fields"] = sorted(d)
    else:
      sig["observed"] = "config" if obs.get("config") != exp.get("config") else "other"
    return sig
