"""X11 harness: the real DHCP client (pox/proto/dhcp_client.py, OFDHCPClient) behind a real control channel.

  scripted DHCP server frame (struct only) --> SoftwareSwitch port (real; flows installed by the client)
        --PACKET_IN bytes--> of_01.Connection (real) --PacketIn event--> OFDHCPClient._handle_PacketIn/_rx (real)
  frame emitted on a port  <-- DpPacketOut <-- PACKET_OUT bytes <-- OFDHCPClient._send_data (real)

* a fresh real recoco Scheduler/SelectHub per instance is the default scheduler, so every `recoco.Timer` the
  client creates lives there; the harness steps it AT THE CURRENT INSTANT only (`run_instant`: Scheduler.cycle()
  / SelectHub._select() until select() would have to wait) and moves the virtual clock itself (`advance`), so a
  timer never fires early because of the harness, and timers due at the same instant can be served one callback
  at a time (`run_one`);
* `dhcp_client.recoco` is replaced by a namespace whose `Timer` is a subclass of the real recoco.Timer that only
  records "created" and "callback called" (everything else is the real Timer on the real scheduler).  Which of the
  client's timers fired is decided from the client's own attributes (total_timer / discover_timer / offer_timer /
  request_timer) at the moment of the call: a timer that fires although no attribute refers to it any more is an
  ORPHAN (a timer of an old state);
* `dhcp_client.time` is the virtual clock.  `int_clock=True` hands out integral seconds as python ints (the client
  puts `time.time() - start` into the 16-bit `secs` field; with a float clock - which is what the real time.time()
  is - packing raises struct.error: Defect D2 in notes/X11.md); `int_clock=False` is the clock as it really is;
* `alias=True` defines the module global `OpenFlowDHCPClient` that OFDHCPClient.__init__ names in its super() call
  (Defect D1); `alias=False` leaves the module as it is;
* exceptions swallowed by revent (`raiseEventNoErrors`) and by the scheduler (task de-scheduled) are recorded;
* DHCP frames in both directions are built / decoded with struct only.
"""
import errno
import os
import select as _select
import socket as _socket
import struct
import sys
import threading

from engine.core import Machinery
from harness import poxenv
from harness import rawbytes as rb

core = poxenv.boot()

import pox.openflow as ofmod                      # noqa: E402
import pox.openflow.of_01 as of_01                # noqa: E402

if not core.hasComponent("openflow"):
  ofmod.launch()
of_01.DeferredSender.start = lambda self: None
if of_01.deferredSender is None:
  of_01.deferredSender = of_01.DeferredSender()

from pox.lib.ioworker import IOWorker             # noqa: E402
from pox.datapaths import switch as swmod         # noqa: E402
from pox.openflow import flow_table as ftmod      # noqa: E402
from pox.lib.packet.ethernet import ethernet      # noqa: E402
import pox.lib.revent.revent as reventmod         # noqa: E402
import pox.lib.recoco.recoco as recocomod         # noqa: E402
import pox.lib.recoco as recocopkg                # noqa: E402
import pox.proto.dhcp_client as dc                # noqa: E402

poxenv.install_clock(of_01, swmod, ftmod, recocomod)
clock = poxenv.clock

FAULTS = []          # exceptions swallowed on the way (type name, where)


def _hook(source, event, args, kw, exc_info):
  FAULTS.append(type(exc_info[1]).__name__)


class _TB(object):
  """stand-in for the `traceback` module inside recoco: the scheduler prints the exception of a task it
  de-schedules; here it is recorded instead."""
  def print_exc(self, *a, **k):
    e = sys.exc_info()[1]
    FAULTS.append(type(e).__name__ if e is not None else "unknown")

  def __getattr__(self, n):
    import traceback
    return getattr(traceback, n)


def _install_hooks():
  reventmod.handleEventException = _hook
  recocomod.print = lambda *a, **k: None
  recocomod.traceback = _TB()


class IntClock(object):
  """the virtual clock as whole seconds (python int)"""
  def time(self):
    return int(round(clock.now))

  def __getattr__(self, name):
    import time as _t
    return getattr(_t, name)


class WouldWait(Exception):
  pass


class Diverged(Exception):
  pass


class FakeThread(object):
  def __init__(self, *a, **k):
    self.daemon = True

  def start(self):
    pass


# --------------------------------------------------------------------------
# recording Timer

class _TimerNS(object):
  """what `dhcp_client.recoco` is while a Net is alive"""
  def __init__(self, net):
    self._net = net
    net_ref = net

    class RecTimer(recocomod.Timer):
      def __init__(self, timeToWake, callback, *a, **kw):
        me = self

        def cb(*ca, **ckw):
          net_ref._timer_called(me)
          me._x11_done = True
          return callback(*ca, **ckw)
        self._x11_delay = timeToWake
        self._x11_cb = callback
        net_ref.timers.append(self)
        recocomod.Timer.__init__(self, timeToWake, cb, *a, **kw)
    self.Timer = RecTimer

  def __getattr__(self, n):
    return getattr(recocopkg, n)


# --------------------------------------------------------------------------
# sockets

class CtlSock(object):
  """Scripted non-blocking TCP socket as seen by of_01.Connection."""
  _fd = 9000

  def __init__(self):
    self.inq = []
    self.out = b""
    self.closed = False
    self.shut = False
    CtlSock._fd += 1
    self._fileno = CtlSock._fd

  def fileno(self):
    return self._fileno

  def setblocking(self, v):
    pass

  def getpeername(self):
    return ("10.9.0.1", 41000)

  def send(self, data):
    if self.closed or self.shut:
      raise _socket.error(errno.EPIPE, "Broken pipe")
    self.out += data
    return len(data)

  def recv(self, n, flags=0):
    if self.inq:
      d = self.inq.pop(0)
      if len(d) > n:
        self.inq.insert(0, d[n:])
        d = d[:n]
      return d
    if self.shut or self.closed:
      return b""
    raise _socket.error(errno.EAGAIN, "Resource temporarily unavailable")

  def shutdown(self, how):
    self.shut = True

  def close(self):
    self.closed = True


class SwSock(object):
  def getpeername(self):
    return ("127.0.0.1", 6633)


class _Chan(object):
  """one switch and its control channel"""


# --------------------------------------------------------------------------
# DHCP frames, struct only

MAGIC = b"\x63\x82\x53\x63"
BCAST_MAC = "ff:ff:ff:ff:ff:ff"
MT = {"DISCOVER": 1, "OFFER": 2, "REQUEST": 3, "DECLINE": 4, "ACK": 5, "NAK": 6, "RELEASE": 7, "INFORM": 8}
MT_NAME = {v: k for k, v in MT.items()}


def ip_int(s):
  return struct.unpack("!I", rb.ip(s))[0]


def ip_str(n):
  return ".".join(str(b) for b in struct.pack("!I", n & 0xffffffff))


def bootp(op, xid, flags, chaddr_mac, options, ciaddr=0, yiaddr=0, siaddr=0, secs=0, hlen=6, htype=1,
          magic=MAGIC):
  """options: list of (code, bytes) in wire order; END is appended."""
  fixed = struct.pack("!BBBBIHHIIII16s64s128s", op, htype, hlen, 0, xid & 0xffffffff, secs, flags,
                      ciaddr, yiaddr, siaddr, 0, rb.mac(chaddr_mac) + b"\0" * 10, b"", b"")
  o = b""
  for code, val in options:
    o += bytes([code, len(val)]) + val
  o += b"\xff"
  return fixed + magic + o


def udp_ip(src_ip, dst_ip, sport, dport, payload, ttl=64, ident=0x2b2b):
  udp_len = 8 + len(payload)
  pseudo = struct.pack("!IIBBH", src_ip, dst_ip, 0, 17, udp_len)
  udp = struct.pack("!HHHH", sport, dport, udp_len, 0) + payload
  c = rb.csum(pseudo + udp) or 0xffff
  udp = struct.pack("!HHHH", sport, dport, udp_len, c) + payload
  hdr = struct.pack("!BBHHHBBHII", 0x45, 0x10, 20 + udp_len, ident, 0, ttl, 17, 0, src_ip, dst_ip)
  hdr = hdr[:10] + struct.pack("!H", rb.csum(hdr)) + hdr[12:]
  return hdr + udp


def dhcp_frame(src_mac, dst_mac, src_ip, dst_ip, dhcp_bytes, sport=67, dport=68):
  return rb.eth(dst_mac, src_mac, 0x0800, udp_ip(src_ip, dst_ip, sport, dport, dhcp_bytes))


def parse_dhcp_frame(frame):
  """frame -> dict; raises ValueError('what') on anything malformed."""
  if len(frame) < 14 + 20 + 8 + 240:
    raise ValueError("short frame %d" % len(frame))
  r = dict(eth_dst=frame[0:6], eth_src=frame[6:12])
  if struct.unpack("!H", frame[12:14])[0] != 0x0800:
    raise ValueError("ethertype")
  iph = frame[14:34]
  vihl, tos, tot, ident, frag, ttl, proto, hc, sip, dip = struct.unpack("!BBHHHBBHII", iph)
  if vihl != 0x45:
    raise ValueError("ip version/ihl %#x" % vihl)
  if rb.csum(iph) != 0:
    raise ValueError("ip header checksum")
  if tot != len(frame) - 14:
    raise ValueError("ip total length %d of %d" % (tot, len(frame) - 14))
  if proto != 17:
    raise ValueError("ip protocol %d" % proto)
  if ttl == 0:
    raise ValueError("ttl 0")
  if frag & 0x3fff:
    raise ValueError("fragment")
  r.update(ip_src=sip, ip_dst=dip)
  udp = frame[34:]
  sport, dport, ulen, uc = struct.unpack("!HHHH", udp[:8])
  if ulen != len(udp):
    raise ValueError("udp length %d of %d" % (ulen, len(udp)))
  if uc != 0:
    pseudo = struct.pack("!IIBBH", sip, dip, 0, 17, ulen)
    if rb.csum(pseudo + udp) != 0:
      raise ValueError("udp checksum")
  r.update(sport=sport, dport=dport)
  b = udp[8:]
  (op, htype, hlen, hops, xid, secs, flags, ci, yi, si, gi, ch, sname, fil) = \
      struct.unpack("!BBBBIHHIIII16s64s128s", b[:236])
  if b[236:240] != MAGIC:
    raise ValueError("magic cookie")
  r.update(op=op, htype=htype, hlen=hlen, hops=hops, xid=xid, secs=secs, flags=flags, ciaddr=ci, yiaddr=yi,
           siaddr=si, giaddr=gi, chaddr=ch, sname=sname, file=fil)
  opts = []
  o = b[240:]
  i = 0
  ended = False
  while i < len(o):
    code = o[i]
    if code == 255:
      ended = True
      break
    if code == 0:
      i += 1
      continue
    if i + 1 >= len(o):
      raise ValueError("option %d without length" % code)
    ln = o[i + 1]
    if i + 2 + ln > len(o):
      raise ValueError("option %d runs past the message" % code)
    if code in [c for c, _ in opts]:
      raise ValueError("option %d twice" % code)
    opts.append((code, o[i + 2:i + 2 + ln]))
    i += 2 + ln
  if not ended:
    raise ValueError("no END option")
  r["options"] = dict(opts)
  r["option_order"] = [c for c, _ in opts]
  return r


# --------------------------------------------------------------------------

class Net(object):
  MAX_ROUNDS = 40

  def __init__(self, nports=2, dpid=1, int_clock=True, alias=True, miss_send_len=1500, max_buffers=4):
    self.clock = clock
    _install_hooks()
    del FAULTS[:]
    # -- fresh controller side
    old = core.components.get("openflow")
    if old is not None:
      try:
        core.removeListener(old._handle_DownEvent)
      except Exception:
        pass
    self.nexus = ofmod.OpenFlowNexus()
    # whole frames reach the controller on a table miss (the default of 128 bytes cuts a DHCP message short, so a
    # client with install_flows=False would hear nothing; and the port filter of _handle_PacketIn is only
    # exercised by a frame that arrives complete on another port)
    self.nexus.miss_send_len = 0xffff
    core.components["openflow"] = self.nexus
    core.components["OpenFlowConnectionArbiter"] = ofmod.OpenFlowConnectionArbiter()
    of_01.Connection.ID = 0
    of_01.Connection._aborted_connections = 0
    of_01.deferredSender.sending = False
    of_01.deferredSender._dataForConnection.clear()
    # -- fresh scheduler; the client's timers go there
    orig = recocomod.Thread
    recocomod.Thread = FakeThread
    try:
      self.sched = recocomod.Scheduler(isDefaultScheduler=True, startInThread=False, threaded_selecthub=False)
    finally:
      recocomod.Thread = orig
    recocomod.defaultScheduler = self.sched
    self.hub = self.sched._selectHub
    self.hub._select_func = self._vselect
    self.timers = []
    self.fired = []            # kinds of the timer callbacks called since the last take
    self.client = None
    dc.recoco = _TimerNS(self)
    dc.time = IntClock() if int_clock else clock
    if alias:
      dc.OpenFlowDHCPClient = dc.OFDHCPClient
    elif hasattr(dc, "OpenFlowDHCPClient"):
      del dc.OpenFlowDHCPClient
    # -- the switch
    self.dpid = dpid
    self.chans = []
    self.nports, self.max_buffers, self.miss_send_len = nports, max_buffers, miss_send_len
    ch = self.add_switch(dpid)
    self.sw, self.worker, self.ofc, self.sock = ch.sw, ch.worker, ch.ofc, ch.sock
    self.con = None
    self.c2s = []
    self.s2c = []

  def add_switch(self, dpid):
    """another real SoftwareSwitch behind its own control channel (the second scenario: a real DHCPD serves the
    client through a second switch)"""
    ch = _Chan()
    ch.dpid = dpid
    ch.sw = swmod.SoftwareSwitch(dpid, ports=self.nports, max_buffers=self.max_buffers,
                                 miss_send_len=self.miss_send_len)
    ch.worker = IOWorker()
    ch.worker.socket = SwSock()
    ch.ofc = swmod.OFConnection(ch.worker)
    ch.sw.set_connection(ch.ofc)
    ch.emits = []
    ch.sw.addListenerByName("DpPacketOut", lambda e, c=ch: c.emits.append((e.port.port_no, e.packet.pack())))
    ch.sock = CtlSock()
    ch.con = None
    self.chans.append(ch)
    return ch

  def connect_chan(self, ch):
    ch.con = of_01.Connection(ch.sock)
    self._pump()
    if self.nexus.getConnection(ch.dpid) is not ch.con or ch.con.connect_time is None:
      raise Machinery("switch %s did not complete the handshake" % ch.dpid)

  # -- timers
  def kind_of(self, t):
    c = self.client
    if c is None:
      # the constructor raised: the object exists only behind its timers
      cb = t._x11_cb
      c = getattr(cb, "__self__", None)
    if c is not None:
      for k in ("total", "discover", "offer", "request"):
        if getattr(c, k + "_timer", None) is t:
          return k
    return "orphan"

  def _timer_called(self, t):
    self.fired.append(self.kind_of(t))

  def pending(self):
    """(kind, deadline relative to now) of the client's timers that are neither cancelled nor finished"""
    out = []
    for t in self.timers:
      if t._cancelled or getattr(t, "_x11_done", False):
        continue
      out.append((self.kind_of(t), t._next - clock.now))
    return out

  def _vselect(self, r, w, x, timeout):
    ro, wo, xo = _select.select(list(r), list(w), list(x), 0)
    if ro or wo or xo:
      return ro, wo, xo
    raise WouldWait()

  def run_instant(self, one=False, budget=2000):
    """Run the scheduler at the current instant; with one=True stop as soon as one timer callback has been
    called.  Returns the kinds of the timers whose callbacks were called."""
    n0 = len(self.fired)
    self.sched._thread = threading.current_thread()
    try:
      for _ in range(budget):
        if self.sched._ready:
          self.sched.cycle()
          if one and len(self.fired) > n0:
            break
          continue
        try:
          self.hub._select(self.hub._tasks, {})
        except WouldWait:
          break
      else:
        raise Diverged("scheduler still busy after %d steps at one instant" % budget)
    finally:
      self.sched._thread = None
    self._pump()
    got = self.fired[n0:]
    return got

  def advance(self, d):
    clock.advance(d)

  # -- control channel
  def connect(self):
    self.connect_chan(self.chans[0])
    self.con = self.chans[0].con

  def _pump(self):
    """move the bytes both ends of every control channel wrote until all are quiet; the first switch's channel
    (the client's) is tapped"""
    rounds = 0
    c2s_raw = b""
    s2c_raw = b""
    while True:
      moved = False
      for i, ch in enumerate(self.chans):
        if ch.con is None:
          continue
        if ch.sock.out:
          data, ch.sock.out = ch.sock.out, b""
          if i == 0:
            c2s_raw += data
          ch.worker._push_receive_data(data)
          moved = True
        if ch.worker.send_buf:
          data, ch.worker.send_buf = ch.worker.send_buf, b""
          if i == 0:
            s2c_raw += data
          ch.sock.inq.append(data)
          while ch.sock.inq:
            if ch.con.read() is False:
              raise Machinery("controller dropped the connection")
          moved = True
      if not moved:
        break
      rounds += 1
      if rounds > self.MAX_ROUNDS:
        raise Diverged("control channel still busy after %d rounds" % rounds)
    if c2s_raw:
      self.c2s.extend(rb.parse_stream(c2s_raw))
    if s2c_raw:
      self.s2c.extend(rb.parse_stream(s2c_raw))

  def take(self):
    """everything observed since the last take"""
    self._pump()
    r = dict(c2s=self.c2s, s2c=self.s2c, emits=self.chans[0].emits, faults=list(FAULTS), fired=self.fired)
    self.c2s, self.s2c, self.chans[0].emits, self.fired = [], [], [], []
    del FAULTS[:]
    return r

  def inject(self, port, frame):
    """A frame arrives on a port of the switch."""
    self.sw.rx_packet(ethernet(raw=frame), port)
    self._pump()

  def flows(self):
    return list(self.sw.table.entries)

  def close(self):
    dc.recoco = recocopkg
    for t in self.timers:
      t.cancel()
    ps = [self.hub._pinger]
    if getattr(self.sched, "_callLaterTask", None) is not None:
      ps.append(self.sched._callLaterTask._pinger)
    for p in ps:
      for fd in (getattr(p, "_w", -1), getattr(p, "_r", -1)):
        try:
          if fd >= 0:
            os.close(fd)
        except Exception:
          pass
      try:
        p._w = p._r = -1
      except Exception:
        pass
