"""C03 concretisation: abstract frame / match records of specs/match/*.tla -> bytes.

Written with `struct` only (plus harness.rawbytes, also struct only): nothing
here calls the code under test, so a field that POX extracts from the wrong
offset is not hidden by a symmetric mistake.

Frame record (all fields always present, unused ones 0 / "none"):
  port   ingress port (int)
  src, dst  MAC symbols (small ints, see mac_of)
  tag    0/1 (one 802.1Q tag right after the source address)
  vid, pcp, cfi
  l2     "eth2"  : type field = etype (>= 1536)
         "llc"   : 802.3 length + 802.2 LLC without SNAP
         "snap0" : 802.3 length + LLC/SNAP, OUI 00-00-00, SNAP type = etype
         "snapx" : 802.3 length + LLC/SNAP, OUI 00-00-0c, SNAP type = etype
  etype
  l3     "none" | "ip" | "arp"    (what the body really is)
  tos, proto, sip, dip ([4 bytes]), frag "no"|"first"|"later", opts (32-bit words)
  op     ARP opcode (16 bit); ARP spa/tpa are sip/dip
  l4     "none" | "tp" | "icmp" ;  a, b = ports or type/code
"""
import struct

from harness import rawbytes as rb

MAC_POOLS = [
    {1: "02:00:00:00:00:01", 2: "02:00:00:00:00:02", 3: "0e:00:00:00:00:03"},
    {1: "00:1b:21:3c:9d:f8", 2: "ff:ff:ff:ff:ff:ff", 3: "01:00:5e:00:00:fb"},
    {1: "fe:ff:ff:ff:ff:ff", 2: "00:00:00:00:00:01", 3: "00:00:00:00:00:00"},
    {1: "80:00:00:00:00:00", 2: "00:00:00:00:00:80", 3: "7f:ff:ff:ff:ff:ff"},
]


def mac_of(sym, pool=0):
  return rb.mac(MAC_POOLS[pool % len(MAC_POOLS)][sym])


def _payload(n, salt=0):
  return bytes(((i * 13 + 7 + salt) & 0xff) for i in range(n))


def l4_bytes(x):
  if x["l4"] == "tp":
    if x["proto"] == 6:
      # sport dport seq ack off flags win csum urg
      return struct.pack("!HHIIBBHHH", x["a"], x["b"], 1, 0, 5 << 4, 0x02, 8192, 0, 0) + _payload(6)
    if x["proto"] == 17:
      body = _payload(10)
      # OpenFlow 1.0 takes tp_src / tp_dst from the first four octets of the UDP header whatever its length field
      # says: the field is right for most frames and nonsense (0, 7, 65535) for some
      ln = (8 + len(body), 0, 8 + len(body), 7, 8 + len(body), 65535)[(x["a"] + 2 * x["b"] + x["tos"]) % 6]
      return struct.pack("!HHHH", x["a"], x["b"], ln, 0) + body
    # ports of a protocol the switch does not know (e.g. SCTP): same place
    return struct.pack("!HH", x["a"], x["b"]) + _payload(12)
  if x["l4"] == "icmp":
    body = struct.pack("!HH", 0x1234, 1) + _payload(8)
    hdr = struct.pack("!BBH", x["a"], x["b"], 0)
    c = rb.csum(hdr + body)
    return struct.pack("!BBH", x["a"], x["b"], c) + body
  return _payload(16, 3)


def ip_bytes(x):
  opts = b"".join(b"\x01\x01\x01\x01" for _ in range(x["opts"]))   # NOPs
  ihl = 5 + x["opts"]
  l4 = l4_bytes(x)
  if x["frag"] == "later":
    # a non-first fragment: the bytes where ports would be are payload
    l4 = struct.pack("!HH", x["a"], x["b"]) + _payload(12, 5)
  fl = {"no": 0x4000, "first": 0x2000, "later": 0x2000 | 37, "last": 185}[x["frag"]]
  total = ihl * 4 + len(l4)
  hdr = struct.pack("!BBHHHBBH4s4s", (4 << 4) | ihl, x["tos"], total, 0x4d2, fl, 64, x["proto"], 0,
                    bytes(x["sip"]), bytes(x["dip"])) + opts
  c = rb.csum(hdr)
  hdr = hdr[:10] + struct.pack("!H", c) + hdr[12:]
  return hdr + l4


def arp_bytes(x, pool=0):
  return (struct.pack("!HHBBH", 1, 0x0800, 6, 4, x["op"]) + mac_of(x["src"], pool) + bytes(x["sip"]) +
          (b"\0" * 6 if x["op"] % 256 == 1 else mac_of(x["dst"], pool)) + bytes(x["dip"]))


def frame_bytes(x, pool=0):
  if x["l3"] == "ip":
    body = ip_bytes(x)
  elif x["l3"] == "arp":
    body = arp_bytes(x, pool)
  else:
    body = _payload(30, x["etype"] & 0xff)
  out = mac_of(x["dst"], pool) + mac_of(x["src"], pool)
  if x["tag"]:
    out += struct.pack("!HH", 0x8100, (x["pcp"] << 13) | (x.get("cfi", 0) << 12) | x["vid"])
  if x["l2"] == "eth2":
    assert x["etype"] >= 1536
    out += struct.pack("!H", x["etype"]) + body
  elif x["l2"] == "llc":
    llc = b"\x42\x42\x03" + body           # STP-like SAPs, UI frame, no SNAP
    out += struct.pack("!H", len(llc)) + llc
  elif x["l2"] in ("snap0", "snapx"):
    oui = b"\0\0\0" if x["l2"] == "snap0" else b"\x00\x00\x0c"
    llc = b"\xaa\xaa\x03" + oui + struct.pack("!H", x["etype"]) + body
    out += struct.pack("!H", len(llc)) + llc
  else:
    raise ValueError(x["l2"])
  if len(out) < 60:
    out += b"\0" * (60 - len(out))
  return out


# ---- matches
FLAGS = {"in_port": rb.FW_IN_PORT, "dl_vlan": rb.FW_DL_VLAN, "dl_src": rb.FW_DL_SRC, "dl_dst": rb.FW_DL_DST,
         "dl_type": rb.FW_DL_TYPE, "nw_proto": rb.FW_NW_PROTO, "tp_src": rb.FW_TP_SRC, "tp_dst": rb.FW_TP_DST,
         "dl_vlan_pcp": rb.FW_DL_VLAN_PCP, "nw_tos": rb.FW_NW_TOS}


def wildcard_word(m, reserved=0):
  w = 0
  for f in m["wc"]:
    w |= FLAGS[f]
  w |= (m["sbits"] & 63) << rb.FW_NW_SRC_SHIFT
  w |= (m["dbits"] & 63) << rb.FW_NW_DST_SHIFT
  return w | (reserved & ~rb.FW_ALL & 0xffffffff)


def match_bytes(m, pool=0, reserved=0):
  v = m["v"]
  return rb.match(wildcards=wildcard_word(m, reserved), in_port=v["in_port"],
                  dl_src=mac_of(v["dl_src"], pool),
                  dl_dst=mac_of(v["dl_dst"], pool),
                  dl_vlan=v["dl_vlan"], dl_vlan_pcp=v["dl_vlan_pcp"], dl_type=v["dl_type"],
                  nw_tos=v["nw_tos"], nw_proto=v["nw_proto"], nw_src=bytes(v["nw_src"]),
                  nw_dst=bytes(v["nw_dst"]), tp_src=v["tp_src"], tp_dst=v["tp_dst"])
