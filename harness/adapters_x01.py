"""X01 adapter: Dhcpd.tla actions -> the real DHCP server behind a real switch and control channel.

`Adapter.step(a, args)` performs one action of the specification: it builds the client's frame with struct
only, lets it arrive on a port of a real SoftwareSwitch (harness/x01_net.py), and returns what an observer
sees, in exactly the JSON shape of the spec's `exp`:

  ConnUp                      {flows: n}            FLOW_MODs "DHCP -> controller" the server installed
  Discover/Request/Release/Decline/Inform/Junk/NotServed/Tick
      {reply:  {t, yi, x, to, port, ch, opts}       the frame the switch emitted, decoded with struct
       ev:     {c, a}                               DHCPLease events raised during the step
       fault:  bool                                 an event handler raised (revent swallowed it)
       offers: {client: addr}, leases: {client: addr}, free: [addr]}    projection of the server's tables

Concretisation (abstract symbol -> bytes) depends on `variant`; the spec uses the symbols only under equality:
  clients "c1".."c3"   unicast MACs from one of several families
  addresses 1..N       network | (first + i - 1) for several networks / prefix lengths / offsets
  N+1 ("Out")          an address outside the range: just below, just above, the subnet broadcast, another net
  xid 1..5             0x00000001, 0x7fffffff, 0x80000000, 0xffffffff, a seeded random value
"""
import copy
import random
import struct

from engine.core import Machinery
from harness import rawbytes as rb
from harness import x01_net as xn

NETS = [
    dict(network="10.1.2.0/24", first=10, outside_srv=254),
    dict(network="192.168.0.0/16", first=256, outside_srv=65000),      # x.x.1.0 is the first address
    dict(network="172.16.5.128/25", first=1, outside_srv=100),
    dict(network="10.200.0.0/24", first=100, outside_srv=1),
    dict(network="192.168.77.0/28", first=2, outside_srv=14),
    dict(network="10.0.0.0/8", first=70000, outside_srv=5),
]
MAC_FAMILIES = [
    lambda k: "00:00:00:00:0c:%02x" % k,
    lambda k: "02:00:00:00:01:%02x" % k,          # locally administered
    lambda k: "fe:ff:ff:ff:ff:%02x" % (0xf0 + k),
    lambda k: "0c:%02x:00:00:00:0e" % k,          # differ in the second octet only
    lambda k: "00:16:3e:%02x:%02x:%02x" % (k, k, k),
]
XIDS = [0x00000001, 0x7fffffff, 0x80000000, 0xffffffff]
LEASE_TIME = 3600           # DHCPD.lease_time


def _net(v):
  return NETS[v % len(NETS)]


class Adapter(object):
  def __init__(self, clients=("c1", "c2", "c3"), N=2, srv=0, kind="simple", nports=2, served=(1,),
               veto=(), has_router=True, has_dns=True, variant=0, lease_ticks=2, seed=0, dpid=None):
    self.clients = list(clients)
    self.N = N
    self.srv = srv
    self.kind = kind
    self.lease_ticks = lease_ticks
    self._cfg = dict(nports=nports, served=served, veto=veto, has_router=has_router, has_dns=has_dns, seed=seed,
                     dpid=dpid)
    self.variant = variant
    self.up = False
    self.net = None

  def _build(self, variant):
    """Concretise and boot everything (done at ConnUp, so that a behaviour can name its own variant)."""
    N, srv, kind = self.N, self.srv, self.kind
    c = self._cfg
    nports, served, veto, has_router, has_dns, seed, dpid = (c["nports"], c["served"], c["veto"], c["has_router"],
                                                             c["has_dns"], c["seed"], c["dpid"])
    nt = _net(variant)
    base, bits = nt["network"].split("/")
    self.bits = int(bits)
    self.base = xn.ip_int(base)
    self.first = nt["first"]
    self.hostmask = (1 << (32 - self.bits)) - 1
    self.addr = {i: self.base | (self.first + i - 1) for i in range(1, N + 1)}
    self.idx = {v: k for k, v in self.addr.items()}
    self.server_ip = self.addr[srv] if srv else (self.base | nt["outside_srv"])
    assert self.server_ip not in self.idx or srv
    self.mask = (0xffffffff << (32 - self.bits)) & 0xffffffff
    fam = MAC_FAMILIES[(variant // len(NETS) + variant) % len(MAC_FAMILIES)]
    self.mac = {c: fam(i + 1) for i, c in enumerate(self.clients)}
    self.client_of = {rb.mac(m): c for c, m in self.mac.items()}
    rnd = random.Random(seed * 7919 + variant)
    self.xid = {i + 1: x for i, x in enumerate(XIDS)}
    self.xid[5] = rnd.randrange(2, 0x7ffffffe)
    self.xsym = {v: k for k, v in self.xid.items()}
    outs = [self.base | (self.first + N), self.base | self.hostmask, (self.base ^ 0x01000000) | self.first,
            0x08080808]
    if self.first - 1 >= 1:
      outs.append(self.base | (self.first - 1))
    self.outs = [o for o in outs if o not in self.idx and o != self.server_ip]
    self.router = self.server_ip if has_router else None
    self.dns = (self.server_ip if has_router else self.base | 53) if has_dns else None
    self.dpid = dpid if dpid is not None else [1, 0x0000a1b2c3d4e5f6, 0x00007fffffffffff][variant % 3]
    vt = [(self.mac[c], xn.ip_str(self.addr[a])) for c, a in veto]
    self.served = sorted(served)
    self.nports = nports
    self.net = xn.Net(network=nt["network"], first=self.first, count=N, server_ip=xn.ip_str(self.server_ip),
                      router=(() if has_router else None),
                      dns=((() if has_router else xn.ip_str(self.dns)) if has_dns else None),
                      kind=kind, nports=nports, dpid=self.dpid, veto=vt,
                      served=(self.served if len(self.served) < nports else None))

  # ---------------------------------------------------------------- concretisation
  def _want(self, w, salt):
    if w == 0:
      return None
    if w in self.addr:
      return self.addr[w]
    return self.outs[salt % len(self.outs)]

  def _a2i(self, ipn):
    if ipn == 0:
      return 0
    return self.idx.get(ipn, 99)

  def _opts(self, mtype, want=None, prl=(), server_id=False):
    o = [(53, bytes([mtype]))]
    if want is not None:
      o.append((50, struct.pack("!I", want)))
    if server_id:
      o.append((54, struct.pack("!I", self.server_ip)))
    if prl:
      o.append((55, bytes(sorted(prl))))
    return o

  def _frame(self, c, args, mtype, want=None, ciaddr=0, server_id=False, dst="auto", **kw):
    x = self.xid[args["x"]]
    flags = 0x8000 if args["bc"] else 0
    d = xn.bootp(kw.pop("op", 1), x, flags, ciaddr, self.mac[args.get("ch") or c],
                 kw.pop("options", None) or self._opts(mtype, want, args.get("prl") or (), server_id), **kw)
    if dst == "auto":
      dst = ["bcast", "srv", "any"][args["x"] % 3] if ciaddr else ["bcast", "any", "bcast"][args["x"] % 3]
    dip = {"bcast": 0xffffffff, "srv": self.server_ip, "any": 0}.get(dst, dst)
    dmac = xn.BCAST_MAC if dip != self.server_ip else self._server_mac()
    self._src_ip = ciaddr
    return xn.client_frame(self.mac[c], dmac, ciaddr, dip, d)

  def _server_mac(self):
    return ":".join("%02x" % b for b in struct.pack("!Q", self.dpid)[2:])

  # ---------------------------------------------------------------- observation
  def _project(self):
    d = self.net.d
    out = {}
    for name, tbl in (("offers", d.offers), ("leases", d.leases)):
      m = {c: 0 for c in self.clients}
      for k, v in tbl.items():
        c = self.client_of.get(rb.mac(str(k)), "?" + str(k))
        m[c] = self._a2i(v.toUnsigned())
      out[name] = m
    pool = self.net.pool
    if self.kind == "simple":
      free = [i for i in range(1, self.N + 1) if xn.ip_str(self.addr[i]) in pool]
      if len(pool) != len(free):
        free.append(1000 + len(pool))           # len(pool) disagrees with its content
    else:
      free = [self._a2i(a.toUnsigned()) for a in pool]
    out["free"] = free
    return out

  def _reply(self, c, args, port, frame):
    try:
      r = xn.parse_reply(frame)
    except ValueError as e:
      return {"t": "malformed:" + str(e), "yi": 0, "x": 0, "to": "none", "port": port, "ch": "none", "opts": []}
    bad = []
    if r["op"] != 2:
      bad.append("op")
    if r["htype"] != 1 or r["hlen"] != 6:
      bad.append("htype/hlen")
    if r["sport"] != 67 or r["dport"] != 68:
      bad.append("udp ports")
    if r["ip_src"] != self.server_ip:
      bad.append("ip source")
    if r["siaddr"] != self.server_ip:
      bad.append("siaddr")
    if r["eth_src"] != rb.mac(self._server_mac()):
      bad.append("eth source")
    if r["chaddr"][6:] != b"\0" * 10:
      bad.append("chaddr padding")
    if r["giaddr"] or r["hops"]:
      bad.append("giaddr/hops")
    t = r["options"].get(53)
    if t is None or len(t) != 1:
      bad.append("no message type")
      tn = "?"
    else:
      tn = xn.MT_NAME.get(t[0], "type%d" % t[0])
    if bad:
      tn = "malformed:" + ",".join(bad)
    me = rb.mac(self.mac[c])
    if r["eth_dst"] == rb.mac(xn.BCAST_MAC) and r["ip_dst"] == 0xffffffff:
      to = "bcast"
    elif r["eth_dst"] == me and r["ip_dst"] == self._src_ip:
      to = "ucast"
    else:
      to = "mixed:%s/%s" % (r["eth_dst"].hex(), xn.ip_str(r["ip_dst"]))
    ch = r["chaddr"][:6]
    chs = "src" if ch == me else ("req" if ch == rb.mac(self.mac[args.get("ch") or c]) else "other")
    want = {54: struct.pack("!I", self.server_ip), 51: struct.pack("!I", LEASE_TIME),
            1: struct.pack("!I", self.mask),
            3: struct.pack("!I", self.router) if self.router is not None else None,
            6: struct.pack("!I", self.dns) if self.dns is not None else None}
    opts = []
    for code, val in r["options"].items():
      if code == 53:
        opts.append(53)
      elif code in want and want[code] == val:
        opts.append(code)
      else:
        opts.append(1000 + code)                # unexpected option or wrong value
    return {"t": tn, "yi": self._a2i(r["yiaddr"]), "x": self.xsym.get(r["xid"], -1), "to": to, "port": port,
            "ch": chs, "opts": sorted(opts)}

  def _observe(self, c, args, res):
    obs = {}
    em = res["emits"]
    if not em:
      obs["reply"] = {"t": "none", "yi": 0, "x": 0, "to": "none", "port": 0, "ch": "none", "opts": []}
    elif len(em) == 1:
      obs["reply"] = self._reply(c, args, em[0][0], em[0][1])
    else:
      obs["reply"] = {"t": "multiple:%d" % len(em), "yi": 0, "x": 0, "to": "none", "port": 0, "ch": "none",
                      "opts": []}
    evs = res["events"]
    if not evs:
      obs["ev"] = {"c": "", "a": 0}
    elif len(evs) == 1:
      m, a = evs[0]
      obs["ev"] = {"c": self.client_of.get(rb.mac(m), "?" + m), "a": self._a2i(xn.ip_int(a))}
    else:
      obs["ev"] = {"c": "multiple", "a": len(evs)}
    obs["fault"] = bool(res["faults"])
    obs.update(self._project())
    # what the controller wrote: exactly one PACKET_OUT (no buffer, data attached) per emitted frame
    extra = [m["name"] for m in res["c2s"] if m["type"] != rb.PACKET_OUT]
    pouts = [m for m in res["c2s"] if m["type"] == rb.PACKET_OUT]
    if extra or len(pouts) != len(em) or any(m["buffer_id"] != rb.NO_BUFFER for m in pouts):
      obs["unexpected"] = extra + ["PACKET_OUT x%d" % len(pouts)]
    return obs

  # ---------------------------------------------------------------- actions
  def step(self, a, args):
    if a == "ConnUp":
      self._build((args or {}).get("variant", self.variant))
      msgs = self.net.connect()
      self.up = True
      n = 0
      other = []
      seen_barrier = False
      for m in msgs:
        if m["type"] == rb.BARRIER_REQUEST:
          seen_barrier = True
        if m["type"] != rb.FLOW_MOD:
          continue
        if m["command"] == rb.FC_DELETE:          # of_01 clears the table during the handshake
          continue
        mt = m["match"]
        w = mt["wildcards"]
        ok = (m["command"] == rb.FC_ADD and not (w & (rb.FW_DL_TYPE | rb.FW_NW_PROTO | rb.FW_TP_SRC | rb.FW_TP_DST))
              and mt["dl_type"] == 0x0800 and mt["nw_proto"] == 17 and mt["tp_src"] == 68 and mt["tp_dst"] == 67
              and (w & rb.FW_IN_PORT) and (w & rb.FW_DL_SRC) and (w & rb.FW_DL_DST)
              and ((w >> rb.FW_NW_SRC_SHIFT) & 0x3f) >= 32 and ((w >> rb.FW_NW_DST_SHIFT) & 0x3f) >= 32
              and m["idle_timeout"] == 0 and m["hard_timeout"] == 0
              and len(m["actions"]) == 1 and m["actions"][0]["type"] == 0
              and m["actions"][0]["body"][:4] == "%04x" % rb.OFPP_CONTROLLER)
        if ok:
          n += 1
        else:
          other.append("FLOW_MOD?")
      r = {"flows": n}
      if other:
        r["unexpected"] = other
      return r
    if not self.up:
      raise Machinery("message before ConnUp")
    if a == "Tick":
      res = self.net.tick(LEASE_TIME // self.lease_ticks + 1)
      return self._observe(self.clients[0], {}, res)
    c = args["c"]
    salt = args["x"] + self.clients.index(c)
    port = args["p"]
    if a in ("Discover", "NotServed"):
      fr = self._frame(c, args, 1, want=self._want(args["w"], salt))
    elif a == "Request":
      w = self._want(args["w"], salt)
      # selecting (server id, ciaddr 0) or renewing / rebooting style (ciaddr = the address), by xid
      ci = w if (w is not None and args["x"] % 2 == 0 and args["w"] in self.addr) else 0
      fr = self._frame(c, args, 3, want=w, ciaddr=ci, server_id=(args["x"] % 2 == 1))
    elif a == "Release":
      w = self._want(args["w"], salt)
      fr = self._frame(c, args, 7, ciaddr=w or 0, server_id=True, dst=("srv" if args["x"] % 2 else "bcast"))
    elif a == "Decline":
      w = self._want(args["w"], salt)
      fr = self._frame(c, args, 4, want=w, server_id=True)
    elif a == "Inform":
      w = self._want(args["w"], salt)
      fr = self._frame(c, args, 8, ciaddr=w or 0)
    elif a == "Junk":
      fr = self._junk(c, args, salt)
    else:
      raise ValueError(a)
    res = self.net.inject(port, fr)
    return self._observe(c, args, res)

  def _junk(self, c, args, salt):
    k = args["k"]
    a1 = self.addr[1]
    if k == "bootreply":        # op = BOOTREPLY with a DISCOVER type
      return self._frame(c, args, 1, op=2)
    if k == "notype":           # no message type option (plain BOOTP)
      return self._frame(c, args, 1, options=[(50, struct.pack("!I", a1))])
    if k == "offer":            # a server's message type
      return self._frame(c, args, [2, 5, 6][salt % 3], want=a1)
    if k == "type9":            # unknown message type
      return self._frame(c, args, [9, 0, 255][salt % 3], want=a1)
    if k == "otherdst":         # unicast to somebody else
      return self._frame(c, args, 1, dst=self.base | (self.first + self.N + 3))
    if k == "ports":            # not client -> server
      x = self.xid[args["x"]]
      d = xn.bootp(1, x, 0, 0, self.mac[c], self._opts(1))
      sp, dp = [(67, 67), (68, 68), (67, 68), (68, 53)][salt % 4]
      self._src_ip = 0
      return xn.client_frame(self.mac[c], xn.BCAST_MAC, 0, 0xffffffff, d, sport=sp, dport=dp)
    if k == "magic":            # bad magic cookie: BOOTP without options as far as the parser is concerned
      return self._frame(c, args, 1, magic=b"\x63\x82\x53\x64")
    if k == "short":            # UDP 68 -> 67 with less than a BOOTP header
      self._src_ip = 0
      return rb.eth(xn.BCAST_MAC, self.mac[c], 0x0800, xn.udp_ip(0, 0xffffffff, 68, 67, b"\x01\x01\x06\x00" * 20))
    raise ValueError(k)

  # ---------------------------------------------------------------- engine hooks
  def normalize(self, obs, exp):
    if isinstance(obs, dict) and self.kind == "simple" and isinstance(obs.get("free"), list):
      obs["free"] = sorted(obs["free"])
    return obs

  def accept_alt(self, obs, st):
    """A fresh OFFER may be for ANY free address (Dhcpd!DiscoverPick with PickMode = "any"); the exported
    behaviour carries the implementation's choice.  Another free address, with the tables updated
    accordingly, is a permitted outcome."""
    alts = (st.get("args") or {}).get("alts")
    exp = st.get("exp")
    # a deviation step of the model of the code as built carries the outcomes of the intended design (`alt`): a
    # server that has been repaired at this point diverts here instead of failing
    from engine.core import canon
    for alt in (st.get("args") or {}).get("alt") or []:
      if canon(alt) == canon(obs):
        return True
    if st["a"] != "Discover" or not alts or self.kind != "simple" or not isinstance(obs, dict):
      return False
    try:
      a2 = obs["reply"]["yi"]
      a1 = exp["reply"]["yi"]
      if a2 not in alts or a2 == a1:
        return False
      e2 = copy.deepcopy(exp)
      e2["reply"]["yi"] = a2
      e2["offers"][st["args"]["c"]] = a2
      e2["free"] = sorted((set(exp["free"]) | {a1}) - {a2})
      return canon(e2) == canon(obs)
    except Exception:
      return False

  def signature(self, st, obs):
    sig = {"action": st["a"]}
    exp = st["exp"]
    if isinstance(obs, dict) and "EXC" in obs:
      sig["observed"] = "exception:" + obs["EXC"]
      return sig
    if not isinstance(obs, dict):
      sig["observed"] = "not-a-dict"
      return sig
    sig["fields"] = sorted(k for k in set(exp) | set(obs) if obs.get(k) != exp.get(k))
    if "reply" in exp:
      sig["expected_reply"] = exp["reply"]["t"]
      sig["observed_reply"] = str((obs.get("reply") or {}).get("t"))[:40]
      if isinstance(obs.get("reply"), dict):
        sig["reply_fields"] = sorted(k for k in exp["reply"] if obs["reply"].get(k) != exp["reply"][k])
      sig["fault"] = bool(obs.get("fault"))
    return sig


def canon_exp(beh):
  """Exported behaviours: sets arrive as JSON arrays in TLC's order - sort them like the adapter does."""
  for st in beh:
    e = st.get("exp") or {}
    if isinstance(e.get("reply"), dict):
      e["reply"]["opts"] = sorted(e["reply"]["opts"])
    a = st.get("args") or {}
    if isinstance(a.get("prl"), list):
      a["prl"] = sorted(a["prl"])
    if isinstance(a.get("alts"), list):
      a["alts"] = sorted(a["alts"])
    for alt in a.get("alt") or []:
      alt["reply"]["opts"] = sorted(alt["reply"]["opts"])
  return beh


def canon_free(beh, kind):
  if kind == "simple":
    for st in beh:
      e = st.get("exp") or {}
      if isinstance(e.get("free"), list):
        e["free"] = sorted(e["free"])
      for alt in (st.get("args") or {}).get("alt") or []:
        alt["free"] = sorted(alt["free"])
  return beh
