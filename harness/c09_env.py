"""C09 environment: the real of_01 accept/read/close loop on scripted sockets.

The real `OpenFlow_01_Task.run()` generator is driven by hand: the harness
answers each `Select` it yields with the ready lists it wants, so accept,
`Connection.read()`, `Connection.close()` and the removal from the select
list all run in POX's own code.  `of_01.socket` is replaced by a shim whose
`socket()` returns a scripted listener; everything else is the real module.

No POX encoder is used for input: bytes fed to the controller come from
harness/rawbytes.py, bytes it writes are decoded by rawbytes.parse.
"""
import errno
import socket as _socket

from harness import poxenv
from harness import rawbytes as rb

core = poxenv.boot()

import pox.openflow as ofmod                      # noqa: E402
import pox.openflow.of_01 as of_01                # noqa: E402

ofmod.launch()
of_01.DeferredSender.start = lambda self: None
if of_01.deferredSender is None:
  of_01.deferredSender = of_01.DeferredSender()
poxenv.install_clock(of_01)


class FakeSock(object):
  """Scripted non-blocking TCP socket as seen by of_01.Connection."""
  _fileno = 1000

  def __init__(self, cid):
    self.cid = cid
    self.inq = []          # chunks the peer has sent, not yet read
    self.eof = False       # peer closed / connection reset
    self.rx_error = False  # recv raises instead of returning b''
    self.fail_send = False # True / predicate(data): send raises ECONNRESET
    self.out = b""         # everything the controller wrote
    self.closed = False
    self.shut = False
    FakeSock._fileno += 1
    self._fd = FakeSock._fileno

  # -- socket API used by POX
  def fileno(self):
    return self._fd

  def setblocking(self, v):
    pass

  def getpeername(self):
    return ("10.0.0.%d" % self.cid, 40000 + self.cid)

  def send(self, data):
    if self.closed or self.shut:
      raise _socket.error(errno.EPIPE, "Broken pipe")
    if self.fail_send is True or (callable(self.fail_send) and self.fail_send(data)):
      self.fail_send = True         # the connection is reset from here on
      raise _socket.error(errno.ECONNRESET, "Connection reset by peer")
    self.out += data
    return len(data)

  def recv(self, n, flags=0):
    if self.closed:
      raise _socket.error(errno.EBADF, "Bad file descriptor")
    if self.inq:
      d = self.inq.pop(0)
      if len(d) > n:
        self.inq.insert(0, d[n:])
        d = d[:n]
      return d
    if self.rx_error:
      raise _socket.error(errno.ECONNRESET, "Connection reset by peer")
    if self.eof or self.shut:
      return b""
    raise _socket.error(errno.EAGAIN, "Resource temporarily unavailable")

  def shutdown(self, how):
    self.shut = True

  def close(self):
    self.closed = True


class FakeListener(object):
  def __init__(self):
    self.pending = []

  def setsockopt(self, *a):
    pass

  def bind(self, addr):
    pass

  def listen(self, n):
    pass

  def setblocking(self, v):
    pass

  def fileno(self):
    return 999

  def accept(self):
    s = self.pending.pop(0)
    return (s, s.getpeername())

  def close(self):
    pass


class SocketShim(object):
  """Stands in for the `socket` module inside of_01 only."""
  def __init__(self):
    self.listener = None

  def socket(self, *a, **kw):
    self.listener = FakeListener()
    return self.listener

  def __getattr__(self, name):
    return getattr(_socket, name)


class LoopDied(Exception):
  pass


class Env(object):
  """One fresh controller: nexus + arbiter + running of_01 loop."""

  def __init__(self):
    # fresh registry and arbiter (the arbiter caches core.openflow)
    old = core.components.get("openflow")
    if old is not None:
      try:
        core.removeListener(old._handle_DownEvent)
      except Exception:
        pass
    self.nexus = ofmod.OpenFlowNexus()
    core.components["openflow"] = self.nexus
    core.components["OpenFlowConnectionArbiter"] = ofmod.OpenFlowConnectionArbiter()
    of_01.Connection.ID = 0
    of_01.Connection._aborted_connections = 0
    of_01.deferredSender.sending = False
    of_01.deferredSender._dataForConnection.clear()
    # timers created by disconnect() of dpid-less connections pile up in the
    # scheduler nobody runs: drop them
    try:
      core.scheduler._ready.clear()
    except Exception:
      pass
    self.shim = SocketShim()
    of_01.socket = self.shim
    self.task = of_01.OpenFlow_01_Task(port=6633, address="0.0.0.0")
    try:
      core.removeListener(self.task._handle_GoingUpEvent)
    except Exception:
      pass
    self.gen = self.task.run()
    self.sel = next(self.gen)
    self.listener = self.shim.listener
    self.socks = {}          # cid -> FakeSock
    self.rdpos = {}          # cid -> how much of sock.out has been consumed

  # -- the select list the loop currently waits on
  def selectable(self):
    lst = self.sel._args[0]
    return [x for x in lst if x is not self.listener]

  def con_of(self, cid):
    for x in self.selectable():
      if getattr(getattr(x, "sock", None), "cid", None) == cid:
        return x
    return None

  def _round(self, rlist, elist=()):
    try:
      self.sel = self.gen.send((list(rlist), [], list(elist)))
    except StopIteration:
      raise LoopDied("of_01 loop terminated")

  # -- environment actions
  def accept(self, cid):
    s = FakeSock(cid)
    self.socks[cid] = s
    self.rdpos[cid] = 0
    self.listener.pending.append(s)
    self._round([self.listener])
    return s

  def deliver(self, cid, data):
    """Peer sends `data`; the loop sees the socket readable once."""
    con = self.con_of(cid)
    if con is None:
      return False
    self.socks[cid].inq.append(data)
    self._round([con])
    # a chunk longer than one recv() stays readable: select reports it again
    while self.socks[cid].inq and self.con_of(cid) is not None:
      self._round([self.con_of(cid)])
    return True

  def peer_close(self, cid, how="eof"):
    con = self.con_of(cid)
    if con is None:
      return False
    s = self.socks[cid]
    if how == "eof":
      s.eof = True
      self._round([con])
    elif how == "reset":
      s.rx_error = True
      self._round([con])
    else:                       # exceptional condition reported by select
      s.eof = True
      self._round([], [con])
    return True

  def written(self, cid):
    """Messages the controller wrote on cid since the last call."""
    s = self.socks[cid]
    data = s.out[self.rdpos[cid]:]
    self.rdpos[cid] = len(s.out)
    return data

  def shutdown(self):
    """End the loop the way POX does on ^C (its bare `except:` swallows
    GeneratorExit, so gen.close() cannot be used)."""
    try:
      self.gen.throw(KeyboardInterrupt())
    except (StopIteration, KeyboardInterrupt):
      pass
    except Exception:
      pass
