"""X01 harness: the real DHCP server (pox/proto/dhcpd.py) behind a real control channel.

  client frame (struct only) --> SoftwareSwitch (real, flow installed by DHCPD at ConnectionUp)
        --PACKET_IN bytes--> of_01.Connection (real) --PacketIn event--> DHCPD (real)
        <--PACKET_OUT bytes--                          <-- reply ----------+
  frame emitted on a port  <-- DpPacketOut

* one real `SoftwareSwitch` behind a real `OFConnection` on an `IOWorker` with a stub socket, one
  real `of_01.Connection` on a scripted socket, a fresh `OpenFlowNexus` per instance, a real `DHCPD`
  constructed the way `dhcpd.launch()` does (SimpleAddressPool) or the way `DHCPD()` does by default
  (a python list as pool);
* a synchronous pump moves the bytes both ends wrote until the channel is quiet; both directions are
  tapped and decoded by harness/rawbytes.py;
* client messages are built with struct only, server replies are decoded with struct only
  (Ethernet / IPv4 / UDP / BOOTP / options, checksums verified);
* exceptions raised inside event handlers are swallowed by revent (`raiseEventNoErrors`); the global
  hook `revent.handleEventException` is replaced by a recorder so that "the handler crashed" is an
  observation instead of a log line;
* virtual time: `time` inside of_01 / switch / flow_table / dhcpd / recoco is harness.poxenv.clock.
"""
import errno
import select as _select
import socket as _socket
import struct

from engine.core import Machinery
from harness import poxenv
from harness import rawbytes as rb

core = poxenv.boot()

import pox.openflow as ofmod                      # noqa: E402
import pox.openflow.of_01 as of_01                # noqa: E402

if not core.hasComponent("openflow"):
  ofmod.launch()
of_01.DeferredSender.start = lambda self: None
if of_01.deferredSender is None:
  of_01.deferredSender = of_01.DeferredSender()

from pox.lib.ioworker import IOWorker             # noqa: E402
from pox.datapaths import switch as swmod         # noqa: E402
from pox.openflow import flow_table as ftmod      # noqa: E402
from pox.lib.packet.ethernet import ethernet      # noqa: E402
import pox.lib.revent.revent as reventmod         # noqa: E402
import pox.lib.recoco.recoco as recocomod         # noqa: E402
import pox.proto.dhcpd as dhcpdmod                # noqa: E402

poxenv.install_clock(of_01, swmod, ftmod, dhcpdmod, recocomod)

FAULTS = []


def _hook(source, event, args, kw, exc_info):
  FAULTS.append((type(exc_info[1]).__name__, str(exc_info[1])[:120]))


reventmod.handleEventException = _hook


class ChannelLost(Exception):
  pass


class Diverged(Exception):
  pass


class _Horizon(Exception):
  pass


class CtlSock(object):
  """Scripted non-blocking TCP socket as seen by of_01.Connection."""
  _fd = 7000

  def __init__(self):
    self.inq = []
    self.out = b""
    self.closed = False
    self.shut = False
    CtlSock._fd += 1
    self._fileno = CtlSock._fd

  def fileno(self):
    return self._fileno

  def setblocking(self, v):
    pass

  def getpeername(self):
    return ("10.9.0.1", 41000)

  def send(self, data):
    if self.closed or self.shut:
      raise _socket.error(errno.EPIPE, "Broken pipe")
    self.out += data
    return len(data)

  def recv(self, n, flags=0):
    if self.inq:
      d = self.inq.pop(0)
      if len(d) > n:
        self.inq.insert(0, d[n:])
        d = d[:n]
      return d
    if self.shut or self.closed:
      return b""
    raise _socket.error(errno.EAGAIN, "Resource temporarily unavailable")

  def shutdown(self, how):
    self.shut = True

  def close(self):
    self.closed = True


class SwSock(object):
  def getpeername(self):
    return ("127.0.0.1", 6633)


# --------------------------------------------------------------------------
# DHCP frames, struct only

MAGIC = b"\x63\x82\x53\x63"
BCAST_MAC = "ff:ff:ff:ff:ff:ff"
MT = {"DISCOVER": 1, "OFFER": 2, "REQUEST": 3, "DECLINE": 4, "ACK": 5, "NAK": 6, "RELEASE": 7, "INFORM": 8}
MT_NAME = {v: k for k, v in MT.items()}


def ip_int(s):
  return struct.unpack("!I", rb.ip(s))[0]


def ip_str(n):
  return ".".join(str(b) for b in struct.pack("!I", n & 0xffffffff))


def bootp(op, xid, flags, ciaddr, chaddr_mac, options, hlen=6, htype=1, yiaddr=0, siaddr=0, secs=0,
          magic=MAGIC):
  """options: list of (code, bytes) in wire order; END is appended."""
  fixed = struct.pack("!BBBBIHHIIII16s64s128s", op, htype, hlen, 0, xid & 0xffffffff, secs, flags,
                      ciaddr, yiaddr, siaddr, 0, rb.mac(chaddr_mac) + b"\0" * 10, b"", b"")
  o = b""
  for code, val in options:
    o += bytes([code, len(val)]) + val
  o += b"\xff"
  return fixed + magic + o


def udp_ip(src_ip, dst_ip, sport, dport, payload, ttl=64, ident=0x1d1d):
  udp_len = 8 + len(payload)
  pseudo = struct.pack("!IIBBH", src_ip, dst_ip, 0, 17, udp_len)
  udp = struct.pack("!HHHH", sport, dport, udp_len, 0) + payload
  c = rb.csum(pseudo + udp) or 0xffff
  udp = struct.pack("!HHHH", sport, dport, udp_len, c) + payload
  hdr = struct.pack("!BBHHHBBHII", 0x45, 0x10, 20 + udp_len, ident, 0, ttl, 17, 0, src_ip, dst_ip)
  hdr = hdr[:10] + struct.pack("!H", rb.csum(hdr)) + hdr[12:]
  return hdr + udp


def client_frame(src_mac, dst_mac, src_ip, dst_ip, dhcp_bytes, sport=68, dport=67):
  return rb.eth(dst_mac, src_mac, 0x0800, udp_ip(src_ip, dst_ip, sport, dport, dhcp_bytes))


def parse_reply(frame):
  """Server frame -> dict; raises ValueError('what') on anything malformed."""
  if len(frame) < 14 + 20 + 8 + 240:
    raise ValueError("short frame %d" % len(frame))
  r = dict(eth_dst=frame[0:6], eth_src=frame[6:12])
  if struct.unpack("!H", frame[12:14])[0] != 0x0800:
    raise ValueError("ethertype")
  iph = frame[14:34]
  vihl, tos, tot, ident, frag, ttl, proto, hc, sip, dip = struct.unpack("!BBHHHBBHII", iph)
  if vihl != 0x45:
    raise ValueError("ip version/ihl %#x" % vihl)
  if rb.csum(iph) != 0:
    raise ValueError("ip header checksum")
  if tot != len(frame) - 14:
    raise ValueError("ip total length %d of %d" % (tot, len(frame) - 14))
  if proto != 17:
    raise ValueError("ip protocol %d" % proto)
  if ttl == 0:
    raise ValueError("ttl 0")
  if frag & 0x3fff:
    raise ValueError("fragment")
  r.update(ip_src=sip, ip_dst=dip)
  udp = frame[34:]
  sport, dport, ulen, uc = struct.unpack("!HHHH", udp[:8])
  if ulen != len(udp):
    raise ValueError("udp length %d of %d" % (ulen, len(udp)))
  if uc != 0:
    pseudo = struct.pack("!IIBBH", sip, dip, 0, 17, ulen)
    if rb.csum(pseudo + udp) != 0:
      raise ValueError("udp checksum")
  r.update(sport=sport, dport=dport)
  b = udp[8:]
  (op, htype, hlen, hops, xid, secs, flags, ci, yi, si, gi, ch, sname, fil) = \
      struct.unpack("!BBBBIHHIIII16s64s128s", b[:236])
  if b[236:240] != MAGIC:
    raise ValueError("magic cookie")
  r.update(op=op, htype=htype, hlen=hlen, hops=hops, xid=xid, secs=secs, flags=flags, ciaddr=ci, yiaddr=yi,
           siaddr=si, giaddr=gi, chaddr=ch, sname=sname, file=fil)
  opts = {}
  o = b[240:]
  i = 0
  ended = False
  while i < len(o):
    code = o[i]
    if code == 255:
      ended = True
      break
    if code == 0:
      i += 1
      continue
    if i + 1 >= len(o):
      raise ValueError("option %d without length" % code)
    ln = o[i + 1]
    if i + 2 + ln > len(o):
      raise ValueError("option %d runs past the message" % code)
    if code in opts:
      raise ValueError("option %d twice" % code)
    opts[code] = o[i + 2:i + 2 + ln]
    i += 2 + ln
  if not ended:
    raise ValueError("no END option")
  r["options"] = opts
  return r


# --------------------------------------------------------------------------

class Net(object):
  MAX_ROUNDS = 40

  def __init__(self, network="192.168.0.0/24", first=1, count=3, server_ip="192.168.0.254", router=(),
               dns=(), kind="simple", nports=3, served=None, dpid=1, max_buffers=4, veto=None,
               install_flow=True):
    self.clock = poxenv.clock
    del FAULTS[:]
    # -- fresh controller side
    old = core.components.get("openflow")
    if old is not None:
      try:
        core.removeListener(old._handle_DownEvent)
      except Exception:
        pass
    self.nexus = ofmod.OpenFlowNexus()
    core.components["openflow"] = self.nexus
    core.components["OpenFlowConnectionArbiter"] = ofmod.OpenFlowConnectionArbiter()
    of_01.Connection.ID = 0
    of_01.Connection._aborted_connections = 0
    of_01.deferredSender.sending = False
    of_01.deferredSender._dataForConnection.clear()
    try:
      core.scheduler._ready.clear()
    except Exception:
      pass
    del dhcpdmod.DHCPD._servers[:]
    # -- the server, built like dhcpd.launch() does
    if kind == "simple":
      pool = dhcpdmod.SimpleAddressPool(network=network, first=first, count=count)
      subnet = None
    elif kind == "list":
      # what DHCPD() builds for itself when no pool is given: a plain python list
      from pox.lib.addresses import IPAddr, parse_cidr
      net, bits = parse_cidr(network)
      base = net.toUnsigned()
      pool = [IPAddr(base | (first + i)) for i in range(count)]
      subnet = IPAddr(((1 << bits) - 1) << (32 - bits))
    else:
      raise Machinery("pool kind %r" % kind)
    kw = {}
    if served is not None:
      kw = dict(dpid=dpid, ports=served)
    self.d = dhcpdmod.DHCPD(ip_address=server_ip, router_address=router, dns_address=dns, pool=pool,
                            subnet=subnet, install_flow=install_flow, **kw)
    self.pool = pool
    self.lease_events = []
    self.veto = set(veto or ())
    self.d.addListenerByName("DHCPLease", self._on_lease)
    # -- the switch
    self.dpid = dpid
    self.sw = swmod.SoftwareSwitch(dpid, ports=nports, max_buffers=max_buffers, miss_send_len=128)
    self.worker = IOWorker()
    self.worker.socket = SwSock()
    self.ofc = swmod.OFConnection(self.worker)
    self.sw.set_connection(self.ofc)
    self.emits = []
    self.sw.addListenerByName("DpPacketOut", self._on_out)
    self.sock = CtlSock()
    self.con = None
    self.c2s = []
    self.s2c = []

  def _on_lease(self, ev):
    key = (str(ev.host_mac), str(ev.ip))
    self.lease_events.append(key)
    if key in self.veto:
      ev.nak()

  def _on_out(self, e):
    self.emits.append((e.port.port_no, e.packet.pack()))

  # -- handshake: returns the controller->switch messages sent up to quiescence, after the handshake proper
  def connect(self):
    self.con = of_01.Connection(self.sock)
    self._pump()
    if self.nexus.getConnection(self.dpid) is not self.con or self.con.connect_time is None:
      raise Machinery("switch did not complete the handshake")
    msgs = self.c2s
    self.c2s, self.s2c = [], []
    return msgs

  def _pump(self):
    rounds = 0
    c2s_raw = b""
    s2c_raw = b""
    while True:
      moved = False
      if self.sock.out:
        data, self.sock.out = self.sock.out, b""
        c2s_raw += data
        self.worker._push_receive_data(data)
        moved = True
      if self.worker.send_buf:
        data, self.worker.send_buf = self.worker.send_buf, b""
        s2c_raw += data
        self.sock.inq.append(data)
        while self.sock.inq:
          if self.con.read() is False:
            raise ChannelLost("controller dropped the connection")
        moved = True
      if not moved:
        break
      rounds += 1
      if rounds > self.MAX_ROUNDS:
        raise Diverged("control channel still busy after %d rounds" % rounds)
    if c2s_raw:
      self.c2s.extend(rb.parse_stream(c2s_raw))
    if s2c_raw:
      self.s2c.extend(rb.parse_stream(s2c_raw))

  def inject(self, port, frame):
    """A frame arrives on a port of the switch.  Returns dict(s2c, c2s, emits, faults, events)."""
    self.emits = []
    self.c2s, self.s2c = [], []
    self.lease_events = []
    del FAULTS[:]
    self.sw.rx_packet(ethernet(raw=frame), port)
    self._pump()
    r = dict(s2c=self.s2c, c2s=self.c2s, emits=self.emits, faults=list(FAULTS), events=self.lease_events)
    self.emits, self.c2s, self.s2c, self.lease_events = [], [], [], []
    return r

  def _vselect(self, r, w, x, timeout):
    ro, wo, xo = _select.select(list(r), list(w), list(x), 0)
    if ro or wo or xo:
      return ro, wo, xo
    if timeout is None or self.clock.now + timeout > self._target:
      raise _Horizon()
    self.clock.advance(timeout)
    return [], [], []

  def tick(self, seconds):
    """Advance virtual time to now + seconds, firing every recoco timer that falls due on the way."""
    self.emits = []
    self.c2s, self.s2c = [], []
    self.lease_events = []
    del FAULTS[:]
    self._target = self.clock.now + seconds
    sched = core.scheduler
    hub = sched._selectHub
    old = hub._select_func
    hub._select_func = self._vselect
    try:
      for _ in range(200):
        n = 0
        while sched._ready and n < 200:
          sched.cycle()
          n += 1
        try:
          hub._select(hub._tasks, {})
        except _Horizon:
          if not sched._ready:
            break
    finally:
      hub._select_func = old
    self.clock.now = max(self.clock.now, self._target)
    self._pump()
    r = dict(s2c=self.s2c, c2s=self.c2s, emits=self.emits, faults=list(FAULTS), events=self.lease_events)
    self.emits, self.c2s, self.s2c, self.lease_events = [], [], [], []
    return r
