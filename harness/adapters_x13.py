"""X13 adapters: specs/iorx/IoRx.tla and Reconn.tla actions -> the real pox.lib.ioworker code.

Adapter      : IoRx.tla.  The real RecocoIOLoop task on a harness-stepped real scheduler (harness/x13_env), real
               RecocoIOWorker / RecocoServerWorker objects on scripted sockets.  One slice of the loop task is several
               spec actions (SelectReturn | Wake | SelectTimeout, Serve*, LoopTop); the slice is executed at its first
               action and the state snapshots taken inside it (see x13_env) are handed out step by step, so every spec
               step is compared with the state the real code had at that point.
ReconnAdapter: Reconn.tla.  PersistentIOWorker / BackoffWorker on the same substrate, virtual time.
"""
import socket as _socket

from harness import x13_env as xe
from harness.x13_env import Env, FSock, LSock, iow, wmod, clock, core    # noqa: F401

KEEP = {"h": "keep", "t": 0}


class ChildW(iow.RecocoIOWorker):
  """what the listening worker creates for an accepted connection (child_worker_type)"""
  ENV = None

  def __init__(self, socket, **kw):
    super(ChildW, self).__init__(socket)
    env = ChildW.ENV
    slot = env.adopt(self, socket)
    env.install_handlers(slot, close_raises=env.close_raises(slot))
    if env.cur is not None:
      env.cur["child"] = slot


def byte(w, k):
  return 10 * w + k


class Adapter(object):
  def __init__(self, N=2, bufsize=2, hr="even"):
    self.N = N
    self.env = Env(N, bufsize=bufsize)
    self.env.close_raises = lambda slot: (hr == "all") or (hr == "even" and slot % 2 == 0)
    self.env.on_rx = self._on_rx
    ChildW.ENV = self.env
    self.narr = {}
    self.plan = {}
    self.idx = 0              # next serve call of the current slice to hand out
    self.parked = None        # observation of the loop's last LoopTop (taken when the slice ended)
    self.started = False
    self.nserver = 0

  def close(self):
    self.env.close()

  # ---- the client's rx handler, as planned for this round
  def _on_rx(self, slot, worker, saw):
    op = self.plan.pop(slot, None) or KEEP
    h = op["h"]
    if h == "c1":
      worker.consume_receive_buf(1)
    elif h == "call":
      worker.consume_receive_buf(worker.available)
    elif h == "close":
      worker.close()
    elif h == "co":
      self.env.workers[op["t"]].close()
    elif h == "reply":
      worker.send(b"\x2a")
    elif h == "raise":
      if self.env.cur is not None:
        self.env.cur["raised"] = True
      raise RuntimeError("rx handler failure (scripted)")

  # ---- observations
  def _obs(self, snap, ret):
    o = dict(snap)
    o["ret"] = ret
    if self.env.script_error:
      o["script_error"] = self.env.script_error
    return o

  def _now(self, ret=None):
    return self._obs(self.env.snapshot(), ret if ret is not None else {"x": 0})

  def _after_slice(self):
    env = self.env
    alive = not env.loop_dead()
    rd, wr, ex = env.asked_slots() if alive else ([], [], [])
    self.parked = self._obs(env.snapshot(), {"alive": alive, "rd": rd, "wr": wr, "ex": ex})
    self.idx = 0

  def _state_after_call(self, i):
    env = self.env
    if i + 1 < len(env.calls):
      return env.calls[i + 1]["pre"]
    if env.top_snap is not None:
      return env.top_snap
    snap = dict(self.parked)       # the loop ended without reaching its pending commands: nothing ran in between
    snap.pop("ret", None)
    return snap

  def _first_state(self):
    env = self.env
    if env.calls:
      return env.calls[0]["pre"]
    return self._state_after_call(-1)

  def _classify(self, rec):
    env = self.env
    sock = env.socks.get(rec["w"])
    log = sock.log[rec["log0"]:] if sock else []
    if rec["kind"] == "x":
      return {"x": 0}
    if rec["kind"] == "r":
      if any(op == "accept" for op, _ in log):
        if rec["child"] is not None:
          return {"res": "accepted", "saw": [rec["child"]]}
        return {"res": "accepterr", "saw": []}
      if any(op == "peek" and out in ("reset", "enoent", "ebadf") for op, out in log):
        return {"res": "connfail", "saw": []}
      if rec["rx"] is not None:
        return {"res": "raised" if rec["raised"] else "data", "saw": rec["rx"]}
      recvs = [out for op, out in log if op == "recv"]
      if not recvs:
        return {"res": "nocall", "saw": []}
      out = recvs[-1]
      if out == "eof":
        return {"res": "eof", "saw": []}
      if out == "enoent":
        return {"res": "enoent", "saw": []}
      if out == "data":
        return {"res": "data-without-handler", "saw": []}
      return {"res": "err", "saw": []}
    # send
    if any(op == "peek" and out in ("reset", "enoent", "ebadf") for op, out in log):
      return {"res": "connfail"}
    sends = [out for op, out in log if op == "send"]
    if not sends:
      return {"res": "idle"}
    return {"res": sends[-1] if len(sends) == 1 else "sends:%d" % len(sends)}

  def _serve(self, kind, args):
    env = self.env
    i = self.idx
    if i >= len(env.calls):
      return {"missing": kind, "w": args["w"]}
    rec = env.calls[i]
    self.idx += 1
    if rec["kind"] != kind or rec["w"] != args["w"]:
      return {"called": [rec["kind"], rec["w"]]}
    return self._obs(self._state_after_call(i), self._classify(rec))

  # ---- one spec action
  def step(self, a, args):
    env = self.env
    if a == "LoopTop":
      if not self.started:
        self.started = True
        env.pump()
        self._after_slice()
      elif self.idx < len(env.calls):
        c = env.calls[self.idx]
        return {"unserved": [c["kind"], c["w"]]}
      return self.parked
    if a in ("SelectReturn", "Wake", "SelectTimeout"):
      self.plan = {}
      if a == "SelectReturn":
        for k, v in (args.get("plan") or {}).items():
          self.plan[int(k)] = v
        for s in args["w"]:
          o = (args.get("plan") or {}).get(str(s), {}).get("o", "full")
          env.socks[s].send_script = [o]
        env.armed = tuple([env.workers[s] for s in args[k]] for k in ("r", "w", "x"))
        env.allow_wake = True
      elif a == "Wake":
        env.allow_wake = True
      else:
        clock.advance(env.loop._select_timeout)
      env.pump()
      if env.armed is not None:
        env.armed = None
        return {"not-parked": True}
      self._after_slice()
      for s in env.socks.values():
        s.send_script = []
      return self._obs(self._first_state(), {"x": 0})
    if a == "ServeExc":
      return self._serve("x", args)
    if a == "ServeRecv":
      return self._serve("r", args)
    if a == "ServeSend":
      return self._serve("w", args)
    # ---- clients and the network: the loop is parked
    if a == "NewWorker":
      slot = env.free_slot()
      sock = FSock(slot)
      w = env.loop.new_worker(sock)
      env.adopt(w, sock, slot)
      env.install_handlers(slot, close_raises=env.close_raises(slot))
      if args["conn"]:
        w._connecting = True          # as pox.datapaths does for a worker whose connect() is in progress
      self.narr[slot] = 0
      return self._now({"w": slot})
    if a == "NewServer":
      slot = env.free_slot()
      ls = LSock(slot)
      env.sockmod.next.append(ls)
      self.nserver += 1
      w = env.loop.new_worker(child_worker_type=ChildW, _worker_type=wmod.RecocoServerWorker, port=6000 + slot)
      env.adopt(w, ls, slot)
      env.install_handlers(slot, close_raises=False)
      ok = (w.socket is ls and ls.reuse and ls.bound == ("0.0.0.0", 6000 + slot) and ls.backlog == 5)
      return self._now({"w": slot, "listening": bool(ok)})
    if a == "Incoming":
      c = FSock(0)
      env.socks[args["w"]].acceptq.append(c)
      return self._now()
    if a == "Arrive":
      s, n = args["w"], args["n"]
      k0 = self.narr.get(s, 0)
      env.socks[s].inq += bytes(byte(s, k0 + i) for i in range(1, n + 1))
      self.narr[s] = k0 + n
      return self._now()
    if a == "PeerClose":
      env.socks[args["w"]].eof = True
      return self._now()
    if a == "SockErr":
      env.socks[args["w"]].serr = args["e"]
      return self._now()
    if a == "Send":
      env.workers[args["w"]].send(b"\x07")
      return self._now()
    if a == "Close":
      env.workers[args["w"]].close()
      return self._now()
    if a == "Consume":
      try:
        env.workers[args["w"]].consume_receive_buf(args["n"])
        r = "ok"
      except RuntimeError as e:
        r = "underrun" if "underrun" in str(e) else "RuntimeError"
      return self._now({"r": r})
    if a == "Read":
      return self._now({"got": list(env.workers[args["w"]].read(args["n"]))})
    if a == "Peek":
      return self._now({"got": list(env.workers[args["w"]].peek(args["n"]))})
    if a == "Stop":
      env.loop.stop()
      return self._now()
    if a == "AskPort":
      try:
        v = env.workers[args["w"]].local_port
        r = "port" if v == 6000 + args["w"] else "wrong:%r" % (v,)
      except NameError:
        r = "NameError"
      return self._now({"r": r})
    raise ValueError(a)

  def signature(self, st, obs):
    sig = {"action": st["a"], "spec": "IoRx"}
    exp = st["exp"]
    if isinstance(obs, dict) and "EXC" in obs:
      sig["observed"] = "exception:" + obs["EXC"]
      return sig
    if not isinstance(obs, dict) or "ws" not in obs:
      sig["observed"] = sorted(obs)[:3] if isinstance(obs, dict) else "?"
      return sig
    f = sorted(k for k in exp if k != "ws" and obs.get(k) != exp[k])
    wf = set()
    for o, e in zip(obs["ws"], exp["ws"]):
      wf.update(k for k in e if o.get(k) != e[k])
    sig["fields"] = f
    sig["worker_fields"] = sorted(wf)
    if "ret" in f and isinstance(exp.get("ret"), dict) and "res" in exp["ret"]:
      sig["expected_res"] = exp["ret"]["res"]
      sig["observed_res"] = (obs.get("ret") or {}).get("res")
    if st["a"] == "ServeRecv":
      sig["h"] = st["args"].get("h")
    return sig


# ---------------------------------------------------------------------------------------------------------------
class PW(wmod.PersistentIOWorker):
  """a PersistentIOWorker whose instances report to the harness when they make their connection (the constructor
  has finished with IOWorker.__init__ by then, so the client's handlers can be installed - as a subclass of a real
  application would do)"""
  ENV = None

  def _make_connection(self, **kw):
    PW.ENV._born(self, "persist")
    return super(PW, self)._make_connection(**kw)


class BW(wmod.BackoffWorker):
  ENV = None

  def _make_connection(self, **kw):
    BW.ENV._born(self, "backoff")
    return super(BW, self)._make_connection(**kw)


class ReconnAdapter(object):
  """Reconn.tla: one reconnecting worker (PersistentIOWorker or BackoffWorker) and its successors.
  Time unit of the spec = 0.5 s."""
  UNIT = 0.5

  def __init__(self, N=4, maxd=8, pdelay=4):
    self.N = N
    self.maxd = maxd            # max_retry_delay in units
    self.pdelay = pdelay        # reconnect_delay of the persistent kind, in units
    self.env = Env(N, bufsize=4)
    self.env.allow_all = True
    self.env._born = self._born
    PW.ENV = BW.ENV = self.env
    self.kind = {}
    self.order = []             # instances in order of creation
    self.t0 = clock.now
    self.ncon_cb = {}
    self.ndis_cb = {}
    self.keep = True            # what the disconnect callback answers
    self.next_connect = 0       # connect_ex result of the next socket: 0 | EINPROGRESS | error
    self.begin_errors = []

  def close(self):
    self.env.close()

  def _born(self, worker, kind):
    """constructor of an instance: its socket is made by the fake socket module right after this"""
    env = self.env
    s = FSock(0)
    s.connect_result = self.next_connect
    env.sockmod.next.append(s)
    slot = env.adopt(worker, s)
    self.kind[slot] = kind
    self.order.append(slot)
    self.ncon_cb[slot] = 0
    self.ndis_cb[slot] = 0
    env.install_handlers(slot)

  def _late(self):
    pass

  def _con_cb(self, worker):
    self.ncon_cb[self.env.slot_of[id(worker)]] += 1

  def _dis_cb(self, worker):
    self.ndis_cb[self.env.slot_of[id(worker)]] += 1
    return None if self.keep else False

  def _timers(self):
    """pending reconnect timers: remaining time in units, sorted"""
    import pox.lib.recoco.recoco as recoco
    out = []
    for t in list(self.env.vs.hub._tasks) + [x[0] for x in list(self.env.vs.hub._incoming.queue)] + \
        list(self.env.vs.sched._ready):
      if isinstance(t, recoco.Timer) and not t._cancelled:
        out.append(int(round((t._next - clock.now) / self.UNIT)))
    return sorted(out)

  def _obs(self, ret=None):
    env = self.env
    ws = []
    for s in range(1, self.N + 1):
      w = env.workers.get(s)
      if w is None:
        ws.append(dict(kind="none", conn=False, closed=False, failed=False, member=False, nclose=0, ncon=0, ndis=0,
                       nconcb=0, delay=0, nrx=0, sclosed=0))
        continue
      d = w.reconnect_delay / self.UNIT
      # "failed": the handlers of a close ran although close() was never called (connect_ex failed at once)
      ws.append(dict(kind=self.kind[s], conn=bool(w._connecting), closed=bool(w.closed),
                     failed=bool(not w.closed and env.cnt[s]["nclose"] > 0), member=w in env.loop._workers, nclose=env.cnt[s]["nclose"], ncon=env.cnt[s]["nconn"],
                     ndis=self.ndis_cb[s], nconcb=self.ncon_cb[s],
                     delay=int(d) if float(d).is_integer() else d, nrx=env.cnt[s]["nrx"], sclosed=env.socks[s].nclose))
    return dict(ws=ws, timers=self._timers(), ret=ret if ret is not None else {"x": 0})

  def _settle(self):
    env = self.env
    env.allow_wake = True
    for _ in range(6):
      env.pump()
      self._late()
      if not env.pinged():
        break
      env.allow_wake = True

  def _kw(self, kind):
    kw = dict(loop=self.env.loop, addr="10.13.0.1", port=4000, connect_callback=self._con_cb,
              disconnect_callback=self._dis_cb)
    if kind == "backoff":
      kw["max_retry_delay"] = self.maxd * self.UNIT
    else:
      kw["reconnect_delay"] = self.pdelay * self.UNIT
    return kw

  def step(self, a, args):
    env = self.env
    import errno as _e
    if a == "Begin":
      self.next_connect = {"ok": _e.EINPROGRESS, "now": 0, "fail": _e.ENETUNREACH}[args["c"]]
      cls = BW if args["k"] == "backoff" else PW
      w = cls.begin(**self._kw(args["k"]))
      self._late()
      self._settle()
      return self._obs({"w": env.slot_of[id(w)]})
    if a == "SetNext":
      self.next_connect = {"ok": _e.EINPROGRESS, "now": 0, "fail": _e.ENETUNREACH}[args["c"]]
      return self._obs()
    if a in ("Connected", "Refused", "Eof", "Data"):
      s = args["w"]
      sock, w = env.socks[s], env.workers[s]
      if a == "Refused":
        sock.serr = "refused"
      elif a == "Eof":
        sock.eof = True
      elif a == "Data":
        sock.inq += b"\x01"
      if a == "Connected":
        env.armed = ([], [w], [])
      elif a == "Refused":
        env.armed = ([w], [w], [])
      else:
        env.armed = ([w], [], [])
      env.allow_wake = True
      env.pump()
      if env.armed is not None:
        env.armed = None
        return {"not-selected": s}
      self._settle()
      return self._obs()
    if a == "ClientClose":
      try:
        env.workers[args["w"]].close()
        r = "ok"
      except Exception as e:      # noqa  (close() on an instance that never joined the loop: notes/X13.md D3)
        r = type(e).__name__
      self._settle()
      return self._obs({"r": r})
    if a == "StopReconnecting":
      self.keep = False
      return self._obs()
    if a == "Tick":
      clock.advance(self.UNIT)
      self._settle()
      return self._obs()
    raise ValueError(a)

  def signature(self, st, obs):
    sig = {"action": st["a"], "spec": "Reconn"}
    exp = st["exp"]
    if isinstance(obs, dict) and "EXC" in obs:
      sig["observed"] = "exception:" + obs["EXC"]
      return sig
    if not isinstance(obs, dict) or "ws" not in obs:
      sig["observed"] = sorted(obs)[:3] if isinstance(obs, dict) else "?"
      return sig
    wf = set()
    for o, e in zip(obs["ws"], exp["ws"]):
      wf.update(k for k in e if o.get(k) != e[k])
    sig["fields"] = sorted(k for k in exp if k != "ws" and obs.get(k) != exp[k])
    sig["worker_fields"] = sorted(wf)
    return sig
