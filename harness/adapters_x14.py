"""X14 adapters: OFJson.tla / WebTable.tla actions -> the real pox.openflow.of_json and pox.openflow.webservice.

Adapter     (OFJson.tla)   one conversion job: Choose / Build / Dump / Rebuild / Pack / Reset on the real
            dict_to_match, match_to_dict, dict_to_action, action_to_dict, dict_to_flow_mod, dict_to_packet_out,
            fix_parsed; objects are projected attribute by attribute into the spec's abstract objects, compared
            (== and packed bytes) with the object built DIRECTLY through libopenflow_01 from that projection,
            dictionaries go through the web service's own JSON encoding (json.dumps(default=str)).
WebAdapter  (WebTable.tla) the web service on a real controller connection to a real SoftwareSwitch.
"""
import copy
import json

from engine.core import Machinery
from harness import rawbytes as rb
from harness import x14_env as envmod

of = envmod.oflib
ofjson = envmod.ofjson

NONE_N = 100000            # OFJsonTables!NoneN
BUF_MINUS1 = 100001        # OFJson!BufMinus1

MATCH_KEYS = ["dl_dst", "dl_src", "dl_type", "dl_vlan", "dl_vlan_pcp", "in_port", "nw_dst", "nw_proto", "nw_src",
              "nw_tos", "tp_dst", "tp_src"]
UNSET = {"set": False, "n": 0, "b": [], "bits": 0}


# ---------------------------------------------------------------------------- JSON values of the spec <-> Python
def j_decode(j):
  t = j["t"]
  if t == "i":
    return j["i"]
  if t == "s":
    return j["s"]
  if t == "n":
    return None
  if t == "b":
    return bool(j["i"])
  if t == "d":
    return {e["k"]: j_decode(e["v"]) for e in j["kv"]}
  if t == "l":
    return [j_decode(e["v"]) for e in j["kv"]]
  raise Machinery("unknown JSON value tag %r" % (t,))


def j_encode(x):
  if x is None:
    return {"t": "n", "i": 0, "s": "", "kv": []}
  if isinstance(x, bool):
    return {"t": "b", "i": int(x), "s": "", "kv": []}
  if isinstance(x, int):
    return {"t": "i", "i": x, "s": "", "kv": []}
  if isinstance(x, str):
    return {"t": "s", "i": 0, "s": x, "kv": []}
  if isinstance(x, dict):
    return {"t": "d", "i": 0, "s": "", "kv": [{"k": k, "v": j_encode(x[k])} for k in sorted(x)]}
  if isinstance(x, (list, tuple)):
    return {"t": "l", "i": 0, "s": "", "kv": [{"k": "", "v": j_encode(v)} for v in x]}
  return {"t": "?", "i": 0, "s": repr(x)[:80], "kv": []}


def web_json(x):
  """the JSON text the web service would write (jsonrpc.do_POST), decoded again"""
  return json.loads(json.dumps(x, default=str))


# ---------------------------------------------------------------------------- projections of real objects
def _num(v):
  if v is None:
    return NONE_N
  if isinstance(v, bool) or not isinstance(v, int):
    return "NOT-A-NUMBER:%r" % (v,)
  return v


def _raw(a):
  try:
    return list(a.toRaw())
  except Exception:
    return "NOT-AN-ADDRESS:%r" % (a,)


def proj_match(m):
  if not isinstance(m, of.ofp_match):
    return "NOT-A-MATCH:%r" % (type(m).__name__,)
  o = {}
  for k in MATCH_KEYS:
    if k in ("nw_src", "nw_dst"):
      ip, bits = getattr(m, "get_" + k)()
      o[k] = dict(UNSET) if ip is None else {"set": True, "n": 0, "b": _raw(ip), "bits": bits}
      continue
    v = getattr(m, k)
    if v is None:
      o[k] = dict(UNSET)
    elif k in ("dl_src", "dl_dst"):
      o[k] = {"set": True, "n": 0, "b": _raw(v), "bits": 0}
    else:
      o[k] = {"set": True, "n": _num(v), "b": [], "bits": 0}
  return o


ACT_CLASSES = {"ofp_action_output": "output", "ofp_action_enqueue": "enqueue", "ofp_action_strip_vlan": "strip_vlan",
               "ofp_action_vlan_vid": "vlan_vid", "ofp_action_vlan_pcp": "vlan_pcp", "ofp_action_dl_addr": "dl_addr",
               "ofp_action_nw_addr": "nw_addr", "ofp_action_nw_tos": "nw_tos", "ofp_action_tp_port": "tp_port"}


def proj_action(a):
  cls = ACT_CLASSES.get(type(a).__name__)
  if cls is None:
    return {"cls": "?" + type(a).__name__, "type": 0, "n1": 0, "n2": 0, "b": []}
  o = {"cls": cls, "type": _num(a.type), "n1": 0, "n2": 0, "b": []}
  if cls == "output":
    o["n1"], o["n2"] = _num(a.port), _num(a.max_len)
  elif cls == "enqueue":
    o["n1"], o["n2"] = _num(a.port), _num(a.queue_id)
  elif cls == "dl_addr":
    o["b"] = _raw(a.dl_addr)
  elif cls == "nw_addr":
    o["b"] = _raw(a.nw_addr)
  elif cls != "strip_vlan":
    o["n1"] = _num(getattr(a, cls))
  return o


def proj_flow(fm):
  o = {"match": proj_match(fm.match), "actions": [proj_action(a) for a in fm.actions], "cookie": _num(fm.cookie),
       "idle": _num(fm.idle_timeout), "hard": _num(fm.hard_timeout), "prio": _num(fm.priority)}
  fixed = (fm.command, fm.buffer_id, fm.out_port, fm.flags, fm.data)
  if fixed != (of.OFPFC_ADD, None, of.OFPP_NONE, 0, None) or not isinstance(fm, of.ofp_flow_mod):
    o["unexpected"] = repr(fixed)
  return o


def proj_po(po):
  buf = po.buffer_id
  o = {"buf": BUF_MINUS1 if buf == -1 else _num(buf), "inport": _num(po.in_port),
       "actions": [proj_action(a) for a in po.actions],
       "data": list(po.data) if isinstance(po.data, bytes) else "NOT-BYTES:%r" % (po.data,)}
  if not isinstance(po, of.ofp_packet_out):
    o["unexpected"] = type(po).__name__
  return o


# ---------------------------------------------------------------------------- the same objects, built directly
def _opt(n):
  return None if n == NONE_N else n


def direct_match(o):
  kw = {}
  for k in MATCH_KEYS:
    v = o[k]
    if not v["set"]:
      continue
    if k in ("nw_src", "nw_dst"):
      kw[k] = (envmod.ofjson.IPAddr(bytes(v["b"])), v["bits"])
    elif k in ("dl_src", "dl_dst"):
      kw[k] = envmod.ofjson.EthAddr(bytes(v["b"]))
    else:
      kw[k] = v["n"]
  return of.ofp_match(**kw)


def direct_action(o):
  cls, t = o["cls"], _opt(o["type"])
  if cls == "output":
    return of.ofp_action_output(port=_opt(o["n1"]), max_len=_opt(o["n2"]))
  if cls == "enqueue":
    return of.ofp_action_enqueue(port=_opt(o["n1"]), queue_id=_opt(o["n2"]))
  if cls == "strip_vlan":
    return of.ofp_action_strip_vlan()
  if cls == "vlan_vid":
    return of.ofp_action_vlan_vid(vlan_vid=_opt(o["n1"]))
  if cls == "vlan_pcp":
    return of.ofp_action_vlan_pcp(vlan_pcp=_opt(o["n1"]))
  if cls == "nw_tos":
    return of.ofp_action_nw_tos(nw_tos=_opt(o["n1"]))
  if cls == "tp_port":
    return of.ofp_action_tp_port(type=t, tp_port=_opt(o["n1"]))
  if cls == "dl_addr":
    return of.ofp_action_dl_addr(type=t, dl_addr=envmod.ofjson.EthAddr(bytes(o["b"])))
  if cls == "nw_addr":
    return of.ofp_action_nw_addr(type=t, nw_addr=envmod.ofjson.IPAddr(bytes(o["b"])))
  raise Machinery("direct_action: class %r" % (cls,))


def direct_flow(o):
  fm = of.ofp_flow_mod(match=direct_match(o["match"]))
  fm.actions = [direct_action(a) for a in o["actions"]]
  fm.cookie, fm.idle_timeout, fm.hard_timeout, fm.priority = (_opt(o["cookie"]), _opt(o["idle"]), _opt(o["hard"]),
                                                              _opt(o["prio"]))
  return fm


def direct_po(o):
  po = of.ofp_packet_out()
  po.buffer_id = -1 if o["buf"] == BUF_MINUS1 else _opt(o["buf"])
  po.in_port = _opt(o["inport"])
  po.actions = [direct_action(a) for a in o["actions"]]
  po.data = bytes(o["data"])
  return po


def _packed(x, kind, xid):
  """bytes of a deep copy (pack() may canonicalise the object), or the exception class"""
  try:
    y = copy.deepcopy(x)
    if kind == "match":
      y = of.ofp_flow_mod(match=y)
    if kind in ("match", "flow", "po"):
      y.xid = xid
    return y.pack()
  except Exception as e:         # noqa
    return "EXC:" + type(e).__name__


def _wellformed(o):
  """no marker strings inside a projection (a marker makes the comparison with the spec fail on its own)"""
  return "NOT-" not in json.dumps(o) and "?" not in json.dumps(o)


CRASHES = (NameError, UnboundLocalError)


def classify(e):
  return "crash" if isinstance(e, CRASHES) else "reject"


# frames handed to fix_parsed come up from a real switch as packet-ins
def _frames():
  from harness import c11_netsim as ns
  a, b = "00:00:00:00:0a:01", "00:00:00:00:0b:02"
  arp = ns.frame("ff:ff:ff:ff:ff:ff", a, 0x0806, ns.arp_request(a, "10.0.0.1", "10.0.0.2"))
  udp = rb.eth(b, a, 0x0800, ns.ipv4_udp("10.0.0.1", "10.0.0.2", 1000, 2000, 5))
  other = ns.frame(b, a, 0x88b5, bytes(range(46)))
  return {"arp": arp, "udp": udp, "short": arp[:10], "lldpish": other}


class Adapter(object):
  PROJ = {"match": proj_match, "action": proj_action, "awire": proj_action, "flow": proj_flow, "po": proj_po}
  DIRECT = {"match": direct_match, "action": direct_action, "awire": direct_action, "flow": direct_flow,
            "po": direct_po}

  def __init__(self, **kw):
    self.env = None
    self._reset()
    try:
      import socket
      ok = (socket.getservbyname("http"), socket.getservbyname("domain"), socket.getservbyname("ssh")) == (80, 53, 22)
    except Exception:
      ok = False
    if not ok:
      raise Machinery("the sandbox does not resolve the service names of OFJsonTables!Services")

  def _reset(self):
    self.kind = None
    self.doc = None
    self.snapshot = None
    self.obj = None
    self.out = None
    self.obj2 = None

  # -- the conversion functions, by kind
  def _build(self, kind, doc):
    if kind == "match":
      return ofjson.dict_to_match(doc)
    if kind == "action":
      return ofjson.dict_to_action(doc)
    if kind == "flow":
      return ofjson.dict_to_flow_mod(doc)
    if kind == "po":
      return ofjson.dict_to_packet_out(doc)
    raise Machinery("build: kind %r" % (kind,))

  def _from_wire(self, doc):
    """an action as a statistics reply carries it: bytes (harness/rawbytes.py) decoded by the library"""
    d = dict(doc)
    t = d.pop("type")
    mk = {"OFPAT_OUTPUT": lambda: rb.a_output(d["port"], d.get("max_len", 0xffff)),
          "OFPAT_SET_VLAN_VID": lambda: rb.a_vlan_vid(d["vlan_vid"]),
          "OFPAT_SET_VLAN_PCP": lambda: rb.a_vlan_pcp(d["vlan_pcp"]),
          "OFPAT_STRIP_VLAN": rb.a_strip_vlan,
          "OFPAT_SET_DL_SRC": lambda: rb.a_dl_src(d["dl_addr"]), "OFPAT_SET_DL_DST": lambda: rb.a_dl_dst(d["dl_addr"]),
          "OFPAT_SET_NW_SRC": lambda: rb.a_nw_src(d["nw_addr"]), "OFPAT_SET_NW_DST": lambda: rb.a_nw_dst(d["nw_addr"]),
          "OFPAT_SET_NW_TOS": lambda: rb.a_nw_tos(d["nw_tos"]),
          "OFPAT_SET_TP_SRC": lambda: rb.a_tp_src(d["tp_port"]), "OFPAT_SET_TP_DST": lambda: rb.a_tp_dst(d["tp_port"]),
          "OFPAT_ENQUEUE": lambda: rb.a_enqueue(d["port"], d["queue_id"])}
    raw = mk[t]()
    off, acts = of._unpack_actions(raw, len(raw), 0)
    if off != len(raw) or len(acts) != 1:
      raise Machinery("could not decode one action from %s" % raw.hex())
    return acts[0]

  def _fix(self, name):
    if name == "none":
      return ofjson.fix_parsed(None)
    if self.env is None:
      self.env = envmod.Env()
    env = self.env
    env.packet_ins = []
    env.rx(_frames()[name], 1)
    env.run_all()
    if len(env.packet_ins) != 1:
      raise Machinery("frame %r did not come up as exactly one packet-in" % (name,))
    ev = env.packet_ins[0]
    return ofjson.fix_parsed(ev.parsed)          # what OFBot._handle_PacketIn does with the event

  @staticmethod
  def _fix_obs(d):
    types = []
    rawlen = 0
    while isinstance(d, dict):
      types.append(str(d.get("type")))
      if d.get("type") == "raw":
        rawlen = len(d.get("data", []))
        break
      d = d.get("payload")
    return {"types": types, "rawlen": rawlen}

  def _dump(self, kind, obj):
    if kind == "match":
      return ofjson.match_to_dict(obj)
    return ofjson.action_to_dict(obj)

  # -- steps
  def step(self, a, args):
    if a == "Choose":
      self._reset()
      self.kind = args["kind"]
      self.doc = j_decode(args["doc"])
      self.snapshot = copy.deepcopy(self.doc)
      return {"x": 0}
    if a == "Reset":
      self._reset()
      return {"x": 0}
    kind = self.kind
    if a == "Build":
      try:
        if kind == "fix":
          r = self._fix(self.doc["frame"])
          return {"ok": True, "why": "", "o": self._fix_obs(web_json(r))}
        if kind == "awire":
          self.obj = self._from_wire(self.doc)
        else:
          self.obj = self._build(kind, self.doc)
      except Machinery:
        raise
      except Exception as e:       # noqa - the library rejects (or crashes on) the document
        self.obj = None
        return {"ok": False, "why": classify(e), "o": None, "intact": self.doc == self.snapshot}
      o = self.PROJ[kind](self.obj)
      obs = {"ok": True, "why": "", "o": o}
      # the same object built directly through libopenflow_01
      if _wellformed(o):
        d = self.DIRECT[kind](o)
        mine = self.obj
        if kind in ("flow", "po"):           # equality of messages includes the transaction id: give both the same
          mine = copy.deepcopy(self.obj)
          mine.xid = d.xid = 5
        if not (d == mine) or (d != mine):
          obs["direct"] = "object differs from the directly built one"
        elif _packed(d, kind, 5) != _packed(self.obj, kind, 5):
          obs["direct"] = "packs differently from the directly built one"
      if self.doc != self.snapshot:
        obs["intact"] = False
      return obs
    if a == "Dump":
      d = self._dump(kind, self.obj)
      self.out = web_json(d)
      return {"json": j_encode(self.out)}
    if a == "Rebuild":
      k2 = "match" if kind == "match" else "action"
      try:
        self.obj2 = self._build(k2, self.out)
      except Exception as e:       # noqa
        self.obj2 = None
        return {"ok": False, "why": classify(e), "o": None, "same": False}
      o = self.PROJ[k2](self.obj2)
      same = (self.obj2 == self.obj) and not (self.obj2 != self.obj) and o == self.PROJ[kind](self.obj)
      return {"ok": True, "why": "", "o": o, "same": bool(same)}
    if a == "Pack":
      xid = args["xid"]
      try:
        if kind == "match":
          fm = of.ofp_flow_mod(match=self.obj)
          fm.xid = xid
          b = fm.pack()
        elif kind in ("action", "awire"):
          b = self.obj.pack()
        else:
          self.obj.xid = xid            # the web service assigns the transaction id before sending
          b = self.obj.pack()
      except Exception as e:           # noqa
        return {"ok": False, "wire": []}
      if not isinstance(b, bytes):
        return {"ok": True, "wire": "NOT-BYTES"}
      return {"ok": True, "wire": list(b)}
    raise Machinery("unknown action %r" % (a,))

  def normalize(self, obs, exp):
    # a rejected document denotes no object: the spec's placeholder is not an expectation
    if isinstance(obs, dict) and isinstance(exp, dict) and obs.get("ok") is False and exp.get("ok") is False \
        and "o" in exp and obs.get("o") is None:
      obs = dict(obs)
      obs["o"] = exp["o"]
      if obs.get("intact") is True:
        del obs["intact"]
    return obs

  def signature(self, st, obs):
    sig = {"action": st["a"], "kind": self.kind}
    exp = st.get("exp") or {}
    if isinstance(obs, dict) and "EXC" in obs:
      sig["observed"] = "exception:" + obs["EXC"]
    elif isinstance(obs, dict):
      for k in ("ok", "why", "same", "direct", "intact"):
        if obs.get(k) != exp.get(k):
          sig[k] = "%r!=%r" % (obs.get(k), exp.get(k))
      if len(sig) == 2:
        for k in ("o", "json", "wire"):
          if k in exp and obs.get(k) != exp.get(k):
            sig["differs"] = k
            if k == "o" and isinstance(obs.get(k), dict) and isinstance(exp.get(k), dict):
              sig["fields"] = sorted(f for f in exp[k] if obs[k].get(f) != exp[k].get(f))[:4]
    return sig

  def close(self):
    self.env = None


# =============================================================================== WebTable.tla
import struct


def _entries(body):
  """OFPST_FLOW reply body -> the spec's View records (struct only)"""
  out = []
  off = 0
  while off < len(body):
    (ln, tid) = struct.unpack_from("!HB", body, off)
    m = body[off + 4:off + 44]
    dsec, dnsec, prio, idle, hard = struct.unpack_from("!IIHHH", body, off + 44)
    cookie, pk, by = struct.unpack_from("!QQQ", body, off + 64)
    e = {"match": list(m), "prio": prio, "cookie": cookie, "idle": idle, "hard": hard, "pkts": pk, "bytes": by,
         "dur": dsec, "acts": list(body[off + 88:off + ln])}
    if dnsec or tid:
      e["unexpected"] = [dnsec, tid]
    out.append(e)
    if ln < 88:
      raise Machinery("flow statistics entry of length %d" % ln)
    off += ln
  return out


def sort_json(xs):
  return sorted(xs, key=lambda x: json.dumps(x, sort_keys=True))


class WebAdapter(object):
  DPID = "00-00-00-00-00-01"

  def __init__(self, max_entries=8, **kw):
    self.env = envmod.Env(max_entries=max_entries)
    self.env.auto_pump = False
    self.c2s = []
    self.s2c = []
    self.calls = {}        # slot -> Call
    self.ids = {}          # slot -> serial number of the request
    self.xids = {}         # concrete xid -> serial number
    self.ncalls = 0
    self.frame = rb.pad_to(rb.eth("00:00:00:00:0b:02", "00:00:00:00:0a:01", 0x88b5), 60)

  # -- observations
  def _table(self):
    env = self.env
    req = rb.stats_request(rb.ST_FLOW, rb.flow_stats_request_body(), xid=0x7e57)
    env.worker._push_receive_data(req)
    msgs = env.take_s2c()
    if len(msgs) != 1 or msgs[0][1] != rb.STATS_REPLY or struct.unpack_from("!I", msgs[0], 4)[0] != 0x7e57:
      raise Machinery("unexpected answer to the harness's own flow statistics request")
    (stype, flags) = struct.unpack_from("!HH", msgs[0], 8)
    if stype != rb.ST_FLOW or flags:
      raise Machinery("flow statistics reply of type %d flags %d" % (stype, flags))
    return sort_json(_entries(msgs[0][12:]))

  def _collect(self):
    """move what both ends wrote into the queues"""
    new_c2s = self.env.take_c2s()
    self.c2s.extend(new_c2s)
    self.s2c.extend(self.env.take_s2c())
    return new_c2s

  def _wire(self, msg, owner=None):
    v, t, ln, xid = struct.unpack_from("!BBHI", msg, 0)
    if owner is not None and xid not in self.xids:
      self.xids[xid] = owner
    x = self.xids.get(xid, 0)
    if t == rb.FLOW_MOD:
      cmd = struct.unpack_from("!H", msg, 56)[0]
      kind = {0: "add", 3: "del"}.get(cmd, "flowmod-command-%d" % cmd)
      return {"t": kind, "x": x, "body": list(msg[8:])}
    if t == rb.BARRIER_REQUEST:
      return {"t": "bar", "x": x, "body": list(msg[8:])}
    if t == rb.STATS_REQUEST:
      stype, flags = struct.unpack_from("!HH", msg, 8)
      tail = msg[52:]
      if stype != rb.ST_FLOW or flags or tail != b"\xff\x00\xff\xff":
        return {"t": "sreq-unexpected", "x": x, "body": list(msg[8:])}
      return {"t": "sreq", "x": x, "body": list(msg[12:52])}
    return {"t": "type-%d" % t, "x": x, "body": list(msg[8:])}

  @staticmethod
  def _classify(resp):
    if not isinstance(resp, dict):
      return {"resp": "not-a-dict:%r" % (resp,), "list": []}
    if "error" in resp:
      msg = str(resp["error"].get("message"))
      for known in ("Operation timed out", "OpenFlow Error", "No such switch", "Method not found"):
        if known in msg:
          return {"resp": "error:" + known, "list": []}
      return {"resp": "error:" + msg[:60], "list": []}
    r = resp.get("result")
    if isinstance(r, dict) and r.get("dpid") == WebAdapter.DPID:
      if r.get("flowmod") is True and set(r) == {"flowmod", "dpid"}:
        return {"resp": "flowmod", "list": []}
      if isinstance(r.get("flowstats"), list) and set(r) == {"flowstats", "dpid"}:
        return {"resp": "flowstats", "list": sort_json([j_encode(e) for e in r["flowstats"]])}
    return {"resp": "unexpected:%s" % json.dumps(resp)[:120], "list": []}

  # -- steps
  def step(self, a, args):
    out = self._step(a, args)
    return {"out": out, "table": self._table()}

  def _step(self, a, args):
    env = self.env
    if a in ("CallSetTable", "CallGetStats"):
      r = args["r"]
      self.ncalls += 1
      self.ids[r] = self.ncalls
      if a == "CallSetTable":
        params = {"dpid": self.DPID, "flows": j_decode(args["flows"])}
        method = "set_table"
      else:
        params = {"dpid": self.DPID}
        if args["has"]:
          params["match"] = j_decode(args["match"])
        method = "get_flow_stats"
      c = envmod.Call(env, method, params).start()
      if c.done:
        raise Machinery("the request did not block in get_response(): %r" % (c.result,))
      self.calls[r] = c
      if self._collect():
        return {"x": "sent-before-init"}
      return {"x": 0}
    if a == "CallNoSwitch":
      self.ncalls += 1
      kind = args["kind"]
      if kind == "nomethod":
        resp = env.rpc("no_such_method", {"dpid": self.DPID})
      else:
        params = {"dpid": "00-00-00-00-00-99"}
        if kind == "set_table":
          params["flows"] = []
        resp = env.rpc(kind, params)
      self._collect()
      return {"resp": self._classify(resp)["resp"]}
    if a == "InitReq":
      env.cycle()
      new = self._collect()
      return {"sent": [self._wire(m, owner=self.ids[args["r"]]) for m in new]}
    if a == "SwitchStep":
      if not self.c2s:
        return {"x": "nothing-in-flight-to-the-switch"}
      env.deliver_to_switch(self.c2s.pop(0))
      self._collect()
      return {"x": 0}
    if a == "CtlStep":
      if not self.s2c:
        return {"x": "nothing-in-flight-to-the-controller"}
      env.deliver_to_controller(self.s2c.pop(0))       # handlers run inside Connection.read; the scheduler is NOT stepped
      self._collect()
      return {"x": 0}
    if a in ("Respond", "Timeout"):
      c = self.calls.pop(args["r"])
      resp = c.resume()
      if not c.done:
        raise Machinery("the HTTP thread blocked again")
      self._collect()
      return self._classify(resp)
    if a == "Packet":
      env.rx(self.frame, args["p"])
      self._collect()
      return {"x": 0}
    if a == "Tick":
      env.clock.advance(args["d"])
      return {"x": 0}
    raise Machinery("unknown action %r" % (a,))

  def signature(self, st, obs):
    sig = {"action": st["a"], "machine": "web"}
    exp = st.get("exp") or {}
    if isinstance(obs, dict) and "EXC" in obs:
      sig["observed"] = "exception:" + obs["EXC"]
    elif isinstance(obs, dict):
      if obs.get("table") != exp.get("table"):
        sig["differs"] = "table"
        sig["entries"] = "%d!=%d" % (len(obs.get("table") or []), len(exp.get("table") or []))
      else:
        sig["differs"] = "out"
        o, e = obs.get("out") or {}, exp.get("out") or {}
        if o.get("resp") != e.get("resp"):
          sig["resp"] = "%s!=%s" % (o.get("resp"), e.get("resp"))
        if "sent" in e:
          sig["sent"] = "%s!=%s" % ([m.get("t") for m in o.get("sent", [])], [m.get("t") for m in e["sent"]])
    return sig

  def close(self):
    for c in list(self.calls.values()):
      try:
        c.resume()
      except Exception:
        pass
    self.calls = {}
