"""C06/C07-locks adapter: Sched.tla actions -> the real recoco Scheduler/SelectHub.

The scheduler thread is never started: the harness calls cycle() and
SelectHub._select() itself, time is virtual, select() is a polling shim that
advances the virtual clock by the requested timeout when nothing is readable.
"""
import os
import select as _select
import socket
import threading

from harness import poxenv

poxenv.boot()
import pox.lib.recoco.recoco as recoco   # noqa: E402

poxenv.install_clock(recoco)
clock = poxenv.clock

NOTO = 999


class _Quiet(object):
  def print_exc(self, *a, **k):
    pass

  def __getattr__(self, n):
    import traceback
    return getattr(traceback, n)


recoco.print = lambda *a, **k: None
recoco.traceback = _Quiet()


class SubErr(Exception):
  pass


class TaskAbort(BaseException):
  """what a task may also die of: not an Exception (like SystemExit / KeyboardInterrupt raised inside a task)"""


class FakeThread(object):
  def __init__(self, *a, **k):
    self.daemon = True

  def start(self):
    pass


class FakeEvent(object):
  def __init__(self):
    self.flag = False

  def set(self):
    self.flag = True

  def clear(self):
    self.flag = False

  def wait(self, timeout=None):
    return self.flag

  def is_set(self):
    return self.flag


def norm(v):
  if v is None:
    return "none"
  if v is True:
    return "true"
  if v is False:
    return "false"
  if isinstance(v, SubErr):
    return "exc"
  if isinstance(v, BaseException):
    return "exc:" + type(v).__name__
  if isinstance(v, tuple) and len(v) == 3 and all(isinstance(x, list) for x in v):
    if not v[0] and not v[1] and not v[2]:
      return "timeout"
    return "fd"
  if v == 42:
    return "ret"
  if isinstance(v, bytes):
    return "data" if v else "eof"
  if isinstance(v, int):
    return "sent"
  return "val:" + repr(v)[:30]


class UserTask(recoco.BaseTask):
  def run(self, genf):
    return genf()


class Adapter(object):
  def __init__(self, threaded=False, nlocks=1, epoll=False):
    self.threaded = threaded
    self.ep = None
    if epoll:
      from pox.lib.epoll_select import EpollSelect
      self.ep = EpollSelect()
    self.base = clock.now
    orig_thread = recoco.Thread
    recoco.Thread = FakeThread
    try:
      self.sched = recoco.Scheduler(isDefaultScheduler=True, startInThread=False,
                                    threaded_selecthub=threaded)
    finally:
      recoco.Thread = orig_thread
    recoco.defaultScheduler = self.sched
    self.hub = self.sched._selectHub
    if threaded:
      self.hub._event = FakeEvent()
    self.hub._select_func = self._vselect
    self.log = []
    self.tasks = {}
    self.finished = set()
    self.socks = {}
    self.locks = {i: recoco.Lock() for i in range(1, nlocks + 1)}
    self.fires = []
    self.timer = None
    self.stids = {}
    self.pending_st = None
    self.wpairs = []
    self.wsocks = {}
    self._cur_tid = 0

  # ---- environment
  def _vselect(self, r, w, x, timeout):
    if self.ep is not None:      # SelectHub(use_epoll=True): EpollSelect must behave like select()
      ro, wo, xo = self.ep.select(list(r), list(w), list(x), 0)
    else:
      ro, wo, xo = _select.select(list(r), list(w), list(x), 0)
    if ro or wo or xo:
      return ro, wo, xo
    if timeout is not None:
      clock.advance(timeout)
    return [], [], []

  def _sock(self, f):
    if f not in self.socks:
      self.socks[f] = socket.socketpair()
    return self.socks[f]

  def _wsock(self, tid, script):
    """a socket that is always writable for select() but whose send() follows a script"""
    a, b = socket.socketpair()
    self.wpairs.append((a, b))
    ad = self

    class WSock(object):
      name = "w%d" % tid

      def fileno(self_):
        return a.fileno()

      def send(self_, data, flags=0):
        k = script.pop(0) if script else "F"
        if k == "F":
          return len(data)
        if k == "P":
          return 1 if len(data) > 1 else 0
        raise socket.error(11, "Resource temporarily unavailable")
    w = WSock()
    self.wsocks[tid] = w
    return w

  def close(self):
    if self.ep is not None:
      self.ep.close()
    for a, b in self.wpairs:
      a.close()
      b.close()
    for a, b in self.socks.values():
      a.close()
      b.close()
    for t in self.tasks.values():
      try:
        t.gen.close()
      except Exception:
        pass
    p = self.hub._pinger
    for fd in (p._w, p._r):
      try:
        os.close(fd)
      except Exception:
        pass
    p._w = p._r = -1
    if self.sched._callLaterTask is not None:
      p = self.sched._callLaterTask._pinger
      for fd in (p._w, p._r):
        try:
          os.close(fd)
        except Exception:
          pass
      p._w = p._r = -1

  # ---- task programs
  def _make(self, op):
    k = op["op"]
    if k == "Resched":
      return 0
    if k == "SleepN":
      return op["d"]
    if k == "SleepOp":
      return recoco.Sleep(op["d"])
    # Select takes its fd collections as lists or any other iterable (tuple, set), and its timeout by position or
    # by keyword: the form is varied with the task - what is waited for, and for how long, must not depend on it
    form = self._cur_tid % 3
    def fds(*x):
      return list(x) if form == 0 else tuple(x) if form == 1 else set(x)
    if k == "SelT":
      return recoco.Select(fds(), fds(), fds(), op["d"])
    if k == "SelFD":
      to = None if op["d"] == NOTO else op["d"]
      if form == 2:
        return recoco.Select(fds(self._sock(op["fd"])[0]), None, None, timeout=to)
      return recoco.Select(fds(self._sock(op["fd"])[0]), None, None, to)
    if k == "SelW":
      to = None if op["d"] == NOTO else op["d"]
      return recoco.Select(None, fds(self._sock("a")[0]), None, to)
    if k == "Recv":
      to = None if op["d"] == NOTO else op["d"]
      return recoco.Recv(self._sock(op["fd"])[0], timeout=to)
    if k == "Send":
      return recoco.Send(self._wsock(self._cur_tid, [c["op"] for c in op["sub"]]), b"0123456789")
    if k == "Block":
      return False
    if k == "Exit":
      return recoco.Exit()
    if k == "Acq":
      return self.locks[op["lk"]].acquire(op["d"] != 0)
    if k == "Rel":
      return self.locks[op["lk"]].release()
    raise ValueError(k)

  def _sub2gen(self, tid, so):
    """the sub-function a sub-function calls (Call2): no blocking operations, just a result"""
    def g():
      self.log.append([400 + tid, 1, "none"])
      if so["v"] == "ret":
        yield 42
      elif so["v"] == "throw":
        raise SubErr()
      return
      yield      # (a generator even when it returns at once)
    return g()

  def _subgen(self, tid, op):
    sid = 100 + tid

    def g():
      got = None
      j = 0
      for j, so in enumerate(op["sub"]):
        self.log.append([sid, j + 1, norm(got)])
        try:
          got = yield (recoco.Again(self._sub2gen(tid, so)) if so["op"] == "Call2" else self._make(so))
        except Exception as e:     # noqa
          got = e
      self.log.append([sid, len(op["sub"]) + 1, norm(got)])
      if op["v"] == "ret":
        yield 42
      elif op["v"] == "throw":
        raise SubErr()
    return g()

  def _usergen(self, tid, prog):
    def g():
      got = None
      try:
        for i, op in enumerate(prog):
          self.log.append([tid, i + 1, norm(got)])
          if op["op"] == "Raise":
            # concretisation of "the task's step fails": an ordinary Exception for odd task ids, something
            # that is not an Exception for even ones - isolation may not depend on what a task dies of
            if tid % 2 == 0:
              raise TaskAbort("task failure (scripted, BaseException)")
            raise RuntimeError("task failure (scripted)")
          self._cur_tid = tid
          y = recoco.Again(self._subgen(tid, op)) if op["op"] == "Call" else self._make(op)
          try:
            got = yield y
          except Exception as e:   # noqa
            got = e
        self.log.append([tid, len(prog) + 1, norm(got)])
      finally:
        self.finished.add(tid)
    return g

  # ---- projection
  def _tid(self, t):
    if isinstance(t, recoco.AgainTask):
      if isinstance(t.parent.task, recoco.AgainTask):      # nested call: the caller is itself a sub-function
        return 400 + t.parent.task.parent.task.vid
      return 100 + t.parent.task.vid
    if isinstance(t, recoco.ScheduleTask):
      if id(t) not in self.stids:
        self.stids[id(t)] = (self.pending_st, t)
        self.pending_st = None
      return self.stids[id(t)][0]
    if isinstance(t, recoco.Timer):
      return 50
    return getattr(t, "vid", -1)

  def _until(self, to):
    if to is None:
      return NOTO
    v = to - self.base
    return int(v) if float(v).is_integer() else v

  def _fdname(self, rl, wl=None):
    if wl:
      for f, (a, b) in self.socks.items():
        if wl[0] is a:
          return "w" + f
      return getattr(wl[0], "name", "w?")
    if rl:
      for f, (a, b) in self.socks.items():
        if rl[0] is a:
          return f
      return "?"
    return "-"

  def project(self, ran):
    hub = self.hub
    pinged = bool(_select.select([hub._pinger], [], [], 0)[0])
    now = clock.now - self.base
    return {
        "ran": ran,
        "ready": [self._tid(t) for t in self.sched._ready],
        "reg": sorted([self._tid(v[0]), self._until(v[4]), self._fdname(v[1], v[2])]
                      for v in hub._tasks.values()),
        "inc": [[self._tid(v[0]), self._until(v[4]), self._fdname(v[1], v[2])]
                for v in list(hub._incoming.queue)],
        "now": int(now) if float(now).is_integer() else now,
        "pinged": pinged,
        "ev": bool(self.threaded and hub._event.flag),
        "alive": sorted(t for t in self.tasks if t not in self.finished),
        "fires": list(self.fires),
        "quit": bool(self.sched._hasQuit),
    }

  # ---- actions
  def step(self, a, args):
    self.log = []
    if a == "Setup":
      for i, prog in enumerate(args["p"]):
        tid = i + 1
        t = UserTask(self._usergen(tid, prog))
        t.vid = tid
        if tid in args.get("lo", ()):
          t.priority = 0.5      # below 1: Scheduler.cycle may send it to the back of the deque
        self.tasks[tid] = t
        t.start(self.sched, fast=True)
    elif a == "Cycle":
      # the scheduler's random draws are the environment's input: k times "more than the task's priority"
      # (the head goes to the back), then "less" (the task at the head is resumed)
      draws = [1.0] * args.get("k", 0)
      self.sched._random = lambda: draws.pop() if draws else 0.0
      self.sched.cycle()
    elif a == "HubSelect":
      self.hub._select(self.hub._tasks, {})
    elif a == "Idle":
      self.hub.idle()
    elif a == "Advance":
      clock.advance(args["d"])
    elif a == "FdSet":
      self._sock(args["fd"])[1].send(b"x")
    elif a == "FdClear":
      self._sock(args["fd"])[0].recv(100)
    elif a == "WakeST":
      self.sched._thread = None
      self.pending_st = args["id"]
      self.sched.schedule(self.tasks[args["t"]])
    elif a == "WakeDirect":
      self.sched._thread = threading.current_thread()
      try:
        self.sched.schedule(self.tasks[args["t"]])
      finally:
        self.sched._thread = None
    elif a == "StartTimer":
      c = args["c"]

      def cb():
        self.fires.append(self._until(clock.now))
        if c["stop"] and len(self.fires) >= c["stop"]:
          return False
        # only the value False stops a self-stoppable timer: other falsy results must not
        return (0, None, 0.0, "")[len(self.fires) % 4]
      self.sched._thread = None
      self.pending_st = 250
      self.timer = recoco.Timer(c["d"], cb, recurring=c["rec"], scheduler=self.sched)
    elif a == "CancelTimer":
      self.timer.cancel()
    else:
      raise ValueError(a)
    return self.project(self.log)

  def accept_alt(self, obs, st):
    """the spec leaves some orders/choices open: any listed alternative is conformant"""
    exp = st["exp"]
    alts = st.get("alts") or []
    if alts and isinstance(obs, dict) and "ready" in obs:
      rest_o = {k: v for k, v in obs.items() if k not in ("ready", "reg")}
      rest_e = {k: v for k, v in exp.items() if k not in ("ready", "reg")}
      if rest_o == rest_e:
        for a in alts:
          if a["ready"] == obs["ready"] and sorted(a["reg"]) == obs["reg"]:
            return True
    return False

  def signature(self, st, obs):
    sig = {"action": st["a"]}
    exp = st["exp"]
    if isinstance(obs, dict) and "EXC" in obs:
      sig["observed"] = "exception:" + obs["EXC"]
      return sig
    sig["fields"] = sorted(k for k in exp if obs.get(k) != exp[k])
    if st["a"] == "Cycle":
      sig["task_kind"] = ("user" if st["args"]["t"] < 50 else "timer" if st["args"]["t"] == 50
                          else "sub" if st["args"]["t"] < 200 else "st")
    return sig
