"""X12: the documented intent (Strict = TRUE) against the real code - NOT part of ./check.

  /venv/bin/python -m harness.x12_strict

Records, on the real rip_core router, the shortest history of every named deviation of specs/rip/RipCore.tla /
Rip.tla, and lets TLC validate each recorded trace twice: with the specification of what the code does
(Trace*.cfg, Strict = FALSE: must be ACCEPTED) and with the specification of the documented intent
(Trace*Strict.cfg, Strict = TRUE, plus the properties ConfiguredPermanent and RFCPacketLimit: must be REJECTED,
at the step named below).
"""
import json
import os
import sys

VERIF = os.path.dirname(os.path.dirname(os.path.abspath(__file__)))
if VERIF not in sys.path:
  sys.path.insert(0, VERIF)


def E(k, m):
  return dict(k=k, m=m, tag=0, af="inet")


HISTORIES = [
    ("StaticOverride: the next hop of a static route poisons it back (what a RIP neighbour does with a route it "
     "learned from us), the static route is replaced and garbage-collected", "Trace", dict(mtu=124), [
         ("AddStatic", dict(k="p2", nh="c", m=3)),
         ("Response", dict(n="c", i="i2", ents=[E("p2", 16)])),
         ("Advance", dict(d=2)), ("Fire", dict(x=0)), ("Advance", dict(d=23)), ("Timeout", dict(k="c")),
         ("Advance", dict(d=2)), ("Fire", dict(x=0)), ("Advance", dict(d=43)), ("Garbage", dict(k="p2")),
         ("Periodic", dict(x=0))], 1),
    ("StaticOverride: a better metric from anybody replaces a local (kernel) route; when that neighbour falls "
     "silent the destination is gone although it is directly attached", "Trace", dict(mtu=124), [
         ("AddLocal", dict(k="p2", m=5)),
         ("Response", dict(n="a", i="i1", ents=[E("p2", 1)])),
         ("Advance", dict(d=2)), ("Fire", dict(x=0)), ("Advance", dict(d=23)), ("Timeout", dict(k="a")),
         ("Timeout", dict(k="p2")), ("Advance", dict(d=2)), ("Fire", dict(x=0)), ("Advance", dict(d=68)),
         ("Garbage", dict(k="a")), ("Garbage", dict(k="p2")),
         ("Periodic", dict(x=0))], 1),
    ("InvalidMetricAccepted: metric 0 yields a one-hop route", "Trace", dict(mtu=124), [
        ("Response", dict(n="a", i="i1", ents=[E("p1", 0)]))], 0),
    ("InvalidMetricAccepted: metric 17 is taken for 'unreachable' and starts the deletion of a good route", "Trace",
     dict(mtu=124), [
         ("Response", dict(n="a", i="i1", ents=[E("p1", 1)])),
         ("Response", dict(n="a", i="i1", ents=[E("p1", 17)]))], 1),
    ("RequestIgnored: a whole-table request is not answered", "Trace", dict(mtu=124), [
        ("Response", dict(n="a", i="i1", ents=[E("p1", 1)])),
        ("Request", dict(n="c"))], 1),
    ("EmptyPacket: mtu 64 and nothing to say - one datagram without entries (4 octets, which pox's own RIP parser "
     "refuses)", "Trace", dict(mtu=124), [
         ("Query", dict(i="i1", force=True, so=False, mtu=64))], 0),
    ("EmptyPacket: mtu 84 - a leading datagram without entries", "Trace", dict(mtu=124), [
        ("Response", dict(n="a", i="i1", ents=[E("p1", 1)])),
        ("Query", dict(i="i2", force=True, so=False, mtu=84))], 1),
    ("OversizedPacket: 70 routes, DEFAULT_MTU: the periodic update carries 66 + 5 entries (RFC 2453: at most 25)",
     "TraceBig", dict(mtu=None), [
         ("Response", dict(n="a", i="i1", ents=[E("p%d" % j, 1) for j in range(1, 36)])),
         ("Response", dict(n="a", i="i1", ents=[E("p%d" % j, 1) for j in range(36, 71)])),
         ("Periodic", dict(x=0))], 2),
]


def main():
  from engine import tracecheck
  from harness.adapters_x12 import Adapter
  from props.X12 import record
  rc = 0
  for what, cfg, par, steps, expect in HISTORIES:
    tr = record(Adapter(T=25, G=70, R=2, **par), steps)
    big = {"JAVA_TOOL_OPTIONS": "-Xss32m"}
    _, rej_code = tracecheck.validate("rip", "TraceRip", cfg + ".cfg", [tr], tag="X12", extra_env=big)
    _, rej_strict = tracecheck.validate("rip", "TraceRip", cfg + "Strict.cfg", [tr], tag="X12", extra_env=big)
    print("* " + what)
    for j, e in enumerate(tr):
      o = e["obs"]
      line = "    %d. %s %s" % (j, e["a"], json.dumps(e["args"]) if len(json.dumps(e["args"])) < 90 else "{... %d entries}" % len(e["args"].get("ents", [])))
      tbl = [r for r in o["tbl"] if not r[0].startswith("p") or r[0] in ("p1", "p2")]
      line += "\n         table(excerpt) " + json.dumps(tbl[:4])
      out = {i: p["sizes"] for i, p in o["out"].items() if p["sizes"]}
      if out:
        line += "\n         packets sent, entries per packet: " + json.dumps(out)
      print(line)
    a = "ACCEPTED" if not rej_code else "REJECTED at step %d" % rej_code[0][1]
    s = "ACCEPTED" if not rej_strict else "REJECTED at step %d" % rej_strict[0][1]
    verdict = "as expected" if (not rej_code and rej_strict and rej_strict[0][1] == expect) else "UNEXPECTED"
    if verdict != "as expected":
      rc = 1
    print("    specification of the code (Strict=FALSE): %s;  documented intent (Strict=TRUE): %s  [%s]\n" % (a, s, verdict))
  return rc


if __name__ == "__main__":
  sys.exit(main())
